"""Robustness obligations shared by several properties.

Every property is quantified over "every input / configuration"; two facts about the *interpreter*
and about *user objects* are part of that quantifier and are visible in the shape of the code:

* ``python -O`` removes every ``assert`` statement.  An assert whose test (or message) carries an
  effect -- a pop / setdefault / append / add / next() / walrus / a call of a package function that
  stores -- is a state change that silently disappears under -O.  So: no assert statement in the
  functions a property is anchored in carries an effect.
* layers are user objects: a class or an instance of any class.  ``bool(layer)`` calls
  ``__bool__`` / ``__len__`` of user code (a layer *instance* of a container-like class is falsy
  while empty; a metaclass may define ``__len__`` for a layer class).  A layer value must therefore
  be compared with ``is None`` / looked up with ``in``; it is never tested for truthiness.
"""
import ast
import json
import os
import re

from .common import dotted, norm

EFFECT_METHODS = ('pop', 'popitem', 'setdefault', 'append', 'appendleft', 'add', 'update', 'extend',
                  'insert', 'remove', 'discard', 'clear', 'sort', 'reverse', 'write', 'writelines',
                  'put', 'send', 'close', 'flush', 'seek', 'truncate', 'read', 'readline', 'start',
                  'join', 'kill', 'wait', 'release', 'acquire', 'set', 'difference_update',
                  'intersection_update', 'symmetric_difference_update', '__setitem__', '__delitem__')
EFFECT_FUNCS = ('next', 'setattr', 'delattr', 'exec', 'eval', 'print', 'input', 'os.remove', 'os.unlink',
                'os.rmdir', 'os.makedirs', 'os.mkdir', 'os.rename', 'os.chdir', 'shutil.rmtree')

_HERE = os.path.dirname(os.path.dirname(os.path.abspath(__file__)))
_anchor_text = {}


def _anchors(prop):
    if not _anchor_text:
        for line in open(os.path.join(_HERE, 'properties.jsonl')):
            p = json.loads(line)
            _anchor_text[p['id']] = (json.dumps(p.get('anchors', {})), [
                os.path.basename(f)[:-3] for f in p.get('anchors', {}).get('files', [])])
    return _anchor_text[prop]


def _words(fi):
    """names under which a property's anchor text can mention this function"""
    parts = [p for p in fi.qualname.split('.')[1:] if not p.startswith('__')]
    return parts


def _mentioned(words, text):
    return any(re.search(r'(?<![A-Za-z0-9_])%s(?![A-Za-z0-9_])' % re.escape(w), text) for w in words)


def in_scope(prop, fi):
    """the function belongs to this property: its name (or its class) is named in the property's
    anchors; a function no property names belongs to every property anchored in its file"""
    text, files = _anchors(prop)
    if fi.module.name.split('.')[-1] not in files:
        return False
    w = _words(fi)
    if _mentioned(w, text):
        return True
    _anchors('C01')
    return not any(_mentioned(w, t) for t, _f in _anchor_text.values())


def _stores(fnode):
    """does the function body store outside its own locals (attribute / subscript / global)?"""
    for x in ast.walk(fnode):
        if isinstance(x, (ast.Global, ast.Nonlocal, ast.Delete)):
            return True
        if isinstance(x, (ast.Assign, ast.AugAssign, ast.AnnAssign)):
            for t in (x.targets if isinstance(x, ast.Assign) else [x.target]):
                if isinstance(t, (ast.Attribute, ast.Subscript)):
                    return True
        if isinstance(x, ast.Call) and isinstance(x.func, ast.Attribute) and x.func.attr in EFFECT_METHODS:
            return True
    return False


def effects_of(ctx, fi, expr):
    """the effect-carrying sub-expressions of expr (None entries never returned)"""
    out = []
    for x in ast.walk(expr):
        if isinstance(x, ast.NamedExpr):
            out.append((x, 'binds %s' % norm(x.target)))
        elif isinstance(x, (ast.Yield, ast.YieldFrom, ast.Await)):
            out.append((x, 'suspends the function'))
        elif isinstance(x, ast.Call):
            d = dotted(x.func) or ''
            if isinstance(x.func, ast.Attribute) and x.func.attr in EFFECT_METHODS:
                # str.join / os.path.join are pure: receiver a literal or a module path
                if x.func.attr == 'join' and (isinstance(x.func.value, ast.Constant) or d.endswith('path.join')):
                    continue
                out.append((x, 'calls .%s()' % x.func.attr))
            elif d in EFFECT_FUNCS:
                out.append((x, 'calls %s()' % d))
            else:
                try:
                    r = ctx.cg.resolve_call(x, fi)
                except Exception:
                    r = None
                if isinstance(r, list):
                    for t in r:
                        if _stores(t.node):
                            out.append((x, 'calls %s, which stores' % t.qualname))
                            break
    return out


def asserts_have_no_effects(ctx, rep, R, prop):
    rep.rule(R, 'the property holds under python -O as well: no assert statement in the functions this '
             'property is anchored in carries an effect (pop / setdefault / append / add / next() / '
             'walrus / a call of a package function that stores) -- -O removes the statement and the '
             'effect with it')
    m = ctx.model
    total = 0
    mine = 0
    for fi in m.all_functions():
        if fi.module.name.startswith('tests'):
            continue
        own = [x for x in ast.walk(fi.node) if isinstance(x, ast.Assert)]
        # nested functions are FunctionInfo of their own only if the model lists them; count each
        # assert once, for the innermost listed function
        inner = [g for g in m.all_functions() if g is not fi and g.module is fi.module and
                 g.qualname.startswith(fi.qualname + '.')]
        own = [a for a in own if not any(a in list(ast.walk(g.node)) for g in inner)]
        total += len(own)
        if not own or not in_scope(prop, fi):
            continue
        for a in own:
            mine += 1
            eff = effects_of(ctx, fi, a.test) + (effects_of(ctx, fi, a.msg) if a.msg is not None else [])
            rep.check(not eff, R, '%s: assert %s' % (fi.qualname, norm(a.test)[:60]),
                      'the assert statement %s (removed by python -O) %s: without it the state change '
                      'is lost' % (norm(a)[:90], eff[0][1] if eff else ''),
                      key='assert:%s:%s' % (fi.qualname, norm(a.test)[:60]), func=fi.qualname,
                      where=ctx.where(fi, a))
    rep.floor(R, total, 4, 'assert statements in the package')
    rep.ok(R, '%d assert statements in the package, %d in functions of this property: none carries an '
           'effect' % (total, mine))
    return mine


# ---- truthiness of user objects -------------------------------------------------------------
# expressions whose value IS a layer (user object)
LAYER_CALLS = ('layer_from_name', 'runner.layer_from_name')
LAYER_CACHE = ('_layer_name_cache',)
# (function, parameter) pairs that receive a layer
LAYER_PARAMS = {
    'runner.name_from_layer': ('layer',), 'runner.gather_layers': ('layer',),
    'runner.layer_sort_key': ('layer',), 'runner.setup_layer': ('layer',),
    'runner.run_layer': ('layer',), 'runner.TestResult.__init__': ('layer',),
}


def _positional(fi, names):
    ps = [a.arg for a in fi.node.args.posonlyargs + fi.node.args.args]
    return [p for p in ps if p in names]


def _layer_exprs(fi, layer_names):
    def is_layer(e):
        if isinstance(e, ast.Name):
            return e.id in layer_names
        if isinstance(e, ast.Call):
            d = dotted(e.func) or ''
            if d in LAYER_CALLS:
                return True
            if isinstance(e.func, ast.Attribute) and e.func.attr in ('get', 'pop', 'setdefault') and \
                    (dotted(e.func.value) or '').split('.')[-1] in LAYER_CACHE:
                return True
        if isinstance(e, ast.Subscript) and (dotted(e.value) or '').split('.')[-1] in LAYER_CACHE:
            return True
        if isinstance(e, ast.NamedExpr):
            return is_layer(e.value)
        return False
    return is_layer


def _layer_locals(fi):
    """fixpoint: locals bound to a layer value"""
    names = set()
    pos = LAYER_PARAMS.get(fi.qualname)
    if pos:
        names |= set(_positional(fi, pos))
    changed = True
    while changed:
        changed = False
        is_layer = _layer_exprs(fi, names)
        for x in ast.walk(fi.node):
            tgt = val = None
            if isinstance(x, ast.Assign) and len(x.targets) == 1 and isinstance(x.targets[0], ast.Name):
                tgt, val = x.targets[0].id, x.value
            elif isinstance(x, ast.NamedExpr) and isinstance(x.target, ast.Name):
                tgt, val = x.target.id, x.value
            elif isinstance(x, (ast.For, ast.comprehension)) and isinstance(x.target, ast.Name):
                it = x.iter
                d = dotted(it) or ''
                # the bases of a layer are layers
                if d.endswith('.__bases__') and d.rsplit('.', 1)[0] in names:
                    tgt, val = x.target.id, None
                    if tgt not in names:
                        names.add(tgt)
                        changed = True
                continue
            if tgt and val is not None and tgt not in names and is_layer(val):
                names.add(tgt)
                changed = True
    return names


def _truth_uses(fnode):
    """(node, expr) for every expression whose truth value is taken"""
    out = []

    def operands(t):
        while isinstance(t, ast.UnaryOp) and isinstance(t.op, ast.Not):
            t = t.operand
        if isinstance(t, ast.BoolOp):
            for v in t.values:
                operands(v)
        else:
            out.append(t)
    for x in ast.walk(fnode):
        if isinstance(x, (ast.If, ast.While, ast.IfExp, ast.Assert)):
            operands(x.test)
        elif isinstance(x, ast.comprehension):
            for c in x.ifs:
                operands(c)
        elif isinstance(x, ast.BoolOp):
            # `a or b` used as a value: every operand but the last is truth-tested
            for v in x.values[:-1]:
                operands(v)
        elif isinstance(x, ast.UnaryOp) and isinstance(x.op, ast.Not):
            operands(x.operand)
        elif isinstance(x, ast.Call) and dotted(x.func) == 'bool' and x.args:
            operands(x.args[0])
    return out


def layers_not_truth_tested(ctx, rep, R):
    rep.rule(R, 'a layer is a user object (any class or instance; bool() of it runs user code and may be '
             'False): a layer value -- a layer parameter, layer_from_name(...), an entry of the layer '
             'name cache, a base of a layer -- is compared with `is None` / looked up with `in`, never '
             'tested for truthiness')
    m = ctx.model
    n = 0
    seen = 0
    for fi in m.all_functions():
        if fi.module.name.split('.')[-1] not in ('runner', 'filter', 'shuffle', 'listing', 'find'):
            continue
        names = _layer_locals(fi)
        is_layer = _layer_exprs(fi, names)
        uses = _truth_uses(fi.node)
        lay = [e for e in uses if is_layer(e)]
        if names or lay:
            seen += 1
        for e in lay:
            n += 1
            rep.check(False, R, '%s: %s is not truth-tested' % (fi.qualname, norm(e)[:40]),
                      'the layer value %s is tested for truthiness: a layer object that is falsy '
                      '(__bool__ / __len__ of the user\'s class or metaclass) is taken for "no layer"' % (
                          norm(e)[:60]), key='layer-truth:%s:%s' % (fi.qualname, norm(e)[:40]),
                      func=fi.qualname, where=ctx.where(fi, e))
    rep.floor(R, seen, 4, 'functions holding layer values')
    rep.ok(R, '%d functions hold layer values (table + def-use); no layer value is truth-tested' % seen)
    return n


# ---- argument roles ---------------------------------------------------------------------------
def argument_roles_agree(ctx, rep, R):
    """Engler-style belief rule, unanimous on this code base (357 of 357 positional arguments at the
    time of writing): when a call passes a plain local whose NAME is the name of one of the callee's
    parameters, it passes it in that parameter's position.  The one way to break it while everything
    still runs in the common case is dropping / inserting a middle argument of a call whose later
    parameters have defaults (``_iter_chain(cause, seen)`` binds the ``seen`` set to ``custom_tb``):
    the value then flows into code that expects another type and raises only on the rare path."""
    rep.rule(R, 'nothing the runner does on the reporting path fails on a mis-bound argument: at every '
             'call whose callee is resolved inside the package, a positional argument that is a plain '
             'name equal to one of the callee\'s parameter names is bound to THAT parameter (self / cls '
             'excepted); a keyword argument is bound by name and always agrees')
    m = ctx.model
    n = 0
    for fi in m.all_functions():
        if fi.module.name.startswith('tests'):
            continue
        for c in ast.walk(fi.node):
            if not isinstance(c, ast.Call):
                continue
            try:
                r = ctx.cg.resolve_call(c, fi)
            except Exception:
                r = None
            if not isinstance(r, list) or len(r) != 1:
                continue
            t = r[0]
            ps = [a.arg for a in t.node.args.posonlyargs + t.node.args.args]
            explicit = isinstance(c.func, ast.Attribute) and c.func.attr == t.node.name and not (
                isinstance(c.func.value, ast.Name) and c.func.value.id in ('self', 'cls')) and c.args and \
                isinstance(c.args[0], ast.Name) and c.args[0].id == 'self'
            off = 0 if explicit or not (ps and ps[0] in ('self', 'cls')) else 1
            for i, a in enumerate(c.args):
                if isinstance(a, ast.Starred):
                    break
                j = i + off
                if j >= len(ps):
                    break
                n += 1
                if isinstance(a, ast.Name) and a.id not in ('self', 'cls') and a.id != ps[j] and a.id in ps:
                    rep.check(False, R, '%s: %s' % (fi.qualname, norm(c)[:60]),
                              'the call %s in %s binds the local %r to the parameter %r of %s, which has a '
                              'parameter named %r of its own: an argument was dropped or inserted and the '
                              'value reaches code that expects something else' % (
                                  norm(c)[:70], fi.qualname, a.id, ps[j], t.qualname, a.id),
                              key='arg-role:%s:%s:%s' % (fi.qualname, t.qualname, a.id), func=fi.qualname,
                              where=ctx.where(fi, c))
    rep.floor(R, n, 200, 'positional arguments at resolved call sites')
    rep.ok(R, '%d positional arguments at call sites resolved inside the package: every plain name that is '
           'also a parameter name of the callee is bound to that parameter' % n)
    return n


# ---- options fixed by the command line ----------------------------------------------------------
def option_stores(ctx, attr, holders=('options', 'defaults', 'opts')):
    """(function, target node, value or None) for every store / delete of <options>.<attr> outside
    the argparse machinery: attribute assignment, augmented assignment, del, setattr / delattr,
    subscript store through vars() / __dict__"""
    out = []
    for fi in ctx.model.all_functions():
        if fi.module.name.startswith('tests'):
            continue
        for x in ast.walk(fi.node):
            if isinstance(x, ast.Assign):
                for t in x.targets:
                    for tt in (t.elts if isinstance(t, (ast.Tuple, ast.List)) else [t]):
                        if isinstance(tt, ast.Attribute) and tt.attr == attr and \
                                (dotted(tt.value) or '').split('.')[-1] in holders:
                            out.append((fi, tt, x.value if tt is t else None))
            elif isinstance(x, (ast.AugAssign, ast.AnnAssign)) and isinstance(x.target, ast.Attribute) and \
                    x.target.attr == attr and (dotted(x.target.value) or '').split('.')[-1] in holders:
                out.append((fi, x.target, None))
            elif isinstance(x, ast.Delete):
                for t in x.targets:
                    if isinstance(t, ast.Attribute) and t.attr == attr and \
                            (dotted(t.value) or '').split('.')[-1] in holders:
                        out.append((fi, t, None))
            elif isinstance(x, ast.Call) and dotted(x.func) in ('setattr', 'delattr') and len(x.args) >= 2 and \
                    isinstance(x.args[1], ast.Constant) and x.args[1].value == attr:
                out.append((fi, x, x.args[2] if len(x.args) > 2 else None))
            elif isinstance(x, ast.Subscript) and isinstance(x.ctx, (ast.Store, ast.Del)) and \
                    isinstance(x.slice, ast.Constant) and x.slice.value == attr and any(
                        h in norm(x.value) for h in holders):
                out.append((fi, x, None))
    return out


def option_is_what_was_given(ctx, rep, R, attr, what):
    stores = option_stores(ctx, attr)
    for fi, tgt, val in stores:
        rep.check(False, R, '%s: options.%s is not overwritten' % (fi.qualname, attr),
                  '%s stores %s into options.%s: %s is then not what the command line said' % (
                      fi.qualname, norm(val)[:50] if val is not None else 'a new value', attr, what),
                  key='option-store:%s:%s' % (attr, fi.qualname), func=fi.qualname, where=ctx.where(fi, tgt))
    rep.ok(R, 'options.%s is stored by the parser only (%d other stores in the package)' % (attr, len(stores)))
    return len(stores)
