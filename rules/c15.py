"""C15 -- stale-bytecode clean-up deletes only orphaned .pyc/.pyo files (effect ownership, guard)."""
import ast

from sa import effects
from sa.variance import path_literals
from .common import (Ctx, call_name, calls_in, dotted, is_name, node_calls, nodes_calling, norm,
                     own_calls)

P = 'C15'
FN = 'find.remove_stale_bytecode'

# every destructive file-system call site of the package, with the reason it is there
SITES = {
    ('find.remove_stale_bytecode', 'os.unlink'): 'the subject of this property',
    ('profiling.Profiling.global_setup', 'os.unlink'):
        'stale tests_profile.*.prof files in --prof-dir, only with --profile',
    ('profiling.Profiling.global_setup', 'tempfile.mkstemp'): 'profile data file, only with --profile',
    ('formatter.SubunitOutputFormatter.profiler_stats', 'tempfile.mkstemp'):
        'temporary stats file of the subunit formatter',
    ('formatter.SubunitOutputFormatter.profiler_stats', 'os.unlink'): 'removes that temporary file',
    ('formatter.XMLOutputFormattingWrapper.writeXMLReports', 'Path.mkdir'): 'report directory, only --xml',
    ('formatter.XMLOutputFormattingWrapper.writeXMLReports', "open(mode='w')"): 'report files, only --xml',
    ('runner.Runner.configure', 'Path.mkdir'): 'report root, only --xml',
    ('coverage.Coverage.report', 'trace.CoverageResults.write_results'): 'coverage output, only --coverage',
}


def run(model, rep, tier):
    ctx = Ctx(model)
    r1_ownership(ctx, rep)
    r2_switch(ctx, rep)
    r3_r4_guard_and_target(ctx, rep)
    r5_pruning(ctx, rep)
    from . import robust
    robust.asserts_have_no_effects(ctx, rep, 'C15.R20', 'C15')
    rep.units['cfg'] = ctx.cfg_stats


def r1_ownership(ctx, rep, R='C15.R1'):
    rep.rule(R, 'effect ownership: the only destructive file-system call reachable in the call graph '
             'from discovery (Find.global_setup / find_tests) is os.unlink in remove_stale_bytecode; '
             'every destructive call site of the package is tabulated with its reason')
    m = ctx.model
    sites = effects.destructive_sites(m)
    n = 0
    for fi, mod, call, canon in sites:
        n += 1
        rep.check((fi.qualname, canon) in SITES, R, '%s: %s' % (fi.qualname, canon),
                  'a destructive file-system call (%s) in %s is not in the table of known sites'
                  % (canon, fi.qualname), key='site:%s:%s' % (fi.qualname, canon), func=fi.qualname,
                  where=ctx.where(fi, call), detail=SITES.get((fi.qualname, canon), ''))
    rep.floor(R, n, 6, 'destructive call sites in the package')
    roots = [m.func('find.Find.global_setup'), m.func('find.find_tests')]
    reach = ctx.cg.reachable_funcs(roots)
    inreach = [(fi.qualname, canon) for fi, mod, call, canon in sites if fi.qualname in reach]
    rep.check(sorted(set(inreach)) == [(FN, 'os.unlink')], R,
              'reachable from discovery: only os.unlink in remove_stale_bytecode (%d functions in '
              'the closure)' % len(reach),
              'destructive calls reachable from discovery: %s' % sorted(set(inreach)),
              key='reachable', func='find.Find.global_setup')
    un = [c for fi, mod, c, canon in sites if fi.qualname == FN]
    rep.check(len(un) == 1, R, 'remove_stale_bytecode has exactly one destructive call',
              'found %d destructive calls in remove_stale_bytecode' % len(un), key='one-unlink', func=FN)


def r2_switch(ctx, rep, R='C15.R2'):
    rep.rule(R, 'switch: remove_stale_bytecode returns at once under options.keepbytecode (the test '
             'dominates everything else in the function); --usecompiled implies keepbytecode')
    fi = ctx.model.func(FN)
    g = ctx.cfg(fi)
    un = nodes_calling(g, lambda c: ctx.model.resolve_dotted(fi.module, dotted(c.func)) in
                       effects.DESTRUCTIVE)

    def br(t):
        if norm(t) == 'options.keepbytecode':
            return True
        if norm(t) == 'not options.keepbytecode':
            return False
        return None
    gk = ctx.cfg(fi, branch_oracle=br)
    unk = nodes_calling(gk, lambda c: ctx.model.resolve_dotted(fi.module, dotted(c.func)) in
                        effects.DESTRUCTIVE)
    walks = nodes_calling(gk, lambda c: (dotted(c.func) or '').split('.')[-1] in ('walk', 'walk_with_symlinks', 'listdir', 'scandir'))
    live = gk.live_nodes()
    rep.check(bool(un) and not any(x in live for x in unk + walks), R,
              'with keepbytecode nothing is walked and nothing is deleted',
              'with --keepbytecode the clean-up still walks or deletes', key='keepbytecode',
              func=fi.qualname, where=ctx.where(fi, fi.node))
    go = ctx.model.func('options.get_options')
    ok = False
    from .common import expander, guard_literals
    exp = expander(go.node, only=lambda v: dotted(v) is not None or isinstance(v, ast.Constant))
    for n in ast.walk(go.node):
        if isinstance(n, ast.Assign) and any(dotted(t) == 'options.keepbytecode' for t in n.targets):
            lits = [(norm(exp(e)), pos) for e, pos in guard_literals(ctx, go, n, expand_bools=False)]
            # (paths that give up with options.fail are guarded by their own literals; the store
            # must hold exactly under "usecompiled")
            # literals that hold on every path to the regular return (early exits for --version,
            # contradictory options ...) do not narrow the condition
            rets = [x for x in ast.walk(go.node) if isinstance(x, ast.Return) and x.value is not None]
            common = set()
            if rets:
                last = max(rets, key=lambda r: r.lineno)
                common = {(norm(exp(e)), pos) for e, pos in guard_literals(ctx, go, last, expand_bools=False)}
            extra = [l for l in lits if l != ('options.usecompiled', True) and l not in common]
            if ('options.usecompiled', True) in lits and not extra and \
                    norm(exp(n.value)) in ('True', 'options.usecompiled'):
                ok = True
    rep.check(ok, R, 'get_options: usecompiled -> keepbytecode', '--usecompiled no longer implies '
              '--keepbytecode: compiled-only test modules would be deleted', key='usecompiled',
              func=go.qualname, where=ctx.where(go, go.node))
    # the clean-up is called before discovery with the same options
    ft = ctx.model.func('find.find_tests')
    calls = [c for c in own_calls(ft.node) if call_name(c) == 'remove_stale_bytecode']
    rep.check(len(calls) == 1, R, 'find_tests calls remove_stale_bytecode(options) once',
              'found %d calls' % len(calls), key='call-site', func=ft.qualname, where=ctx.where(ft, ft.node))


def _suffix_test(e, fvar, consts):
    """True if *e* tests that the file name ends in a compiled suffix (a constant ⊆ {.pyc,.pyo})"""
    def const_set(x):
        from .common import literal_elements
        vals = literal_elements(x)
        if vals is not None:
            return set(vals)
        if isinstance(x, ast.Constant) and isinstance(x.value, str):
            return {x.value}
        if isinstance(x, ast.Name) and x.id in consts:
            return const_set(consts[x.id])
        return None
    if isinstance(e, ast.Compare) and len(e.ops) == 1 and isinstance(e.ops[0], (ast.In, ast.Eq)):
        left = e.left
        if isinstance(left, ast.Subscript) and is_name(left.value, fvar) and \
                isinstance(left.slice, ast.Slice) and norm(left.slice.lower or ast.Constant(0)) == '-4' \
                and left.slice.upper is None:
            cs = const_set(e.comparators[0])
            return cs is not None and cs <= {'.pyc', '.pyo'} and bool(cs)
        if isinstance(left, ast.Subscript) and 'splitext' in norm(left.value) and fvar in norm(left.value):
            cs = const_set(e.comparators[0])
            return cs is not None and cs <= {'.pyc', '.pyo'} and bool(cs)
    if isinstance(e, ast.Call) and isinstance(e.func, ast.Attribute) and e.func.attr == 'endswith' \
            and is_name(e.func.value, fvar) and e.args:
        cs = const_set(e.args[0])
        return cs is not None and cs <= {'.pyc', '.pyo'} and bool(cs)
    return False


def _source_beside(e, fvar, files):
    """*e* is ``<source name of file> in files`` (to be required negatively)"""
    if isinstance(e, ast.Compare) and len(e.ops) == 1 and isinstance(e.ops[0], ast.In) and \
            is_name(e.comparators[0], files):
        left = e.left
        if isinstance(left, ast.Subscript) and is_name(left.value, fvar) and \
                isinstance(left.slice, ast.Slice) and left.slice.lower is None and \
                norm(left.slice.upper) == '-1':
            return True
        if isinstance(left, ast.BinOp) and 'splitext' in norm(left) and "'.py'" in norm(left):
            return True
    return False


def r3_r4_guard_and_target(ctx, rep, R3='C15.R3', R4='C15.R4'):
    rep.rule(R3, 'guard: the unlink is executed only under (the file name ends in a constant ⊆ '
             '{".pyc", ".pyo"}) and not (the same-named .py is in the listing of the same '
             'directory); no other condition suppresses it and no break/return cuts the loops short')
    rep.rule(R4, 'target provenance: what is unlinked is os.path.join(dirname, file) with file '
             'iterating the file list of the same walk step as dirname')
    m = ctx.model
    fi = m.func(FN)
    un = [c for c in own_calls(fi.node) if m.resolve_dotted(fi.module, dotted(c.func)) == 'os.unlink']
    if len(un) != 1:
        rep.bad(R3, 'unlink site', 'expected exactly one os.unlink', key='unlink-site', func=FN)
        return
    u = un[0]
    loops = [p for p in _parents(u, fi.node) if isinstance(p, ast.For)]
    fl = loops[0] if loops else None
    wl = loops[1] if len(loops) > 1 else None
    okshape = fl is not None and wl is not None and \
        isinstance(wl.target, ast.Tuple) and len(wl.target.elts) == 3
    if not okshape:
        rep.undecide(R3, 'loops', 'unlink is not inside a loop over file names inside a walk loop')
        return
    dname, dirs, files = [e.id if isinstance(e, ast.Name) else None for e in wl.target.elts]
    # what the inner loop iterates must contain every name of the listing that passes the
    # suffix test: the listing itself, an order-preserving filter of it, or a mapping keyed by
    # the file name itself.  A mapping keyed by something derived from the name (e.g. the
    # would-be source name) merges foo.pyc and foo.pyo: one orphan would survive.
    src = fl.iter
    lossy = None
    if isinstance(src, ast.Call) and isinstance(src.func, ast.Attribute) and \
            src.func.attr in ('items', 'values', 'keys') and isinstance(src.func.value, ast.Name):
        defs = [n for n in ast.walk(wl) if isinstance(n, ast.Assign) and
                is_name(n.targets[0], src.func.value.id)]
        if len(defs) == 1 and isinstance(defs[0].value, ast.DictComp) and \
                is_name(defs[0].value.generators[0].iter, files):
            dc = defs[0].value
            tv = dc.generators[0].target
            key_is_file = isinstance(tv, ast.Name) and is_name(dc.key, tv.id)
            if not key_is_file:
                lossy = 'a dict keyed by %s (not by the file name itself)' % norm(dc.key)
            else:
                rep.undecide(R3, 'loops', 'dict-based iteration of the listing is not modelled')
                return
        else:
            rep.undecide(R3, 'loops', 'the inner loop iterates %s' % norm(src))
            return
    elif isinstance(src, ast.Call) and dotted(src.func) in ('set', 'frozenset') and \
            src.args and is_name(src.args[0], files):
        pass        # same elements, order irrelevant for deletion
    elif not is_name(src, files):
        d2 = [n for n in ast.walk(wl) if isinstance(n, ast.Assign) and isinstance(src, ast.Name) and
              is_name(n.targets[0], src.id)]
        if len(d2) == 1 and isinstance(d2[0].value, (ast.ListComp, ast.GeneratorExp)) and \
                is_name(d2[0].value.generators[0].iter, files) and \
                isinstance(d2[0].value.generators[0].target, ast.Name) and \
                is_name(d2[0].value.elt, d2[0].value.generators[0].target.id):
            rep.undecide(R3, 'loops', 'pre-filtered listing is not modelled')
            return
        rep.undecide(R3, 'loops', 'the inner loop iterates %s' % norm(src))
        return
    if lossy:
        rep.bad(R3, 'unlink loop iterates ' + lossy, 'the clean-up loop iterates %s built from the '
                'listing: two bytecode files of the same module (x.pyc and x.pyo) collapse into one '
                'entry and one orphan survives' % lossy, key='guard:lossy-iteration', func=FN,
                where=ctx.where(fi, fl))
        return
    if not isinstance(fl.target, ast.Name):
        rep.undecide(R3, 'loops', 'loop target is not a plain name')
        return
    fvar = fl.target.id
    consts = m.module('find').constants
    from .common import guard_literals
    lits = [(e, pos) for e, pos in guard_literals(ctx, fi, u)
            if not norm(e).endswith('keepbytecode') and "'__pycache__' in" not in norm(e) and
            not (is_name(e, files) and pos)]        # "the listing is not empty" is implied by the loop
    suffix = [(e, pos) for e, pos in lits if _suffix_test(e, fvar, consts)]
    beside = [(e, pos) for e, pos in lits if _source_beside(e, fvar, files)]
    other = [norm(e) for e, pos in lits if not _suffix_test(e, fvar, consts) and
             not _source_beside(e, fvar, files)]
    rep.check(len(suffix) == 1 and suffix[0][1] is True, R3,
              'unlink only for names ending in .pyc/.pyo', 'the compiled-suffix test is missing, '
              'negated or wider than {.pyc, .pyo} (guards: %s)' % [(norm(e), p) for e, p in lits],
              key='guard:suffix', func=FN, where=ctx.where(fi, u))
    rep.check(len(beside) == 1 and beside[0][1] is False, R3,
              'unlink only when no same-named .py is in the same listing',
              'the "source file beside it" test is missing or has the wrong polarity (guards: %s)'
              % [(norm(e), p) for e, p in lits], key='guard:source', func=FN, where=ctx.where(fi, u))
    rep.check(not other, R3, 'no other condition suppresses the deletion of an orphan',
              'extra guard(s) %s: some orphans would survive' % other, key='guard:extra', func=FN,
              where=ctx.where(fi, u))
    outer_loops = [p for p in _parents(wl, fi.node) if isinstance(p, (ast.For, ast.While))]
    esc = [x for lp in [fl, wl] + outer_loops for x in ast.walk(lp)
           if isinstance(x, (ast.Break, ast.Return))]
    # a ``continue`` that belongs to the walk loop (or a loop around it) skips the file scan of a
    # whole directory -- wherever it stands (also in an exception handler); one that belongs to the
    # loop over the files is an ordinary guard and is judged through the guard literals above
    for x in ast.walk(wl):
        if isinstance(x, ast.Continue):
            near = [p for p in _parents(x, fi.node) if isinstance(p, (ast.For, ast.While))]
            if near and near[0] is not fl and not any(near[0] is q for q in ast.walk(fl)):
                from .common import guard_literals as _gl
                if any(is_name(e, files) and not pos for e, pos in _gl(ctx, fi, x)):
                    continue          # nothing to scan in an empty listing
                esc.append(x)
    skip = [norm(e) for e, pos in guard_literals(ctx, fi, wl.iter)
            if not norm(e).endswith('keepbytecode')]
    rep.check(not esc and not skip, R3, 'every file of every directory of every search root is examined',
              'break/continue/return inside the clean-up loops, or the walk of a search root is '
              'conditional (%s): some orphans would survive' % skip, key='guard:complete', func=FN,
              where=ctx.where(fi, esc[0] if esc else fl))
    # the listing the source test looks at is the one of this walk step, unmodified
    muts = [c for c in ast.walk(wl) if isinstance(c, ast.Call) and isinstance(c.func, ast.Attribute)
            and is_name(c.func.value, files) and c.func.attr in ('remove', 'pop', 'clear', 'append')]
    rep.check(is_name(fl.iter, files) and not muts, R4, 'file iterates the unmodified listing "%s" of '
              'the walk step' % files, 'the inner loop does not iterate the directory listing itself',
              key='target:files', func=FN, where=ctx.where(fi, fl))
    # target
    arg = u.args[0] if u.args else None
    if isinstance(arg, ast.Name):
        src = [n for n in ast.walk(fl) if isinstance(n, ast.Assign) and is_name(n.targets[0], arg.id)]
        arg = src[0].value if len(src) == 1 else None
    okt = isinstance(arg, ast.Call) and m.resolve_dotted(fi.module, dotted(arg.func)) == 'os.path.join' \
        and len(arg.args) == 2 and is_name(arg.args[0], dname) and is_name(arg.args[1], fvar)
    rep.check(okt, R4, 'unlink(os.path.join(%s, %s))' % (dname, fvar),
              'the path that is unlinked is %s' % (norm(arg) if arg is not None else '?'),
              key='target:path', func=FN, where=ctx.where(fi, u))
    # the walk covers the search path, through the pruning walk
    okw = isinstance(wl.iter, ast.Call) and call_name(wl.iter) == 'walk_with_symlinks'
    outer = [p for p in _parents(wl, fi.node) if isinstance(p, ast.For)]
    okp = bool(outer) and (dotted(outer[0].iter) or '') == 'options.test_path'
    rep.check(okw and okp, R4, 'the searched directories are options.test_path, walked with the '
              'pruning walk (ignored directories skipped)', 'the clean-up walks %s'
              % (norm(wl.iter)), key='target:walk', func=FN, where=ctx.where(fi, wl))


def _parents(node, stop):
    out = []
    while getattr(node, '_parent', None) is not None and node._parent is not stop:
        node = node._parent
        out.append(node)
    return out


def r5_pruning(ctx, rep, R='C15.R5'):
    rep.rule(R, 'pruning: __pycache__ is removed from the directory list of each walk step before '
             'the walk resumes, so nothing inside __pycache__ is ever examined; the set of ignored '
             'directory names (options.ignore_dir, pruned by walk_with_symlinks) contains the built-in '
             'version-control names for every option vector')
    fi = ctx.model.func(FN)
    g = ctx.cfg(fi)
    rem = nodes_calling(g, lambda c: isinstance(c.func, ast.Attribute) and c.func.attr == 'remove'
                        and c.args and isinstance(c.args[0], ast.Constant) and
                        c.args[0].value == '__pycache__')
    fil = [n.id for n in g.nodes if n.kind == 'stmt' and isinstance(n.ast, ast.Assign) and
           isinstance(n.ast.targets[0], ast.Subscript) and '__pycache__' in norm(n.ast.value)]
    loops = [n for n in g.nodes if n.kind == 'for' and isinstance(n.stmt.target, ast.Tuple) and
             len(n.stmt.target.elts) == 3]
    ok = bool(loops) and bool(rem or fil)
    if ok:
        lp = loops[0]
        body = [d for d, k in g.succ[lp.id] if k == 'true']

        def edge_ok(s, d, k):
            # the path on which __pycache__ is present
            nd = g.node(s)
            if nd.kind == 'test' and "'__pycache__' in" in norm(nd.ast) and k == 'false':
                return False
            return True
        r = g.reach(body, avoid=set(rem + fil), include_start=True, edge_ok=edge_ok)
        ok = lp.id not in r
    rep.check(ok, R, '__pycache__ removed from dirs in every walk step that has it',
              '__pycache__ directories are descended into: every .pyc there has no .py beside it '
              'and would be deleted', key='pycache', func=fi.qualname, where=ctx.where(fi, fi.node))
    # "not inside ... an ignored directory": the ignore set that walk_with_symlinks prunes (C14.R4)
    # always contains the built-in names
    from . import c14
    c14.walk_prunes_in_place(ctx, rep, R)
    c14.default_ignores_kept(ctx, rep, R)
    c14.symlinked_directories_followed(ctx, rep, R)
