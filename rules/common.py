"""Shared context for the rule sets: model + call graph + exception hierarchy + summaries."""
import ast

from sa import cfg as C
from sa.callgraph import CallGraph, call_name, own_calls, own_stmts, local_assignments, sources_of  # noqa: F401
from sa.cfg import (ANY_EXC, AnyCall, Catalogue, NoRaise, T_exact, T_open, build_cfg,  # noqa: F401
                    calls_in, walk_no_defs, toks_str)
from sa.srcmodel import AnchorVanished, Undecided, dotted, head, norm, loc  # noqa: F401


class Ctx:
    def __init__(self, model):
        self.model = model
        self.cg = CallGraph(model)
        self.hier = C.ExcHier(model)
        self._noreturn = {}
        self.cfg_stats = {'cfgs': 0, 'nodes': 0, 'edges': 0}

    # ---- summaries ---------------------------------------------------------------------
    def func_noreturn(self, fi, _stack=()):
        """True iff the function's normal exit is unreachable (e.g. debug.post_mortem always
        raises EndRun)."""
        q = fi.qualname
        if q in self._noreturn:
            return self._noreturn[q]
        if q in _stack:
            return False
        g = build_cfg(fi.node, self.hier, NoRaise(), fi.module,
                      noreturn=lambda call: self._call_noreturn(call, fi, _stack + (q,)))
        r = g.exit not in g.live_nodes()
        self._noreturn[q] = r
        return r

    def _call_noreturn(self, call, fi, stack=()):
        r = self.cg.resolve_call(call, fi)
        if isinstance(r, list) and r:
            return all(self.func_noreturn(t, stack) for t in r)
        d = self.cg.canonical(call, fi)
        return d in ('sys.exit', 'os._exit')

    def noreturn_pred(self, fi):
        return lambda call: self._call_noreturn(call, fi)

    # ---- CFGs --------------------------------------------------------------------------
    def cfg(self, fi, oracle=None, branch_oracle=None):
        g = build_cfg(fi.node, self.hier, oracle or NoRaise(), fi.module,
                      branch_oracle=branch_oracle, noreturn=self.noreturn_pred(fi),
                      name=fi.qualname)
        s = g.stats()
        self.cfg_stats['cfgs'] += 1
        self.cfg_stats['nodes'] += s['nodes']
        self.cfg_stats['edges'] += s['edges']
        return g

    def where(self, fi, node):
        return '%s:%s (%s)' % (fi.module.path, getattr(node, 'lineno', '?'), fi.qualname)


# ---- small matchers ----------------------------------------------------------------------

def is_name(e, name):
    return isinstance(e, ast.Name) and e.id == name


def params(fi):
    a = fi.node.args
    return [x.arg for x in a.posonlyargs + a.args + a.kwonlyargs]


def node_calls(g, nid):
    n = g.node(nid)
    if n.ast is None:
        return []
    if n.kind in ('test', 'for'):
        return calls_in(n.ast)
    if n.kind == 'with':
        out = []
        for it in n.ast.items:
            out += calls_in(it.context_expr)
        return out
    if n.kind == 'handler':
        return []
    return calls_in(n.ast)


def nodes_calling(g, pred):
    """node ids that contain a call satisfying pred(call)."""
    return [n.id for n in g.nodes if any(pred(c) for c in node_calls(g, n.id))]


def kw(call, name):
    for k in call.keywords:
        if k.arg == name:
            return k.value
    return None


def arg(call, idx, name=None):
    if idx is not None and idx < len(call.args):
        return call.args[idx]
    if name:
        return kw(call, name)
    return None


def is_empty_collection(e):
    if isinstance(e, (ast.Tuple, ast.List, ast.Set)) and not e.elts:
        return True
    if isinstance(e, ast.Dict) and not e.keys:
        return True
    if isinstance(e, ast.Call) and dotted(e.func) in ('set', 'dict', 'list', 'tuple',
                                                      'frozenset') and not e.args:
        return True
    return False


def mentions(expr, name):
    return any(isinstance(n, ast.Name) and n.id == name for n in ast.walk(expr))


def mentions_dotted(expr, d):
    return any(dotted(n) == d for n in ast.walk(expr)
               if isinstance(n, (ast.Attribute, ast.Name)))


def membership_test(test):
    """(kind, elem, container) for ``x in m`` / ``x not in m`` / ``not x in m`` else None.
    kind True means the test is true when x is NOT in m."""
    neg = False
    while isinstance(test, ast.UnaryOp) and isinstance(test.op, ast.Not):
        neg = not neg
        test = test.operand
    if isinstance(test, ast.Compare) and len(test.ops) == 1:
        if isinstance(test.ops[0], ast.NotIn):
            return (not neg), test.left, test.comparators[0]
        if isinstance(test.ops[0], ast.In):
            return neg, test.left, test.comparators[0]
    return None


def truth_test(test):
    """(positive, expr): the test is the truthiness of expr (positive) or its negation."""
    pos = True
    while isinstance(test, ast.UnaryOp) and isinstance(test.op, ast.Not):
        pos = not pos
        test = test.operand
    return pos, test


def is_reverse_slice(sl):
    """[::-1] or [-1::-1]"""
    if not isinstance(sl, ast.Slice):
        return False
    st = sl.step
    if not (isinstance(st, ast.UnaryOp) and isinstance(st.op, ast.USub) and
            isinstance(st.operand, ast.Constant) and st.operand.value == 1):
        return False
    if sl.upper is not None:
        return False
    if sl.lower is None:
        return True
    lo = sl.lower
    return isinstance(lo, ast.UnaryOp) and isinstance(lo.op, ast.USub) and \
        isinstance(lo.operand, ast.Constant) and lo.operand.value == 1


def strip_reverse(e):
    """(inner expr, number of reversals peeled off) for reversed(x), x[::-1], list(reversed(x))"""
    n = 0
    while True:
        if isinstance(e, ast.Call) and dotted(e.func) == 'reversed' and len(e.args) == 1:
            e = e.args[0]
            n += 1
        elif isinstance(e, ast.Call) and dotted(e.func) in ('list', 'tuple', 'iter') and \
                len(e.args) == 1:
            e = e.args[0]
        elif isinstance(e, ast.Subscript) and is_reverse_slice(e.slice):
            e = e.value
            n += 1
        else:
            return e, n


def hook_calls(ctx, fi, names):
    return [c for c in own_calls(fi.node)
            if ctx.cg.is_layer_hook_call(c) and c.func.attr in names]


def layer_hook_oracle(ctx, names=('setUp', 'tearDown', 'testSetUp', 'testTearDown'),
                      extra=None):
    """Catalogue oracle: user layer hooks raise anything; *extra(call)* may add sources."""
    def fn(call):
        if ctx.cg.is_layer_hook_call(call) and call.func.attr in names:
            return ANY_EXC
        if extra is not None:
            return extra(call)
        return None
    return Catalogue(fn)


def bases_first_premises(ctx, rep, rule):
    """Premises of the bases-first argument (DESIGN 4/C10): gather_layers appends a layer
    before recursing into *all* its bases; order_by_bases = gather all (sorted) -> reverse once
    -> keep first occurrences that were requested.  Then the last occurrence of a layer in the
    gathered list is followed by all its bases, i.e. after the single reversal every base
    precedes the first occurrence of its derived layer."""
    m = ctx.model
    fi = m.func('runner.gather_layers')
    ps = params(fi)
    ok = len(ps) >= 2
    layer, result = (ps + ['', ''])[:2]
    g = ctx.cfg(fi)
    appends = [n.id for n in g.nodes if n.kind == 'stmt' and any(
        isinstance(c.func, ast.Attribute) and c.func.attr == 'append' and
        is_name(c.func.value, result) and len(c.args) == 1 and is_name(c.args[0], layer)
        for c in calls_in(n.ast))]
    loops = [n for n in g.nodes if n.kind == 'for' and
             dotted(strip_reverse(n.ast)[0]) == layer + '.__bases__']
    rec = []
    for n in g.nodes:
        for c in node_calls(g, n.id):
            if call_name(c) == fi.name and len(c.args) >= 2 and is_name(c.args[1], result):
                rec.append((n.id, c))
    where = ctx.where(fi, fi.node)
    if not rec:
        it = _iterative_preorder(ctx, fi, g, layer, result)
        if it is not None:
            good, why = it
            rep.check(ok and good, rule, 'gather_layers: append(layer)', why,
                      key='gather_layers:append', where=where, func=fi.qualname)
            rep.check(good, rule, 'gather_layers: pre-order over all bases, every occurrence kept '
                      '(explicit stack: every popped layer is appended and all its bases are pushed)',
                      why, key='gather_layers:preorder', where=where, func=fi.qualname)
            appends, loops, rec = [], [], []
            return _order_by_bases_premises(ctx, rep, rule)
    rep.check(ok and len(appends) >= 1, rule, 'gather_layers: append(layer)',
              'gather_layers no longer appends its layer argument to the result list',
              key='gather_layers:append', where=where, func=fi.qualname)
    good = False
    why = 'no loop over layer.__bases__ with an unconditional recursive call'
    if appends and loops and rec:
        h = loops[0]
        lv = h.stmt.target.id if isinstance(h.stmt.target, ast.Name) else None
        rcalls = [nid for nid, c in rec if is_name(c.args[0], lv)]
        obj_ok = _object_edges(g, layer)
        # every iteration reaches a recursive call
        body_start = [d for d, k in g.succ[h.id] if k == 'true']
        r = g.reach(body_start, avoid=set(rcalls), include_start=True)
        uncond = h.id not in r
        # every call appends the layer (only ``layer is object`` may skip it) ...
        always_app = g.exit not in g.reach([g.entry], avoid=set(appends), include_start=True,
                                           edge_ok=obj_ok)
        # ... and visits the bases (no early return, e.g. for an already seen layer)
        always_loop = g.exit not in g.reach([g.entry], avoid={h.id}, include_start=True,
                                            edge_ok=obj_ok)
        # pre-order: nothing is appended after the bases were visited
        pre = not any(a in g.reach([h.id]) for a in appends)
        good = uncond and pre and always_app and always_loop
        if not uncond:
            why = 'some base is skipped: a path through the loop body avoids the recursive call'
        elif not always_app:
            why = 'a call can return without appending its layer (other than for object)'
        elif not always_loop:
            why = 'a call can return without visiting the bases of its layer'
        elif not pre:
            why = 'the layer is appended after its bases were visited (not a pre-order walk)'
    rep.check(good, rule, 'gather_layers: pre-order over all bases, every occurrence kept', why,
              key='gather_layers:preorder', where=where, func=fi.qualname)
    return _order_by_bases_premises(ctx, rep, rule)


def _iterative_preorder(ctx, fi, g, layer, result):
    """gather_layers written with an explicit stack: ``S = [layer]; while S: cur = S.pop();
    result.append(cur) [unless cur is object]; S.extend(<all of cur.__bases__>)``.  Returns
    (good, why) or None when the function is not of that shape."""
    stacks = [n for n in g.nodes if n.kind == 'stmt' and isinstance(n.ast, ast.Assign) and
              len(n.ast.targets) == 1 and isinstance(n.ast.targets[0], ast.Name) and
              isinstance(n.ast.value, ast.List) and len(n.ast.value.elts) == 1 and
              is_name(n.ast.value.elts[0], layer)]
    if len(stacks) != 1:
        return None
    S = stacks[0].ast.targets[0].id
    heads = [n for n in g.nodes if n.kind == 'test' and isinstance(n.stmt, ast.While) and
             (is_name(n.ast, S) or S in norm(n.ast))]
    pops = [n for n in g.nodes if n.kind == 'stmt' and isinstance(n.ast, ast.Assign) and
            isinstance(n.ast.value, ast.Call) and isinstance(n.ast.value.func, ast.Attribute) and
            n.ast.value.func.attr in ('pop', 'popleft') and is_name(n.ast.value.func.value, S) and
            isinstance(n.ast.targets[0], ast.Name)]
    if len(heads) != 1 or len(pops) != 1:
        return None
    h, p = heads[0], pops[0]
    cur = p.ast.targets[0].id
    apps = {n.id for n in g.nodes if n.kind == 'stmt' and any(
        isinstance(c.func, ast.Attribute) and c.func.attr == 'append' and is_name(c.func.value, result)
        and len(c.args) == 1 and is_name(c.args[0], cur) for c in calls_in(n.ast))}
    pushes = set()
    for n in g.nodes:
        if n.kind != 'stmt':
            continue
        for c in calls_in(n.ast):
            if isinstance(c.func, ast.Attribute) and is_name(c.func.value, S) and c.args:
                if c.func.attr == 'extend' and (cur + '.__bases__') in norm(c.args[0]) and \
                        not any(isinstance(x, (ast.comprehension, ast.Slice)) and
                                not is_reverse_slice(x) for x in ast.walk(c.args[0])
                                if isinstance(x, ast.Slice)) and \
                        not any(isinstance(x, ast.comprehension) and x.ifs for x in ast.walk(c.args[0])):
                    pushes.add(n.id)
    # a for loop over cur.__bases__ that pushes each base unconditionally
    for lp in [n for n in g.nodes if n.kind == 'for' and
               dotted(strip_reverse(n.ast)[0]) == cur + '.__bases__']:
        lv = lp.stmt.target.id if isinstance(lp.stmt.target, ast.Name) else None
        ins = {n.id for n in g.nodes if n.kind == 'stmt' and any(
            isinstance(c.func, ast.Attribute) and c.func.attr == 'append' and is_name(c.func.value, S)
            and len(c.args) == 1 and is_name(c.args[0], lv) for c in calls_in(n.ast))}
        body = [d for d, k in g.succ[lp.id] if k == 'true']
        if ins and lp.id not in g.reach(body, avoid=ins, include_start=True):
            pushes.add(lp.id)
    if not apps or not pushes:
        return False, 'the walk with the explicit stack %s does not append every popped layer and ' \
            'push all its bases' % S
    obj_ok = _object_edges(g, cur)
    start = [d for d, k in g.succ[p.id] if k != 'exc']
    normal = lambda s_, d_, k_: k_ != 'exc' and obj_ok(s_, d_, k_)   # noqa: E731
    r1 = g.reach(start, avoid=apps, include_start=True, edge_ok=normal)
    if h.id in r1 or g.exit in r1:
        return False, 'a popped layer can be dropped without being appended (other than object)'
    r2 = g.reach(start, avoid=pushes, include_start=True, edge_ok=lambda s_, d_, k_: k_ != 'exc')
    if h.id in r2 or g.exit in r2:
        return False, 'the bases of a popped layer are not always pushed: a base can be skipped'
    # the loop runs until the stack is empty (no other exit)
    for n in g.nodes:
        if n.kind == 'stmt' and isinstance(n.ast, (ast.Break, ast.Return)) and \
                any(x is n.ast for x in ast.walk(h.stmt)):
            return False, 'the walk can stop before the stack is empty'
    return True, ''


def _order_by_bases_premises(ctx, rep, rule):
    m = ctx.model
    # ---- order_by_bases
    fo = m.func('runner.order_by_bases')
    go = ctx.cfg(fo)
    p0 = params(fo)[0]
    gcalls = [(n.id, c) for n in go.nodes for c in node_calls(go, n.id)
              if call_name(c) == 'gather_layers']
    revs = []
    for n in go.nodes:
        if n.kind in ('stmt', 'for'):
            for c in calls_in(n.ast):
                if isinstance(c.func, ast.Attribute) and c.func.attr == 'reverse':
                    revs.append(n.id)
                if dotted(c.func) == 'reversed':
                    revs.append(n.id)
        if n.ast is not None and n.kind in ('stmt', 'for'):
            for s in ast.walk(n.ast):
                if isinstance(s, ast.Subscript) and is_reverse_slice(s.slice):
                    revs.append(n.id)
    rep.check(len(gcalls) == 1 and len(set(revs)) == 1, rule,
              'order_by_bases: gather every layer into one list, reverse exactly once',
              'found %d gather_layers call sites and %d reversals' % (len(gcalls), len(set(revs))),
              key='order_by_bases:gather-reverse', where=ctx.where(fo, fo.node), func=fo.qualname)
    # dedupe: the append to the result happens only while the layer has not been seen
    # (dominating literal ``layer in <seen>`` negative, whatever the spelling of the guard)
    ret = [n for n in go.nodes if n.kind == 'stmt' and isinstance(n.ast, ast.Return)]
    resname = dotted(ret[-1].ast.value) if ret and ret[-1].ast.value is not None else None
    good = False
    if resname:
        apps = [(n.id, c) for n in go.nodes if n.kind == 'stmt' for c in calls_in(n.ast)
                if isinstance(c.func, ast.Attribute) and c.func.attr == 'append' and
                is_name(c.func.value, resname)]
        for nid, c in apps:
            elem = c.args[0] if c.args else None
            if not isinstance(elem, ast.Name):
                continue
            for e, pos in go.dominating_literals(nid):
                if isinstance(e, ast.Compare) and len(e.ops) == 1 and isinstance(e.ops[0], ast.In) \
                        and not pos and is_name(e.left, elem.id) and \
                        isinstance(e.comparators[0], ast.Name) and e.comparators[0].id != p0:
                    seen = e.comparators[0].id
                    # the layer is recorded as seen in the same iteration
                    marks = [m_.id for m_ in go.nodes if m_.kind == 'stmt' and (
                        (isinstance(m_.ast, ast.Assign) and any(
                            isinstance(t, ast.Subscript) and is_name(t.value, seen) and
                            is_name(t.slice, elem.id) for t in m_.ast.targets)) or
                        any(isinstance(cc.func, ast.Attribute) and cc.func.attr == 'add' and
                            is_name(cc.func.value, seen) and cc.args and is_name(cc.args[0], elem.id)
                            for cc in calls_in(m_.ast)))]
                    if marks:
                        good = True
    rep.check(good, rule, 'order_by_bases: each layer kept once (first occurrence after the reversal)',
              'the result append is not guarded by a not-yet-seen test keyed by the layer',
              key='order_by_bases:dedupe', where=ctx.where(fo, fo.node), func=fo.qualname)
    return p0


def _object_edges(g, layer):
    """edge filter that removes the edges taken only when ``layer is object``"""
    def edge_ok(s, d, k):
        n = g.node(s)
        if n.kind == 'test':
            t = n.ast
            if isinstance(t, ast.Compare) and len(t.ops) == 1 and is_name(t.left, layer) and \
                    dotted(t.comparators[0]) == 'object':
                if isinstance(t.ops[0], ast.IsNot) and k == 'false':
                    return False
                if isinstance(t.ops[0], ast.Is) and k == 'true':
                    return False
        return True
    return edge_ok


# what a user hook (layer setUp/tearDown, a test run with .debug()) may raise: any Exception
# subclass that is not one of the named ones (token 'Exception' of kind exact = USER of DESIGN
# 3.3), plus the named classes that the code under analysis treats specially
USER_TOKENS = frozenset([T_exact('Exception'), T_exact('NotImplementedError'),
                         T_exact('MemoryError'), T_exact('KeyboardInterrupt'),
                         T_exact('SystemExit')])


def config_branch(atoms):
    """branch oracle evaluating ``options.<atom>`` / ``self.options.<atom>`` truth tests and
    ``... is (not) None`` comparisons from a dict atom -> bool"""
    def br(test, fi=None):
        pos, e = truth_test(test)
        d = dotted(e)
        if d is not None:
            last = d.split('.')[-1]
            if last in atoms and ('options' in d.split('.') or d == last):
                return atoms[last] if pos else (not atoms[last])
        if isinstance(e, ast.Compare) and len(e.ops) == 1 and \
                isinstance(e.comparators[0], ast.Constant) and e.comparators[0].value is None:
            d = dotted(e.left)
            if d is not None and d.split('.')[-1] in atoms and 'options' in d.split('.'):
                v = atoms[d.split('.')[-1]]
                res = (not v) if isinstance(e.ops[0], ast.Is) else v
                return res if pos else (not res)
        return None
    return br


def eval_bool(expr, atom):
    """three-valued evaluation of a boolean expression: *atom(leaf expr)* -> True/False/None"""
    if isinstance(expr, ast.IfExp):
        from sa.variance import boolify
        return eval_bool(boolify(expr), atom)
    if isinstance(expr, ast.BoolOp):
        vals = [eval_bool(v, atom) for v in expr.values]
        if isinstance(expr.op, ast.And):
            if any(v is False for v in vals):
                return False
            return True if all(v is True for v in vals) else None
        if any(v is True for v in vals):
            return True
        return False if all(v is False for v in vals) else None
    if isinstance(expr, ast.UnaryOp) and isinstance(expr.op, ast.Not):
        v = eval_bool(expr.operand, atom)
        return None if v is None else (not v)
    if isinstance(expr, ast.Constant):
        return bool(expr.value)
    return atom(expr)


# ---- robust path conditions and local expansion ---------------------------------------------

def node_of(g, astnode):
    """id of the CFG node whose evaluated AST contains *astnode* (first match), or None"""
    for n in g.nodes:
        a = n.ast
        if a is None:
            continue
        if n.kind == 'with':
            parts = [it.context_expr for it in a.items]
        elif n.kind == 'handler':
            parts = [a.type] if a.type is not None else []
        elif n.kind in ('test', 'for'):
            parts = [a]
        else:
            parts = [a]
        for part in parts:
            if part is astnode:
                return n.id
            if n.kind == 'stmt' and isinstance(part, (ast.If, ast.For, ast.While, ast.Try, ast.With)):
                continue
            for x in walk_no_defs(part):
                if x is astnode:
                    return n.id
    return None


def single_assignments(fnode):
    """{name: value expr} for locals assigned exactly once by a plain ``name = expr``"""
    cnt, val = {}, {}
    for n in walk_no_defs(fnode):
        if isinstance(n, ast.Assign):
            for t in n.targets:
                for x in ast.walk(t):
                    if isinstance(x, ast.Name) and isinstance(x.ctx, ast.Store):
                        cnt[x.id] = cnt.get(x.id, 0) + 1
                        if len(n.targets) == 1 and t is x:
                            val[x.id] = n.value
        elif isinstance(n, (ast.AugAssign, ast.AnnAssign, ast.NamedExpr)):
            for x in ast.walk(n.target):
                if isinstance(x, ast.Name):
                    cnt[x.id] = cnt.get(x.id, 0) + 2
        elif isinstance(n, (ast.For, ast.comprehension)):
            for x in ast.walk(n.target):
                if isinstance(x, ast.Name):
                    cnt[x.id] = cnt.get(x.id, 0) + 2
        elif isinstance(n, ast.With):
            for it in n.items:
                if it.optional_vars is not None:
                    for x in ast.walk(it.optional_vars):
                        if isinstance(x, ast.Name):
                            cnt[x.id] = cnt.get(x.id, 0) + 2
        elif isinstance(n, ast.ExceptHandler) and n.name:
            cnt[n.name] = cnt.get(n.name, 0) + 2
    args = fnode.args
    for a in args.posonlyargs + args.args + args.kwonlyargs:
        cnt[a.arg] = cnt.get(a.arg, 0) + 2
    return {k: v for k, v in val.items() if cnt.get(k) == 1}


def ast_copy(node):
    """deep copy of an AST subtree that does not follow the ``_parent`` link out of it"""
    import copy
    memo = {}
    par = getattr(node, '_parent', None)
    if par is not None:
        memo[id(par)] = None
    return copy.deepcopy(node, memo)


class _Subst(ast.NodeTransformer):
    def __init__(self, env, depth=3):
        self.env, self.depth = env, depth

    def visit_Name(self, node):
        if isinstance(node.ctx, ast.Load) and node.id in self.env and self.depth > 0:
            import copy
            v = ast_copy(self.env[node.id])
            return _Subst(self.env, self.depth - 1).visit(v)
        return node


def expander(fnode, only=None):
    """expand(expr): substitute single-assignment locals (optionally only those whose value
    satisfies *only(value)*) by their defining expressions -- guards such as
    ``level_selected = a or b; if level_selected and c`` become ``(a or b) and c``"""
    env = single_assignments(fnode)
    if only is not None:
        env = {k: v for k, v in env.items() if only(v)}
    # a local assigned once in each branch of one if/else:  x = (c and A) or (not c and B)
    counts = {}
    for n in walk_no_defs(fnode):
        if isinstance(n, ast.Assign):
            for t in n.targets:
                if isinstance(t, ast.Name):
                    counts[t.id] = counts.get(t.id, 0) + 1
    # a local assigned once in every branch of an if / elif / else tree:
    #   x = (c1 and A) or (not c1 and ((c2 and B) or (not c2 and C)))
    def phi_of(ifst, nm):
        """(expr, number of assignments consumed) or None"""
        def branch(block):
            vals = [st for st in block if isinstance(st, ast.Assign) and len(st.targets) == 1 and
                    is_name(st.targets[0], nm)]
            if len(vals) == 1:
                if only is not None and not only(vals[0].value):
                    return None
                return vals[0].value, 1
            if not vals and len(block) == 1 and isinstance(block[0], ast.If) and block[0].orelse:
                return phi_of(block[0], nm)
            return None
        if not ifst.orelse:
            return None
        x, y = branch(ifst.body), branch(ifst.orelse)
        if x is None or y is None:
            return None
        phi = ast.BoolOp(op=ast.Or(), values=[
            ast.BoolOp(op=ast.And(), values=[ifst.test, x[0]]),
            ast.BoolOp(op=ast.And(), values=[ast.UnaryOp(op=ast.Not(), operand=ifst.test), y[0]])])
        return ast.fix_missing_locations(ast.copy_location(phi, ifst)), x[1] + y[1]
    for n in walk_no_defs(fnode):
        if isinstance(n, ast.If) and n.orelse:
            for nm in [k for k, c in counts.items() if c >= 2 and k not in env]:
                got = phi_of(n, nm)
                if got is None:
                    continue
                extra = counts[nm] - got[1]
                if extra > 0:
                    # further assignments are fine if they are dead: plain statements of the same
                    # block before the if-tree, which re-assigns the name on every branch
                    par = getattr(n, '_parent', None)
                    sibs = None
                    for fld in ('body', 'orelse', 'finalbody'):
                        blk_ = getattr(par, fld, None)
                        if isinstance(blk_, list) and any(x is n for x in blk_):
                            sibs = blk_
                    if sibs is None:
                        continue
                    i = [k for k, x in enumerate(sibs) if x is n][0]
                    dead = [x for x in sibs[:i] if isinstance(x, ast.Assign) and len(x.targets) == 1 and
                            is_name(x.targets[0], nm)]
                    reads_between = any(isinstance(y, ast.Name) and y.id == nm and isinstance(y.ctx, ast.Load)
                                        for x in sibs[:i] for y in ast.walk(x))
                    if len(dead) != extra or reads_between:
                        continue
                env[nm] = got[0]

    def expand(e):
        import copy
        new = _Subst(env).visit(ast_copy(e))
        ast.fix_missing_locations(new)
        for p in ast.walk(new):
            for c in ast.iter_child_nodes(p):
                c._parent = p
        return new
    return expand


def is_boolish(v):
    return isinstance(v, (ast.BoolOp, ast.Compare)) or \
        (isinstance(v, ast.Constant) and isinstance(v.value, bool)) or \
        (isinstance(v, ast.UnaryOp) and isinstance(v.op, ast.Not))


def alias_dotted(fnode, expr):
    """dotted text of *expr* after resolving single-assignment locals that are plain aliases
    (``out = sys.stdout`` / ``options = self.runner.options``)"""
    d = dotted(expr)
    if d is None:
        return None
    env = single_assignments(fnode)
    for _ in range(3):
        head, _, rest = d.partition('.')
        v = env.get(head)
        dv = dotted(v) if v is not None else None
        if dv is None:
            break
        d = dv + ('.' + rest if rest else '')
    return d


def guard_literals(ctx, fi, astnode, g=None, expand_bools=True):
    """dominating branch literals of the CFG node that evaluates *astnode* (falls back to the
    syntactic nesting when the node is not found)"""
    from sa.variance import path_literals
    g = g or ctx.cfg(fi)
    nid = node_of(g, astnode)
    if nid is None:
        return path_literals(astnode, fi.node)
    exp = expander(fi.node, is_boolish) if expand_bools else None
    return g.dominating_literals(nid, expand=exp) + _collected_filter_literals(fi, astnode)


def _collected_filter_literals(fi, astnode):
    """collect-then-act: the node lies in ``for x in L`` where L is a local bound exactly once to
    ``[x' for x' in I if c(x')]`` (the elements themselves, filtered): inside the loop c(x) holds
    for the loop variable -- the conditions of the comprehension are guards of the loop body"""
    import copy
    out = []
    cur = astnode
    while getattr(cur, '_parent', None) is not None and cur is not fi.node:
        cur = cur._parent
        if not (isinstance(cur, ast.For) and isinstance(cur.target, ast.Name)):
            continue
        if isinstance(cur.iter, ast.Name):
            L = cur.iter.id
            defs = [n for n in ast.walk(fi.node) if isinstance(n, ast.Assign) and
                    any(is_name(t, L) for t in n.targets)]
            stores = [n for n in ast.walk(fi.node) if isinstance(n, ast.Name) and n.id == L and
                      isinstance(n.ctx, (ast.Store, ast.Del))]
            if len(defs) != 1 or len(stores) != 1:
                continue
            v = defs[0].value
        else:
            # the filtered collection is written directly into the loop header
            v = cur.iter
        if isinstance(v, ast.Call) and call_name(v) in ('list', 'tuple') and len(v.args) == 1:
            v = v.args[0]
        if not (isinstance(v, (ast.ListComp, ast.GeneratorExp)) and len(v.generators) == 1 and
                isinstance(v.generators[0].target, ast.Name) and
                is_name(v.elt, v.generators[0].target.id)):
            continue
        cv = v.generators[0].target.id

        class Ren(ast.NodeTransformer):
            def visit_Name(self, n):
                if n.id == cv:
                    return ast.copy_location(ast.Name(id=cur.target.id, ctx=n.ctx), n)
                return n
        for c in v.generators[0].ifs:
            e = ast.fix_missing_locations(Ren().visit(copy.deepcopy(c)))
            from sa.variance import split_literals
            out += split_literals(e, True)
    return out


def inlined(ctx, fi, depth=2):
    """a copy of the function's AST in which statement-level calls of helper functions /
    methods of the same module (``self.h(...)``, ``h(...)``, ``Cls.h(...)``) are replaced by
    the helper's body with the parameters substituted by the argument expressions.  Only
    helpers whose body contains no ``return <value>`` are inlined."""
    import copy
    m = ctx.model

    def resolve(call):
        f = call.func
        name = None
        if isinstance(f, ast.Name):
            name = f.id
        elif isinstance(f, ast.Attribute) and isinstance(f.value, ast.Name):
            name = f.attr
        if name is None:
            return None
        cands = [x for q, x in fi.module.functions.items() if q.split('.')[-1] == name and x is not fi]
        if len(cands) != 1:
            return None
        h = cands[0]
        if any(isinstance(n, ast.Return) and n.value is not None for n in ast.walk(h.node)) or \
                any(isinstance(n, (ast.Yield, ast.YieldFrom)) for n in ast.walk(h.node)):
            return None
        return h

    def expand_body(body, d):
        out = []
        for st in body:
            if d > 0 and isinstance(st, ast.Expr) and isinstance(st.value, ast.Call):
                h = resolve(st.value)
                if h is not None:
                    ps = [a.arg for a in h.node.args.args]
                    decos = [dotted(x) for x in h.node.decorator_list]
                    if ps and ps[0] in ('self', 'cls') and 'staticmethod' not in decos:
                        ps = ps[1:]
                    env = {}
                    for p, a in zip(ps, st.value.args):
                        env[p] = a
                    for k in st.value.keywords:
                        if k.arg:
                            env[k.arg] = k.value
                    hb = [ast_copy(x) for x in h.node.body
                          if not (isinstance(x, ast.Expr) and isinstance(x.value, ast.Constant))]
                    hb = [_Subst(env, 1).visit(x) for x in hb]
                    for x in hb:
                        ast.copy_location(x, st)
                        for y in ast.walk(x):
                            if not hasattr(y, 'lineno') or True:
                                y.lineno = getattr(st, 'lineno', 0)
                                y.col_offset = getattr(y, 'col_offset', 0)
                    out.extend(expand_body(hb, d - 1))
                    continue
            for fld in ('body', 'orelse', 'finalbody'):
                sub = getattr(st, fld, None)
                if isinstance(sub, list) and sub and isinstance(sub[0], ast.stmt):
                    setattr(st, fld, expand_body(sub, d))
            for hd in getattr(st, 'handlers', []) or []:
                hd.body = expand_body(hd.body, d)
            out.append(st)
        return out
    new = ast_copy(fi.node)
    new.body = expand_body(new.body, depth)
    ast.fix_missing_locations(new)
    for p in ast.walk(new):
        for c in ast.iter_child_nodes(p):
            c._parent = p
    return new


def removal_nodes(g, q, front_only=False):
    """CFG nodes that remove an element from the list named *q*: q.pop(...), q.remove(...),
    del q[...] (front_only: only q.pop(0) / del q[0])"""
    out = []
    for n in g.nodes:
        if n.ast is None:
            continue
        if n.kind == 'stmt' and isinstance(n.ast, ast.Delete):
            for t in n.ast.targets:
                if isinstance(t, ast.Subscript) and is_name(t.value, q):
                    if not front_only or (isinstance(t.slice, ast.Constant) and t.slice.value == 0):
                        out.append(n.id)
        for c in node_calls(g, n.id):
            if isinstance(c.func, ast.Attribute) and is_name(c.func.value, q) and \
                    c.func.attr in ('pop', 'remove', 'popleft'):
                if not front_only or (c.func.attr in ('pop', 'popleft') and (
                        c.func.attr == 'popleft' or (len(c.args) == 1 and
                                                      isinstance(c.args[0], ast.Constant) and
                                                      c.args[0].value == 0))):
                    out.append(n.id)
    return sorted(set(out))


def queue_name(fi):
    """the local list built from ordered_layers() in Runner.run_tests"""
    for n in ast.walk(fi.node):
        if isinstance(n, ast.Assign) and isinstance(n.targets[0], ast.Name) and \
                'ordered_layers()' in norm(n.value):
            return n.targets[0].id
    return None


def repeat_loop(ctx, fi, g):
    """the CFG 'for' node of the --repeat loop of function run_tests: the loop whose iterable
    derives from range(...repeat...) and that contains the test loops"""
    assigns = local_assignments(fi.node)
    for n in g.nodes:
        if n.kind == 'for':
            src = sources_of(n.ast, assigns)
            if 'range' in src and ('options.repeat' in src or 'repeat' in src):
                return n
    return None


ORDER_KEEPING = ('iter', 'list', 'tuple')


def iter_source(expr):
    """(source expression, form) when iterating *expr* visits the elements of the source once
    each, in order: X, iter(X), list(X), tuple(X) -> 'plain'; enumerate(X[, start]) ->
    'enumerate' (the element is the second item of the loop target)"""
    e, form = expr, 'plain'
    while isinstance(e, ast.Call) and isinstance(e.func, ast.Name):
        if e.func.id in ORDER_KEEPING and len(e.args) == 1 and not e.keywords:
            e = e.args[0]
        elif e.func.id == 'enumerate' and form == 'plain' and 1 <= len(e.args) <= 2 and \
                all(k.arg == 'start' for k in e.keywords):
            e, form = e.args[0], 'enumerate'
        else:
            break
    return e, form


def iterates_in_order(iter_expr, name):
    src, _form = iter_source(iter_expr)
    return is_name(src, name)


def element_target(for_stmt):
    """the part of a for-loop target that receives the element of the iterated source"""
    _src, form = iter_source(for_stmt.iter)
    t = for_stmt.target
    if form == 'enumerate':
        return t.elts[1] if isinstance(t, ast.Tuple) and len(t.elts) == 2 else None
    return t


def literal_elements(x, consts=None):
    """the constant elements of a literal collection -- (a, b), [a, b], {a, b}, a single string,
    frozenset/set/tuple/list(<literal collection>) or a module constant naming one -- else None"""
    if isinstance(x, (ast.Tuple, ast.List, ast.Set)):
        vals = [y.value for y in x.elts if isinstance(y, ast.Constant)]
        return vals if len(vals) == len(x.elts) else None
    if isinstance(x, ast.Call) and isinstance(x.func, ast.Name) and not x.keywords and \
            x.func.id in ('frozenset', 'set', 'tuple', 'list', 'sorted'):
        if not x.args:
            return []
        return literal_elements(x.args[0], consts) if len(x.args) == 1 else None
    if isinstance(x, ast.Name) and consts and x.id in consts:
        return literal_elements(consts[x.id], None)
    return None


def record_field_expander(ctx, fi):
    """expr -> expr in which ``v.f`` is replaced by the constructor argument when the local *v* is
    assigned exactly once, from ``C(...)`` with C a class of the package whose fields are the
    annotated names of its body (dataclass style), and f is never stored through v"""
    m = ctx.model
    env = {}
    stored = {(dotted(t.value), t.attr) for n in ast.walk(fi.node)
              if isinstance(n, (ast.Assign, ast.AugAssign))
              for t in (n.targets if isinstance(n, ast.Assign) else [n.target])
              if isinstance(t, ast.Attribute)}
    for v, val in single_assignments(fi.node).items():
        if not (isinstance(val, ast.Call) and dotted(val.func)):
            continue
        ci = m.resolve_class(fi.module, dotted(val.func))
        if ci is None:
            continue
        fields = [x.target.id for x in ci.node.body if isinstance(x, ast.AnnAssign) and
                  isinstance(x.target, ast.Name)]
        if not fields or any(isinstance(a, ast.Starred) for a in val.args):
            continue
        for f, a in zip(fields, val.args):
            env[(v, f)] = a
        for k in val.keywords:
            if k.arg in fields:
                env[(v, k.arg)] = k.value

    class T(ast.NodeTransformer):
        def visit_Attribute(self, n):
            self.generic_visit(n)
            if isinstance(n.value, ast.Name) and (n.value.id, n.attr) in env and \
                    (n.value.id, n.attr) not in stored and isinstance(n.ctx, ast.Load):
                return ast_copy(env[(n.value.id, n.attr)])
            return n

    def expand(e):
        return T().visit(ast_copy(e)) if env else e
    return expand


def yields_call_of(ctx, module, expr, name, depth=2):
    """*expr* evaluates to the result of calling *name*: it is ``name(...)`` itself, or a call of a
    function of the same module every path of which returns such a value"""
    if not isinstance(expr, ast.Call):
        return False
    d = dotted(expr.func)
    if d == name:
        return True
    if depth <= 0 or d is None or '.' in d:
        return False
    h = module.functions.get(d)
    if h is None:
        return False
    g = ctx.cfg(h)
    rets = [n for n in g.nodes if n.kind == 'stmt' and isinstance(n.ast, ast.Return)]
    if not rets or any(n.ast.value is None for n in rets):
        return False
    # no normal path falls off the end
    for s_, k in g.pred[g.exit]:
        if not isinstance(g.node(s_).ast, ast.Return):
            return False
    assigns = local_assignments(h.node)

    def val_ok(v, seen=()):
        if isinstance(v, ast.Name) and v.id not in seen:
            vs = [x for x in assigns.get(v.id, [])]
            return bool(vs) and all(isinstance(x, ast.AST) and val_ok(x, seen + (v.id,)) for x in vs)
        return yields_call_of(ctx, module, v, name, depth - 1)
    return all(val_ok(n.ast.value) for n in rets)


def child_keeps_only_own_layer(ctx, rep, R):
    """In a child process (--resume-layer NAME) Filter.global_setup must leave exactly the layer
    whose name *equals* NAME registered: every removal from the registry that can happen under
    ``resume_layer is not None`` is controlled by ``key != resume_layer`` (equality of names, not a
    pattern match), and the loop that removes visits every registered name.  Shared by C01.R5 (the
    layers after CanNotTearDown run in fresh children, one each), C03.R5 (exactly one process per
    layer) and C10.R2 (each layer runs once)."""
    ff = ctx.model.func('filter.Filter.global_setup')
    g = ctx.cfg(ff)
    fn = ff.node

    def is_registry(e):
        return (alias_dotted(fn, e) or '').endswith('tests_by_layer_name')

    def is_resume(e):
        return (alias_dotted(fn, e) or '').endswith('options.resume_layer')

    sites = []          # (ast node, key expr)
    for n in ast.walk(fn):
        if isinstance(n, ast.Call) and isinstance(n.func, ast.Attribute) and n.func.attr == 'pop' \
                and n.args and is_registry(n.func.value):
            sites.append((n, n.args[0]))
        elif isinstance(n, ast.Delete):
            for t in n.targets:
                if isinstance(t, ast.Subscript) and is_registry(t.value):
                    sites.append((n, t.slice))
        elif isinstance(n, ast.Call) and isinstance(n.func, ast.Attribute) and \
                n.func.attr in ('clear', 'popitem') and is_registry(n.func.value):
            sites.append((n, None))
    child_sites, ok, why = [], True, ''
    for node, key in sites:
        lits = guard_literals(ctx, ff, node)
        in_child = None
        for e, pos in lits:
            if is_resume(e):
                in_child = pos
            elif isinstance(e, ast.Compare) and len(e.ops) == 1 and is_resume(e.left) and \
                    isinstance(e.comparators[0], ast.Constant) and e.comparators[0].value is None:
                in_child = pos if isinstance(e.ops[0], ast.IsNot) else \
                    (not pos if isinstance(e.ops[0], ast.Is) else None)
        if in_child is False:
            continue                         # only reachable in the parent
        if in_child is None and isinstance(key, ast.Constant):
            continue                         # removal of a fixed layer (unit-test layer decision)
        if in_child is None:
            continue
        child_sites.append(node)
        if key is None:
            ok, why = False, '%s empties the registry in a child' % norm(node)
            continue
        eq = None
        for e, pos in lits:
            if isinstance(e, ast.Compare) and len(e.ops) == 1 and \
                    isinstance(e.ops[0], (ast.Eq, ast.NotEq)):
                a, b = e.left, e.comparators[0]
                if (norm(a) == norm(key) and is_resume(b)) or (norm(b) == norm(key) and is_resume(a)):
                    differs = pos if isinstance(e.ops[0], ast.NotEq) else not pos
                    eq = differs
        if eq is not True:
            # the names to remove may have been collected first:
            #   unwanted = [n for n in layers if n != resume_layer];  for n in unwanted: del layers[n]
            loop_ = None
            for f in ast.walk(fn):
                if isinstance(f, ast.For) and any(x is node for b in f.body for x in ast.walk(b)):
                    loop_ = f
            comp = None
            if loop_ is not None and isinstance(loop_.target, ast.Name) and norm(loop_.target) == norm(key):
                src_ = loop_.iter
                if isinstance(src_, ast.Name):
                    vals = [v for v in single_assignments(fn).items() if v[0] == src_.id]
                    src_ = vals[0][1] if vals else None
                if isinstance(src_, (ast.ListComp, ast.GeneratorExp, ast.SetComp)) and \
                        len(src_.generators) == 1:
                    comp = src_
            if comp is not None:
                g0 = comp.generators[0]
                it_src = iter_source(g0.iter)[0]
                if isinstance(it_src, ast.Call) and isinstance(it_src.func, ast.Attribute) and \
                        it_src.func.attr in ('keys', 'copy') and not it_src.args:
                    it_src = it_src.func.value
                cond_ok = len(g0.ifs) == 1 and isinstance(g0.ifs[0], ast.Compare) and \
                    len(g0.ifs[0].ops) == 1 and isinstance(g0.ifs[0].ops[0], ast.NotEq) and \
                    ((norm(g0.ifs[0].left) == norm(g0.target) and is_resume(g0.ifs[0].comparators[0])) or
                     (norm(g0.ifs[0].comparators[0]) == norm(g0.target) and is_resume(g0.ifs[0].left)))
                if is_registry(it_src) and norm(comp.elt) == norm(g0.target) and cond_ok and \
                        not any(isinstance(x, (ast.If, ast.Break, ast.Continue)) for x in ast.walk(loop_)):
                    continue
            ok = False
            why = '%s is not controlled by "%s != options.resume_layer" (guards: %s)' % (
                norm(node), norm(key), [(norm(e), p) for e, p in lits])
            continue
        # the loop visits every registered name
        loop = None
        for f in ast.walk(fn):
            if isinstance(f, ast.For) and any(x is node for b in f.body for x in ast.walk(b)):
                loop = f
        src = iter_source(loop.iter)[0] if loop is not None else None
        if isinstance(src, ast.Name):
            # names collected first (their filter already counts as a guard, see guard_literals)
            vals = [v for k_, v in single_assignments(fn).items() if k_ == src.id]
            if vals and isinstance(vals[0], (ast.ListComp, ast.GeneratorExp)) and \
                    len(vals[0].generators) == 1 and norm(vals[0].elt) == norm(vals[0].generators[0].target):
                src = iter_source(vals[0].generators[0].iter)[0]
        if isinstance(src, (ast.ListComp, ast.GeneratorExp)) and len(src.generators) == 1 and \
                norm(src.elt) == norm(src.generators[0].target):
            # the same selection written in the loop header itself
            src = iter_source(src.generators[0].iter)[0]
        if isinstance(src, ast.Call) and isinstance(src.func, ast.Attribute) and \
                src.func.attr in ('keys', 'copy') and not src.args:
            src = src.func.value
        if loop is None or not is_registry(src) or norm(element_target(loop)) != norm(key):
            ok = False
            why = 'the removing loop does not run over all registered layer names (%s)' % (
                norm(loop.iter) if loop is not None else 'no loop')
    rep.floor(R, len(child_sites), 1, 'removals from the layer registry in a child')
    rep.check(ok and bool(child_sites), R, 'child drops every layer but --resume-layer',
              why or 'Filter.global_setup no longer removes all layers other than resume_layer',
              key='child-only-own-layer', func=ff.qualname, where=ctx.where(ff, ff.node))


MUTATORS = ('sort', 'reverse', 'pop', 'insert', 'remove', 'append', 'extend', 'clear', 'popitem',
            'update', 'setdefault', 'add', 'discard')


def param_untouched(fnode, name):
    """None if the parameter *name* of the function still denotes the caller's object in the
    caller's order everywhere in the body: it is never re-bound (assignment, loop target, with/except
    target, augmented assignment) and never mutated in place; otherwise the offending node."""
    a = fnode.args
    if name not in [x.arg for x in a.posonlyargs + a.args + a.kwonlyargs]:
        return fnode
    for n in ast.walk(fnode):
        if isinstance(n, ast.Name) and n.id == name and isinstance(n.ctx, (ast.Store, ast.Del)):
            par = getattr(n, '_parent', None)
            if isinstance(par, ast.Assign) and len(par.targets) == 1:
                v = par.value           # layers = list(layers) / layers[:] / layers.copy(): same order
                if isinstance(v, ast.Subscript) and isinstance(v.slice, ast.Slice) and \
                        v.slice.lower is None and v.slice.upper is None and v.slice.step is None:
                    v = v.value
                elif isinstance(v, ast.Call) and isinstance(v.func, ast.Attribute) and \
                        v.func.attr == 'copy' and not v.args:
                    v = v.func.value
                else:
                    v = iter_source(v)[0] if iter_source(v)[1] == 'plain' else v
                if is_name(v, name):
                    continue
            return n
        if isinstance(n, ast.Call) and isinstance(n.func, ast.Attribute) and is_name(n.func.value, name) \
                and n.func.attr in MUTATORS:
            return n
        if isinstance(n, ast.Subscript) and is_name(n.value, name) and isinstance(n.ctx, (ast.Store, ast.Del)):
            return n
    return None


def reaching_defs(g, nid, name):
    """the value expressions (or the defining node for loop/with targets) of the definitions of
    the local *name* that reach CFG node *nid* (backward search, stops at each definition)"""
    out, seen = [], set()
    work = [p for p, _k in g.pred[nid]]
    while work:
        n = work.pop()
        if n in seen:
            continue
        seen.add(n)
        node = g.node(n)
        a = node.ast
        hit = None
        if node.kind == 'stmt' and isinstance(a, ast.Assign) and any(
                is_name(x, name) for t in a.targets for x in ast.walk(t) if isinstance(x, ast.Name)):
            hit = a.value if any(is_name(t, name) for t in a.targets) else a
        elif node.kind == 'stmt' and isinstance(a, (ast.AugAssign, ast.AnnAssign)) and is_name(a.target, name):
            hit = a
        elif node.kind == 'for' and any(is_name(x, name) for x in ast.walk(node.stmt.target)):
            hit = node.stmt
        elif node.kind == 'with' and any(it.optional_vars is not None and any(
                is_name(x, name) for x in ast.walk(it.optional_vars)) for it in node.stmt.items):
            hit = node.stmt
        if hit is not None:
            if not any(h is hit for h in out):
                out.append(hit)
            continue
        work.extend(p for p, _k in g.pred[n])
    return out


def symbolic_value(fnode, at_stmt, var):
    """The value of the local *var* when control reaches statement *at_stmt*, as ONE expression over
    the function's inputs: the straight-line / if-structured code before *at_stmt* is executed
    symbolically (every ``name = expr`` is substituted forward, an ``if`` merges the two branch values
    into a conditional expression).  None when *var* may be assigned inside a loop / try / with on
    the way, or is not assigned at all.  This is abstract interpretation of assignments only -- no
    call is evaluated, nothing is run."""
    import copy

    class Sub(ast.NodeTransformer):
        def __init__(self, env):
            self.env = env

        def visit_Name(self, n):
            if isinstance(n.ctx, ast.Load) and n.id in self.env and self.env[n.id] is not None:
                return ast_copy(self.env[n.id])
            return n

        def visit_Lambda(self, n):
            return n

    def sub(e, env):
        new = Sub(env).visit(ast_copy(e))
        ast.fix_missing_locations(new)
        return new

    def assigned_in(st):
        return {x.id for x in ast.walk(st) if isinstance(x, ast.Name) and
                isinstance(x.ctx, (ast.Store, ast.Del))}

    class Found(Exception):
        pass
    result = {}

    def run(stmts, env):
        """returns env after the block (or raises Found when at_stmt is reached)"""
        for st in stmts:
            if st is at_stmt:
                result['env'] = env
                raise Found()
            if isinstance(st, ast.Assign) and len(st.targets) == 1 and isinstance(st.targets[0], ast.Name):
                env = dict(env)
                env[st.targets[0].id] = sub(st.value, env)
            elif isinstance(st, ast.If):
                contains = any(x is at_stmt for x in ast.walk(st))
                if contains:
                    # walk into the branch that holds the use site
                    for blk in (st.body, st.orelse):
                        if any(x is at_stmt for b in blk for x in ast.walk(b)):
                            run(blk, env)
                    return env
                test = sub(st.test, env)
                e1 = run(st.body, dict(env))
                e2 = run(st.orelse, dict(env))
                env = dict(env)
                for k in set(e1) | set(e2):
                    a, b = e1.get(k), e2.get(k)
                    if a is None or b is None:
                        env[k] = None if (k in assigned_in(st)) else env.get(k)
                    elif a is b or norm(a) == norm(b):
                        env[k] = a
                    else:
                        env[k] = ast.fix_missing_locations(ast.IfExp(test=ast_copy(test), body=a, orelse=b))
            else:
                if any(x is at_stmt for x in ast.walk(st)):
                    # the use site sits inside a loop / try / with: values flow in unchanged unless the
                    # construct itself assigns them
                    killed = assigned_in(st)
                    env = {k: (None if k in killed else v) for k, v in env.items()}
                    for fld in ('body', 'orelse', 'finalbody'):
                        blk = getattr(st, fld, None)
                        if isinstance(blk, list) and any(x is at_stmt for b in blk for x in ast.walk(b)):
                            run(blk, env)
                    for h in getattr(st, 'handlers', []) or []:
                        if any(x is at_stmt for b in h.body for x in ast.walk(b)):
                            run(h.body, env)
                    return env
                killed = assigned_in(st)
                if killed:
                    env = dict(env)
                    for k in killed:
                        env[k] = None
        return env
    try:
        run(fnode.body, {})
    except Found:
        v = result['env'].get(var)
        if v is not None:
            for p in ast.walk(v):
                for c in ast.iter_child_nodes(p):
                    c._parent = p
        return v
    return None
