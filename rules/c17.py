"""C17 -- XML reports are well-formed and agree with the run (sanitisation, counters)."""
import ast

from sa.variance import path_literals
from .common import (Ctx, call_name, calls_in, dotted, is_name, kw, local_assignments, nodes_calling,
                     norm, own_calls, params)

P = 'C17'
FN = 'formatter.XMLOutputFormattingWrapper.writeXMLReports'

# code points outside the XML 1.0 Char production (also not allowed as character references)
ILLEGAL = [(0x00, 0x08), (0x0B, 0x0C), (0x0E, 0x1F), (0xD800, 0xDFFF), (0xFFFE, 0xFFFF)]


def run(model, rep, tier):
    ctx = Ctx(model)
    r1_sanitised_sinks(ctx, rep)
    r2_ascii_safe_write(ctx, rep)
    r3_counters(ctx, rep)
    r4_recorded_once(ctx, rep)
    r5_own_class_and_name(ctx, rep)
    r6_writer_total_on_strings(ctx, rep)
    r7_one_file_per_suite(ctx, rep)
    r8_record_is_total(ctx, rep)
    r10_reports_written_once(ctx, rep)
    r11_report_folder_fixed_early(ctx, rep)
    # the reports of a layer run in a subprocess are written by that child, after its report phase:
    # nothing in that phase may fail (shared with C07.R11)
    from . import c07
    c07.r11_nothing_printed_after_the_report(ctx, rep, 'C17.R9')
    from . import robust
    robust.asserts_have_no_effects(ctx, rep, 'C17.R20', 'C17')
    rep.units['cfg'] = ctx.cfg_stats


def r8_record_is_total(ctx, rep, R='C17.R8'):
    rep.rule(R, 'every outcome can be recorded: the functions that turn a test into (suite, name, '
             'class) for the XML report do not fail on a value that may be absent (rules/nullable.py, '
             'restricted to formatter.py): a nullable helper result is only subscripted / joined / '
             'iterated where None is excluded -- otherwise "every test that passed appears exactly '
             'once" fails with a TypeError for that kind of test (and the run is aborted, C04)')
    from . import nullable
    n = nullable.check(ctx, rep, R, scope=lambda fi: fi.module.name == 'formatter')
    n += nullable.check_locals(ctx, rep, R, scope=lambda fi: fi.module.name == 'formatter')
    rep.assume('%s: %d nullable results / locals inside formatter.py followed to their uses' % (R, n))


def regex_class_ranges(pattern):
    """code point ranges matched by a pattern that is a single character class (or an
    alternation of single characters), computed from the regex AST -- never by matching"""
    import re._parser as sp    # py311+: re._parser
    try:
        tree = sp.parse(pattern)
    except Exception:
        return None
    if len(tree) != 1:
        return None
    op, av = tree[0]
    out = []
    name = str(op)
    if name == 'IN':
        for o, a in av:
            so = str(o)
            if so == 'LITERAL':
                out.append((a, a))
            elif so == 'RANGE':
                out.append((a[0], a[1]))
            elif so == 'NEGATE':
                return None
            else:
                return None
        return out
    if name == 'LITERAL':
        return [(av, av)]
    return None


def covers(ranges, need):
    for lo, hi in need:
        c = lo
        while c <= hi:
            nxt = None
            for a, b in ranges:
                if a <= c <= b:
                    nxt = b + 1 if nxt is None else max(nxt, b + 1)
            if nxt is None:
                return False, c
            c = nxt
    return True, None


def sanitisers(ctx):
    """module-level functions of formatter.py that return <compiled constant regex>.sub(<clean
    constant>, <their argument>) where the regex class covers every illegal XML code point"""
    m = ctx.model
    mod = m.module('formatter')
    out = {}
    for q, fi in mod.functions.items():
        if '.' in q or len(params(fi)) != 1:
            continue
        rets = [n for n in ast.walk(fi.node) if isinstance(n, ast.Return) and n.value is not None]
        if len(rets) != 1:
            continue
        c = rets[0].value
        if not (isinstance(c, ast.Call) and isinstance(c.func, ast.Attribute) and c.func.attr == 'sub'):
            continue
        # <compiled>.sub(repl, text)   or   re.sub(<compiled / pattern>, repl, text)
        if m.resolve_dotted(mod, dotted(c.func)) == 're.sub' and len(c.args) == 3 and not c.keywords:
            recv, r_arg, t_arg = c.args
        elif len(c.args) == 2:
            recv, (r_arg, t_arg) = c.func.value, c.args
        else:
            continue
        if not is_name(t_arg, params(fi)[0]):
            continue
        if isinstance(r_arg, ast.Name) and r_arg.id in mod.constants:
            r_arg = mod.constants[r_arg.id]         # a named replacement constant
        c = ast.Call(func=c.func, args=[r_arg, t_arg], keywords=[])
        pat = None
        if isinstance(recv, ast.Constant) and isinstance(recv.value, str):
            pat = recv.value
        if isinstance(recv, ast.Name) and recv.id in mod.constants:
            v = mod.constants[recv.id]
            if isinstance(v, ast.Call) and m.resolve_dotted(mod, dotted(v.func)) == 're.compile' and \
                    v.args and isinstance(v.args[0], ast.Constant) and isinstance(v.args[0].value, str) \
                    and len(v.args) == 1 and not v.keywords:
                pat = v.args[0].value
        if pat is None:
            continue
        repl = c.args[0]
        if not (isinstance(repl, ast.Constant) and isinstance(repl.value, str)):
            continue
        ranges = regex_class_ranges(pat)
        if ranges is None:
            continue
        okc, miss = covers(ranges, ILLEGAL)
        ok_repl, _ = True, None
        for ch in repl.value:
            if any(lo <= ord(ch) <= hi for lo, hi in ILLEGAL):
                ok_repl = False
        out[q] = (okc and ok_repl, 'misses U+%04X' % miss if miss is not None else
                  ('replacement itself illegal' if not ok_repl else 'covers all'), ranges)
    return out


CLEAN_ATTRS = ('tests', 'errors', 'failures', 'time')


def _clean(e, fi):
    """values that cannot carry test-derived text: numbers rendered with str(), host, timestamp,
    constants"""
    if isinstance(e, ast.Constant):
        return True
    if isinstance(e, ast.Call) and dotted(e.func) == 'str' and len(e.args) == 1 and \
            isinstance(e.args[0], ast.Attribute) and e.args[0].attr in CLEAN_ATTRS:
        return True
    if isinstance(e, ast.Name):
        for v in local_assignments(fi.node).get(e.id, []):
            if isinstance(v, ast.Call) and isinstance(v.func, ast.Attribute) and \
                    v.func.attr in ('isoformat', 'gethostname') and not v.args:
                return True
    return False


def r1_sanitised_sinks(ctx, rep, R='C17.R1'):
    rep.rule(R, 'every string that reaches the element tree from test-derived data (suite and test '
             'names, class names, exception messages, types and tracebacks) passes a sanitiser: a '
             'function applying a constant character-class substitution whose class -- computed '
             'from the regex syntax tree -- covers every code point outside the XML 1.0 Char '
             'production (C0 controls except TAB/LF/CR, surrogates, U+FFFE/U+FFFF)')
    m = ctx.model
    fi = m.func(FN)
    sans = sanitisers(ctx)
    good = {q for q, v in sans.items() if v[0]}
    for q, v in sorted(sans.items()):
        rep.check(v[0], R, 'sanitiser %s: %s' % (q, v[1]),
                  'the substitution in %s does not remove every character XML 1.0 forbids (%s)'
                  % (q, v[1]), key='sanitiser:' + q, func='formatter.' + q)
    sinks = []
    from sa.callgraph import local_assignments, sources_of
    assigns = local_assignments(fi.node)

    def is_element(e):
        """the receiver is (an alias of) a local bound to ElementTree.Element / SubElement(...)"""
        seen = set()
        todo = [e]
        while todo:
            x = todo.pop()
            if isinstance(x, ast.Call) and (dotted(x.func) or '').split('.')[-1] in ('Element', 'SubElement'):
                return True
            if isinstance(x, ast.Name) and x.id not in seen:
                seen.add(x.id)
                todo.extend(v for v in assigns.get(x.id, []) if isinstance(v, ast.AST))
        return False
    for n in ast.walk(fi.node):
        if isinstance(n, ast.Call) and isinstance(n.func, ast.Attribute) and n.func.attr == 'set' \
                and len(n.args) == 2 and is_element(n.func.value):
            sinks.append((n, n.args[1], '%s.set(%s, ...)' % (dotted(n.func.value), norm(n.args[0]))))
        if isinstance(n, ast.Assign) and any(isinstance(t, ast.Attribute) and t.attr in ('text', 'tail')
                                             and is_element(t.value) for t in n.targets):
            sinks.append((n, n.value, norm(n.targets[0]) + ' = ...'))
        if isinstance(n, ast.Call) and (dotted(n.func) or '').endswith('SubElement') and n.keywords:
            for k in n.keywords:
                sinks.append((n, k.value, 'SubElement(%s=...)' % k.arg))
    nt = 0
    for node, val, label in sinks:
        if _clean(val, fi):
            rep.ok(R, label + ' (number / host / time stamp / constant)')
            continue
        from_param = isinstance(val, ast.Name) and any(
            isinstance(lp_, ast.For) and val.id in {x.id for x in ast.walk(lp_.target)
                                                    if isinstance(x, ast.Name)} and
            any(isinstance(x, ast.Name) and x.id in params(fi) for x in ast.walk(lp_.iter))
            for lp_ in ast.walk(fi.node))
        if from_param:
            rep.ok(R, label + ' (caller-supplied report properties, not test data)')
            continue
        nt += 1
        ok = isinstance(val, ast.Call) and call_name(val) in good
        rep.check(ok, R, label + ' sanitised', 'test-derived text %s enters the XML tree without a '
                  'sanitiser: a control character in a test name, exception message or traceback '
                  'makes the report unparsable' % norm(val)[:60], key='sink:' + label,
                  func=fi.qualname, where=ctx.where(fi, node))
    rep.floor(R, nt, 8, 'test-derived sinks')
    rep.floor(R, len(good), 1, 'sanitiser functions')


def r2_ascii_safe_write(ctx, rep, R='C17.R2'):
    rep.rule(R, 'the text written to the report file is ElementTree.tostring() in its default '
             '(ASCII, character-reference) encoding, so the locale encoding of open() cannot fail '
             'on non-ASCII text')
    fi = ctx.model.func(FN)
    ts = [c for c in own_calls(fi.node) if (dotted(c.func) or '').endswith('tostring')]
    ok = len(ts) == 1
    why = 'found %d tostring calls' % len(ts)
    if ok:
        enc = kw(ts[0], 'encoding')
        ascii_out = enc is None or (isinstance(enc, ast.Constant) and
                                    str(enc.value).lower().replace('_', '-') in ('us-ascii', 'ascii'))
        opens = [c for c in own_calls(fi.node) if dotted(c.func) == 'open']
        utf8_open = all(kw(c, 'encoding') is not None and 'utf' in norm(kw(c, 'encoding')).lower()
                        for c in opens) and bool(opens)
        ok = ascii_out or utf8_open
        why = 'tostring(encoding=%s) is written through open() in the locale encoding' % (
            norm(enc) if enc is not None else None)
    rep.check(ok, R, 'writeXMLReports: tostring() default encoding (or explicit utf-8 file)', why,
              key='write:encoding', func=fi.qualname, where=ctx.where(fi, fi.node))
    # what is written is that text
    writes = [c for c in own_calls(fi.node) if isinstance(c.func, ast.Attribute) and
              c.func.attr == 'write' and c.args]
    okw = len(writes) == 1 and isinstance(writes[0].args[0], ast.Name)
    if okw:
        src = [n for n in ast.walk(fi.node) if isinstance(n, ast.Assign) and
               is_name(n.targets[0], writes[0].args[0].id) and n.lineno < writes[0].lineno]
        src.sort(key=lambda n: n.lineno)
        okw = bool(src) and 'tostring' in norm(src[-1].value)
    rep.check(okw, R, 'the serialised tree is what is written', 'the file content is not the '
              'serialised tree', key='write:content', func=fi.qualname, where=ctx.where(fi, fi.node))


def _creates(c, tag):
    """``Element(tag)`` or ``SubElement(parent, tag)``"""
    if not isinstance(c, ast.Call):
        return False
    nm = (dotted(c.func) or '').split('.')[-1]
    i = {'Element': 0, 'SubElement': 1}.get(nm)
    return i is not None and len(c.args) > i and isinstance(c.args[i], ast.Constant) and \
        c.args[i].value == tag


def r3_counters(ctx, rep, R='C17.R3'):
    rep.rule(R, 'counters agree with elements: the tests attribute is the length of the list the '
             'testcase loop iterates; _record increments failures / errors exactly for the records '
             'that later get a failure / error child; one testcase element per record')
    m = ctx.model
    ts = m.cls('formatter.TestSuiteInfo')
    tp = ts.methods.get('tests')
    ok = tp is not None and any(isinstance(n, ast.Return) and norm(n.value) == 'len(self.testCases)'
                                for n in ast.walk(tp.node))
    rep.check(ok, R, 'TestSuiteInfo.tests == len(self.testCases)', 'tests is not the number of '
              'recorded test cases', key='tests:len', func='formatter.TestSuiteInfo.tests')
    fi = m.func(FN)
    loops = [n for n in ast.walk(fi.node) if isinstance(n, ast.For) and
             (dotted(n.iter) or '').endswith('.testCases')]
    okl = len(loops) == 1
    if okl:
        lp = loops[0]
        tc = lp.target.id
        mk = [c for c in ast.walk(lp) if _creates(c, 'testcase')]
        from .common import guard_literals
        g = ctx.cfg(fi)
        head = [n.id for n in g.nodes if n.kind == 'for' and n.stmt is lp]

        def loop_lits(call):
            """branch literals that hold whenever *call* is evaluated and that concern this record"""
            return [(norm(e), pos) for e, pos in guard_literals(ctx, fi, call, g=g)
                    if any(is_name(x, tc) for x in ast.walk(e))]
        okl = len(mk) == 1 and not loop_lits(mk[0]) and bool(head)
        if okl:
            # one element per record: every pass of the loop creates it (no early continue/break before)
            mkn = nodes_calling(g, lambda c: c is mk[0])
            body = [d for d, k in g.succ[head[0]] if k == 'true']
            okp, _w = g.every_path_passes(body, [head[0], g.exit], set(mkn), include_start=True,
                                          edge_ok=lambda s_, d_, k_: k_ != 'exc')
            okl = okp and not any(isinstance(x, ast.Break) for x in ast.walk(lp))
        # failure / error children under the truthiness of the record's own field
        for kind in ('failure', 'error'):
            el = [c for c in ast.walk(lp) if _creates(c, kind)]
            good = len(el) == 1
            if good:
                good = loop_lits(el[0]) in (
                    [('%s.%s' % (tc, kind), True)], [('%s.%s is None' % (tc, kind), False)],
                    [('%s.%s is not None' % (tc, kind), True)])
            rep.check(good, R, '<%s> child created iff testCase.%s' % (kind, kind),
                      'the <%s> element is not created exactly for records with a %s' % (kind, kind),
                      key='child:' + kind, func=fi.qualname, where=ctx.where(fi, lp))
    # ... and the created elements are part of the tree that is serialised: testcase under the root
    # handed to tostring(), failure / error under the testcase element, attached where created
    # (a walk in statement order: which element a name denotes changes when a helper such as
    # _add_node(parent, tag) was inlined several times with the same local)
    elems, env = [], {}

    def new_elem(call, tag):
        el = {'tag': tag, 'call': call, 'parent': None, 'attach': None}
        elems.append(el)
        if (dotted(call.func) or '').endswith('SubElement') and isinstance(call.args[0], ast.Name):
            el['parent'] = env.get(call.args[0].id)
            el['attach'] = call
        return el

    def tag_of(call):
        if not isinstance(call, ast.Call):
            return None
        nm = (dotted(call.func) or '').split('.')[-1]
        i = {'Element': 0, 'SubElement': 1}.get(nm)
        if i is not None and len(call.args) > i and isinstance(call.args[i], ast.Constant):
            return call.args[i].value
        return None

    def walk_stmts(body):
        for st in body:
            if isinstance(st, ast.Assign) and len(st.targets) == 1 and isinstance(st.targets[0], ast.Name):
                t = tag_of(st.value)
                if t is not None:
                    env[st.targets[0].id] = new_elem(st.value, t)
                elif isinstance(st.value, ast.Name) and st.value.id in env:
                    env[st.targets[0].id] = env[st.value.id]
                else:
                    env.pop(st.targets[0].id, None)
            elif isinstance(st, ast.Expr) and isinstance(st.value, ast.Call):
                c = st.value
                t = tag_of(c)
                if t is not None:
                    new_elem(c, t)
                elif isinstance(c.func, ast.Attribute) and c.func.attr == 'append' and len(c.args) == 1 \
                        and isinstance(c.args[0], ast.Name) and isinstance(c.func.value, ast.Name) and \
                        c.args[0].id in env and c.func.value.id in env:
                    env[c.args[0].id]['parent'] = env[c.func.value.id]
                    env[c.args[0].id]['attach'] = c
            for fld in ('body', 'orelse', 'finalbody'):
                sub = getattr(st, fld, None)
                if isinstance(sub, list) and sub and isinstance(sub[0], ast.stmt):
                    walk_stmts(sub)
            for h in getattr(st, 'handlers', []) or []:
                walk_stmts(h.body)
    walk_stmts(fi.node.body)
    made = {}
    for el in elems:
        made.setdefault(el['tag'], []).append(el)
    roots = [c.args[0].id for c in own_calls(fi.node)
             if (dotted(c.func) or '').endswith('tostring') and c.args and isinstance(c.args[0], ast.Name)]
    root_el = None
    okt = len(roots) == 1 and len(made.get('testsuite', [])) == 1
    why = 'the serialised root is %s' % roots
    if okt:
        root_el = made['testsuite'][0]
        tos = [c for c in own_calls(fi.node) if (dotted(c.func) or '').endswith('tostring')]
        # the name handed to tostring() denotes the testsuite element
        okt = any(isinstance(n, ast.Assign) and n.value is root_el['call'] and
                  is_name(n.targets[0], roots[0]) for n in ast.walk(fi.node))
        why = 'tostring() is not given the testsuite element'
    if okt:
        for tag, up in (('testcase', 'testsuite'), ('failure', 'testcase'), ('error', 'testcase')):
            for el in made.get(tag, []) or [None]:
                if el is None or el['parent'] is None or el['parent']['tag'] != up or \
                        (up == 'testsuite' and el['parent'] is not root_el):
                    okt, why = False, '<%s> is not attached to the <%s> element' % (tag, up)
                    break
                lits_c = [(norm(e), p_) for e, p_ in path_literals(el['call'], fi.node)]
                lits_a = [(norm(e), p_) for e, p_ in path_literals(el['attach'], fi.node)]
                if lits_c != lits_a:
                    okt, why = False, '<%s> is attached under another condition than it is created' % tag
                    break
            if not okt:
                break
    rep.check(okt, R, 'testcase / failure / error elements are attached to the serialised tree',
              '%s: the counters would disagree with the elements of the report' % why,
              key='attach', func=fi.qualname, where=ctx.where(fi, fi.node))
    rep.check(okl, R, 'one <testcase> per record of suite.testCases, unconditionally',
              'the testcase loop does not create exactly one element per record', key='testcase:loop',
              func=fi.qualname, where=ctx.where(fi, fi.node))
    # the attributes written are the counters
    want = {'tests': 'str(suite.tests)', 'errors': 'str(suite.errors)', 'failures': 'str(suite.failures)'}
    got = {}
    for c in own_calls(fi.node):
        if isinstance(c.func, ast.Attribute) and c.func.attr == 'set' and len(c.args) == 2 and \
                isinstance(c.args[0], ast.Constant) and c.args[0].value in want and \
                'Suite' in norm(c.func.value):
            got[c.args[0].value] = norm(c.args[1])
    rep.check(got == want, R, 'testsuite attributes tests/errors/failures are the suite counters',
              'attributes are %s' % got, key='attrs', func=fi.qualname, where=ctx.where(fi, fi.node))
    rec = m.func('formatter.XMLOutputFormattingWrapper._record')
    ps = params(rec)
    for kind, counter in (('failure', 'failures'), ('error', 'errors')):
        incs = [n for n in ast.walk(rec.node) if isinstance(n, ast.AugAssign) and
                (dotted(n.target) or '').endswith('.' + counter) and isinstance(n.op, ast.Add) and
                isinstance(n.value, ast.Constant) and n.value.value == 1]
        good = len(incs) == 1 and kind in ps
        if good:
            from .common import record_field_expander
            expand = record_field_expander(ctx, rec)
            lits = [(expand(e), pos) for e, pos in path_literals(incs[0], rec.node)]
            good = [(norm(e), pos) for e, pos in lits] in (
                [('%s is None' % kind, False)], [(kind, True)])
        rep.check(good, R, '_record: %s += 1 iff %s is given' % (counter, kind),
                  'the %s counter is not incremented exactly for records with a %s' % (counter, kind),
                  key='count:' + kind, func=rec.qualname, where=ctx.where(rec, rec.node))
    # the record carries the same arguments in the fields the writer reads
    tci = m.cls('formatter.TestCaseInfo')
    fields = [n.target.id for n in tci.node.body if isinstance(n, ast.AnnAssign)]
    mk = [c for c in own_calls(rec.node) if call_name(c) == 'TestCaseInfo']
    good = len(mk) == 1 and len(mk[0].args) + len(mk[0].keywords) == len(fields)
    if good:
        m_ = dict(zip(fields, [norm(a) for a in mk[0].args]))
        m_.update({k.arg: norm(k.value) for k in mk[0].keywords})
        good = m_.get('failure') == 'failure' and m_.get('error') == 'error' and \
            m_.get('testName') == 'testName' and m_.get('testClassName') == 'testClassName'
    rep.check(good, R, '_record stores failure/error/name/class in the fields of the same name',
              'TestCaseInfo(...) arguments do not line up with its fields %s' % fields,
              key='record:fields', func=rec.qualname, where=ctx.where(rec, rec.node))
    app = [c for c in own_calls(rec.node) if isinstance(c.func, ast.Attribute) and
           c.func.attr == 'append' and (dotted(c.func.value) or '').endswith('.testCases')]
    g = ctx.cfg(rec)
    an = nodes_calling(g, lambda c: c in app)
    okp, _ = g.every_path_passes([g.entry], [g.exit], set(an), include_start=True)
    rep.check(len(app) == 1 and okp, R, '_record appends one record on every normal path',
              'an outcome can be recorded without (or with more than) one testcase record',
              key='record:append', func=rec.qualname, where=ctx.where(rec, rec.node))


def r4_recorded_once(ctx, rep, R='C17.R4'):
    rep.rule(R, 'every outcome is recorded once: the wrapper overrides test_success, test_failure, '
             'test_error and import_errors; each calls _record exactly once per outcome with the '
             'outcome in the matching keyword, on every path')
    m = ctx.model
    w = m.cls('formatter.XMLOutputFormattingWrapper')
    want = {'test_success': None, 'test_failure': 'failure', 'test_error': 'error'}
    for meth, kwname in want.items():
        fi = w.methods.get(meth)
        if fi is None:
            rep.bad(R, 'wrapper.%s' % meth, 'the XML wrapper does not intercept %s: such outcomes '
                    'would be missing from the report' % meth, key='override:' + meth, func=w.qualname)
            continue
        g = ctx.cfg(fi)
        recs = [c for c in own_calls(fi.node) if dotted(c.func) == 'self._record']
        rn = nodes_calling(g, lambda c: c in recs)
        okp, _ = g.every_path_passes([g.entry], [g.exit], set(rn), include_start=True)
        twice = any(y in g.reach([x]) for x in rn for y in rn)
        good = len(recs) >= 1 and okp and not twice
        if good and kwname:
            ps = params(fi)
            good = all(kw(c, kwname) is not None and dotted(kw(c, kwname)) in ps and
                       not any(k.arg in ('failure', 'error') and k.arg != kwname for k in c.keywords)
                       for c in recs)
        if good and not kwname:
            # failure=None / error=None written out are the defaults
            good = all(len(c.args) == 2 and all(
                k.arg in ('failure', 'error') and isinstance(k.value, ast.Constant) and k.value.value is None
                for k in c.keywords) for c in recs)
        good = good and all(is_name(c.args[0], params(fi)[1]) for c in recs)
        rep.check(good, R, 'wrapper.%s records the outcome once%s' % (
            meth, ' as ' + kwname if kwname else ''),
            '%s does not record exactly one %s outcome for its test' % (meth, kwname or 'success'),
            key='record:' + meth, func=fi.qualname, where=ctx.where(fi, fi.node))
    ie = w.methods.get('import_errors')
    ok = False
    if ie is not None:
        for lp in [n for n in ast.walk(ie.node) if isinstance(n, ast.For)]:
            recs = [c for c in ast.walk(lp) if isinstance(c, ast.Call) and dotted(c.func) == 'self._record']
            it_ = lp.iter
            if isinstance(it_, ast.BoolOp) and isinstance(it_.op, ast.Or) and len(it_.values) == 2 and \
                    isinstance(it_.values[1], (ast.Tuple, ast.List)) and not it_.values[1].elts:
                it_ = it_.values[0]             # ``for x in xs or ():`` iterates xs
            if len(recs) == 1 and is_name(it_, params(ie)[1]) and kw(recs[0], 'error') is not None \
                    and is_name(recs[0].args[0], lp.target.id):
                ok = True
    rep.check(ok, R, 'wrapper.import_errors records every import failure as an error',
              'import failures are not recorded in the XML report', key='record:import_errors',
              func=w.qualname + '.import_errors')
    # installed when --xml is given, reports written at the end
    fc = m.func('runner.Runner.configure')
    inst = [n for n in ast.walk(fc.node) if isinstance(n, ast.Assign) and
            dotted(n.targets[0]) == 'options.output' and isinstance(n.value, ast.Call) and
            (dotted(n.value.func) or '').endswith('XMLOutputFormattingWrapper')]
    oki = len(inst) == 1 and [(norm(e), p) for e, p in path_literals(inst[0], fc.node)] == \
        [('options.xmlOutput', True)] and norm(inst[0].value.args[0]) == 'options.output'
    fr = m.func('runner.Runner.run')
    wr = [c for c in own_calls(fr.node) if isinstance(c.func, ast.Attribute) and
          c.func.attr == 'writeXMLReports']
    from .common import expander as _exp
    ex_ = _exp(fr.node, only=lambda v: dotted(v) is not None)
    okw = len(wr) == 1 and [(norm(ex_(e)), p) for e, p in path_literals(wr[0], fr.node)] == \
        [('self.options.xmlOutput', True)]
    rep.check(oki and okw, R, '--xml: wrapper installed around the chosen formatter; reports written '
              'after the run', 'the XML wrapper is not installed / the reports are not written under '
              'options.xmlOutput', key='install', func=fc.qualname, where=ctx.where(fc, fc.node))


def _is_classname_expr(e):
    """``get_test_class_name(test)`` or, written out, ``<test>.__module__ + '.' + <test>.__class__.__name__``
    as an f-string / %-format / concatenation with exactly the separator '.'"""
    if isinstance(e, ast.Call) and call_name(e) == 'get_test_class_name':
        return True
    t = norm(e)
    if '.__module__' not in t or '.__class__.__name__' not in t:
        return False
    if isinstance(e, ast.JoinedStr):
        consts = [v.value for v in e.values if isinstance(v, ast.Constant)]
        vals = [v for v in e.values if isinstance(v, ast.FormattedValue)]
        return consts == ['.'] and len(vals) == 2 and '__module__' in norm(vals[0].value)
    if isinstance(e, ast.BinOp) and isinstance(e.op, ast.Mod) and isinstance(e.left, ast.Constant):
        return e.left.value == '%s.%s' and isinstance(e.right, ast.Tuple) and \
            '__module__' in norm(e.right.elts[0])
    if isinstance(e, ast.BinOp) and isinstance(e.op, ast.Add):
        parts = []

        def flat(x):
            if isinstance(x, ast.BinOp) and isinstance(x.op, ast.Add):
                flat(x.left)
                flat(x.right)
            else:
                parts.append(x)
        flat(e)
        return len(parts) == 3 and isinstance(parts[1], ast.Constant) and parts[1].value == '.' and \
            '__module__' in norm(parts[0])
    if isinstance(e, ast.Call) and isinstance(e.func, ast.Attribute) and e.func.attr == 'join' and \
            isinstance(e.func.value, ast.Constant) and e.func.value.value == '.':
        return True
    return False


def r5_own_class_and_name(ctx, rep, R='C17.R5'):
    rep.rule(R, 'a unittest test case is recorded under its own class and name: the class name is '
             '<module>.<class> of the test object and the test name is the test id with exactly '
             'that prefix removed (an injective mapping; cutting at the last dot would merge '
             'generated names such as test_ratio_0.5 and test_scale_1.5)')
    from .common import single_assignments
    m = ctx.model
    fi = m.func('formatter.parse_unittest')
    env = single_assignments(fi.node)
    rets = [n for n in ast.walk(fi.node) if isinstance(n, ast.Return) and
            isinstance(n.value, ast.Tuple) and len(n.value.elts) == 3 and
            not all(isinstance(e, ast.Constant) for e in n.value.elts)]
    if len(rets) != 1:
        rep.undecide(R, 'parse_unittest', 'expected one non-trivial return of a triple')
        return

    def val(e):
        for _ in range(3):
            if isinstance(e, ast.Name) and e.id in env:
                e = env[e.id]
        return e
    suite, name, cls = [val(e) for e in rets[0].value.elts]
    idv = [k for k, v in env.items() if isinstance(v, ast.Call) and isinstance(v.func, ast.Attribute)
           and v.func.attr == 'id']
    okc = _is_classname_expr(cls) and norm(suite) == norm(cls)
    rep.check(okc, R, 'class name and suite are get_test_class_name(test)',
              'the recorded class is %s' % norm(cls), key='own:class', func=fi.qualname,
              where=ctx.where(fi, rets[0]))
    verdict, why = None, ''
    clsnames = {k for k, v in env.items() if _is_classname_expr(v)}
    if isinstance(name, ast.Subscript) and isinstance(name.value, ast.Name) and \
            name.value.id in idv and isinstance(name.slice, ast.Slice) and name.slice.upper is None:
        lo = val(name.slice.lower) if name.slice.lower is not None else None
        t = norm(lo) if lo is not None else ''
        for _k in range(2):        # prefixLength = len(testClassName) + 1
            if lo is not None and isinstance(lo, ast.Name) and lo.id in env:
                lo = env[lo.id]
                t = norm(lo)
        if any(t in ('len(%s) + 1' % c, '1 + len(%s)' % c, "len(%s + '.')" % c) for c in clsnames):
            verdict = True
        else:
            verdict, why = False, 'the id is cut at %s, not at the end of the class prefix' % t
    elif isinstance(name, ast.Call) and isinstance(name.func, ast.Attribute) and \
            name.func.attr == 'removeprefix' and name.args and \
            any(norm(name.args[0]) == "%s + '.'" % c for c in clsnames):
        verdict = True
    elif any(isinstance(x, ast.Attribute) and x.attr in ('rpartition', 'rsplit', 'split', 'partition')
             for x in ast.walk(name)):
        verdict, why = False, ('the test name is a dot-separated component of the id (%s): distinct '
                               'tests whose names contain dots collapse onto one name' % norm(name))
    if verdict is None:
        rep.undecide(R, 'parse_unittest: test name', 'the test name is %s' % norm(name))
        return
    rep.check(verdict, R, 'test name = id with the "<class name>." prefix removed', why,
              key='own:name', func=fi.qualname, where=ctx.where(fi, rets[0]))
    if not (isinstance(cls, ast.Call) and call_name(cls) == 'get_test_class_name'):
        return                     # written out in place; checked above
    gc_ = m.func('formatter.get_test_class_name')
    rr = [n for n in ast.walk(gc_.node) if isinstance(n, ast.Return)]
    from .common import expander
    rtxt = norm(expander(gc_.node)(rr[0].value)) if len(rr) == 1 else ''
    okg = len(rr) == 1 and '__module__' in rtxt and '__class__.__name__' in rtxt and \
        rtxt.index('__module__') < rtxt.index('__class__.__name__')
    rep.check(okg, R, 'get_test_class_name = <test.__module__>.<test.__class__.__name__>',
              'the class name is computed as %s' % (norm(rr[0].value) if rr else '?'), key='own:getclass',
              func=gc_.qualname, where=ctx.where(gc_, gc_.node))


# ---------------------------------------------------------------------------------------------
# R6 -- the recorder / writer is total on the strings tests produce

def _seq_len(e, g, nid, depth=0):
    """lower / upper bound knowledge of the length of the sequence *e*: ('min', n) when at least n
    elements are guaranteed for EVERY receiver string, ('maybe-empty', why) when some string makes
    it empty, None when unknown"""
    from .common import reaching_defs
    if isinstance(e, ast.Call) and isinstance(e.func, ast.Attribute):
        a = e.func.attr
        if a in ('split', 'rsplit'):
            sep = e.args[0] if e.args else None
            for k in e.keywords:
                if k.arg == 'sep':
                    sep = k.value
            if sep is None or (isinstance(sep, ast.Constant) and sep.value is None):
                return ('maybe-empty', 'str.%s() without a separator returns [] for an empty or '
                        'all-whitespace string' % a)
            return ('min', 1)
        if a == 'splitlines':
            return ('maybe-empty', 'str.splitlines() returns [] for the empty string')
        if a in ('partition', 'rpartition'):
            return ('min', 3)
    if isinstance(e, (ast.Tuple, ast.List)) and not any(isinstance(x, ast.Starred) for x in e.elts):
        return ('min', len(e.elts))
    if isinstance(e, ast.Name) and depth < 3 and g is not None:
        ds = reaching_defs(g, nid, e.id)
        rs = [_seq_len(d, g, nid, depth + 1) if isinstance(d, ast.expr) else None for d in ds]
        if rs and all(r is not None for r in rs):
            bad = [r for r in rs if r[0] == 'maybe-empty']
            if bad:
                return bad[0]
            return ('min', min(r[1] for r in rs))
    return None


def r6_writer_total_on_strings(ctx, rep, R='C17.R6'):
    rep.rule(R, 'the recorder and the report writer are total on the strings tests produce (raise-'
             'source catalogue): in XMLOutputFormattingWrapper and the name parsers it calls, a '
             'constant index into the result of a string-splitting method is in range for EVERY '
             'string -- split/rsplit with a separator yield at least one part, partition three; '
             'splitlines() and separator-less split() yield none for an empty (blank) message, so '
             '[0] on them raises IndexError, the writing loop is left and the reports of that and '
             'all later suites are missing.  Sequences of unknown origin are not judged')
    m = ctx.model
    cls = None
    for ci in m.all_classes():
        if ci.name == 'XMLOutputFormattingWrapper':
            cls = ci
    scope = list(cls.methods.values()) if cls is not None else []
    seen = {f.qualname for f in scope}
    todo = list(scope)
    while todo:
        f = todo.pop()
        for c in ast.walk(f.node):
            if isinstance(c, ast.Name) and isinstance(c.ctx, ast.Load):
                # called directly or handed around as a value (the parser table of _record)
                r = f.module.functions.get(c.id)
                if r is not None and r.qualname not in seen:
                    seen.add(r.qualname)
                    scope.append(r)
                    todo.append(r)
    n = 0
    for f in scope:
        g = None
        for sub in ast.walk(f.node):
            if not (isinstance(sub, ast.Subscript) and isinstance(sub.ctx, ast.Load)):
                continue
            idx = sub.slice
            if isinstance(idx, ast.UnaryOp) and isinstance(idx.op, ast.USub) and \
                    isinstance(idx.operand, ast.Constant) and isinstance(idx.operand.value, int):
                need = idx.operand.value
            elif isinstance(idx, ast.Constant) and isinstance(idx.value, int) and \
                    not isinstance(idx.value, bool):
                need = idx.value + 1
            else:
                continue
            if g is None:
                g = ctx.cfg(f)
            nid = None
            for nd in g.nodes:
                if nd.ast is not None and any(x is sub for x in ast.walk(nd.ast)):
                    nid = nd.id
                    break
            if nid is None:
                continue
            r = _seq_len(sub.value, g, nid)
            if r is None:
                continue
            n += 1
            ok = r[0] == 'min' and r[1] >= need
            rep.check(ok, R, '%s: %s in range for every string' % (f.qualname, norm(sub)),
                      '%s: %s' % (norm(sub), r[1] if r[0] == 'maybe-empty' else
                                  'only %d element(s) are guaranteed' % r[1]),
                      key='index:%s:%s' % (f.qualname, norm(sub)), func=f.qualname,
                      where=ctx.where(f, sub))
    rep.floor(R, n, 2, 'constant indexes into split results')
    rep.units.setdefault('scope', {})[R] = sorted(seen)


# ---------------------------------------------------------------------------------------------
# R7 -- one report file per suite

LOSSY_METHODS = ('sub', 'subn', 'replace', 'lower', 'upper', 'casefold', 'strip', 'lstrip', 'rstrip',
                 'translate', 'title', 'capitalize', 'split', 'rsplit', 'partition', 'rpartition',
                 'removeprefix', 'removesuffix', 'expandtabs', 'swapcase')


def r7_one_file_per_suite(ctx, rep, R='C17.R7'):
    rep.rule(R, 'every suite gets a report file of its own: the file name is an injective function of '
             'the suite name (the key of the suite table) -- the name itself with constant text '
             'around it, joined to the reports directory.  Anything that maps different names to one '
             'string (character substitution, case folding, stripping, slicing, lossy encoding) lets '
             'two suites share a file: the later report overwrites the earlier and the tests of that '
             'suite appear in no report')
    from .common import reaching_defs
    fi = ctx.model.func(FN)
    g = ctx.cfg(fi)
    loops = [n for n in g.nodes if n.kind == 'for' and '_testSuites' in norm(n.stmt.iter)]
    if len(loops) != 1 or not isinstance(loops[0].stmt.target, ast.Tuple):
        rep.assume('%s not applied: no single loop over the (name, suite) pairs of the suite table' % R)
        return
    key = loops[0].stmt.target.elts[0]
    if not isinstance(key, ast.Name):
        rep.assume('%s not applied: the key of the suite table is not bound to a plain name' % R)
        return
    K = key.id
    opens = []
    for n in g.nodes:
        if n.ast is None:
            continue
        for c in ast.walk(n.ast):
            if isinstance(c, ast.Call) and ((isinstance(c.func, ast.Name) and c.func.id == 'open') or
                                            (isinstance(c.func, ast.Attribute) and
                                             c.func.attr in ('open', 'write_text', 'write_bytes'))):
                tgt = c.args[0] if isinstance(c.func, ast.Name) and c.args else (
                    c.func.value if isinstance(c.func, ast.Attribute) else None)
                if tgt is not None and any(x is n.ast or True for x in [0]) and \
                        any(x is c for x in ast.walk(loops[0].stmt)):
                    opens.append((n, c, tgt))
    rep.floor(R, len(opens), 1, 'places where a report file is opened')

    def judge(e, nid, depth=0):
        """'inj' (injective in K), 'const' (does not depend on K), ('lossy', why), or None"""
        if isinstance(e, ast.Constant):
            return 'const'
        if isinstance(e, ast.Name):
            if e.id == K:
                return 'inj'
            if depth > 4:
                return None
            ds = reaching_defs(g, nid, e.id)
            if not ds:
                return 'const'                       # parameter / module name
            rs = [judge(d, nid, depth + 1) if isinstance(d, ast.expr) else None for d in ds]
            if any(isinstance(r, tuple) for r in rs):
                return [r for r in rs if isinstance(r, tuple)][0]
            if all(r == 'const' for r in rs):
                return 'const'
            if all(r == 'inj' for r in rs):
                return 'inj'
            return None
        if isinstance(e, ast.JoinedStr):
            parts = [judge(v.value, nid, depth) if isinstance(v, ast.FormattedValue) else 'const'
                     for v in e.values]
            for v in e.values:
                if isinstance(v, ast.FormattedValue) and (v.format_spec is not None or v.conversion not in (-1, 115)):
                    if judge(v.value, nid, depth) == 'inj':
                        return ('lossy', 'the name is formatted with a conversion / format spec in %s' % norm(e))
            return combine(parts)
        if isinstance(e, ast.BinOp) and isinstance(e.op, (ast.Add, ast.Div)):
            return combine([judge(e.left, nid, depth), judge(e.right, nid, depth)])
        if isinstance(e, ast.BinOp) and isinstance(e.op, ast.Mod):
            r = judge(e.right, nid, depth)
            if isinstance(e.left, ast.Constant) and isinstance(e.left.value, str):
                import re as _re
                if r == 'inj' and _re.search(r'%[-#0 +]*\d*\.\d+s', e.left.value):
                    return ('lossy', 'the name is truncated by the format %r' % e.left.value)
                return r if r in ('inj', 'const') or isinstance(r, tuple) else None
            return None
        if isinstance(e, ast.Tuple):
            return combine([judge(x, nid, depth) for x in e.elts])
        if isinstance(e, ast.Subscript):
            r = judge(e.value, nid, depth)
            if r == 'inj' and isinstance(e.slice, ast.Slice):
                return ('lossy', 'only a slice of the name is used (%s)' % norm(e))
            return 'const' if r == 'const' else None
        if isinstance(e, ast.Attribute):
            r = judge(e.value, nid, depth)
            return 'const' if r == 'const' else None
        if isinstance(e, ast.Call):
            args = list(e.args) + [k.value for k in e.keywords]
            rs = [judge(a, nid, depth) for a in args]
            if isinstance(e.func, ast.Attribute):
                recv = judge(e.func.value, nid, depth)
                if e.func.attr in LOSSY_METHODS and (recv == 'inj' or 'inj' in rs):
                    return ('lossy', '%s maps different names to the same string' % norm(e)[:70])
                if e.func.attr == 'encode' and recv == 'inj':
                    errs = [k.value for k in e.keywords if k.arg == 'errors'] + list(e.args[1:2])
                    if errs and isinstance(errs[0], ast.Constant) and errs[0].value in ('replace', 'ignore'):
                        return ('lossy', 'the name is encoded with errors=%r' % errs[0].value)
                if e.func.attr in ('joinpath', 'join', 'format'):
                    return combine([recv] + rs)
                if recv == 'const' and all(r == 'const' for r in rs):
                    return 'const'
                for t in [r for r in [recv] + rs if isinstance(r, tuple)]:
                    return t
                return None
            if isinstance(e.func, ast.Name):
                if e.func.id in ('str', 'Path', 'PurePath', 'quote', 'quote_plus', 'repr'):
                    return combine(rs)
                if all(r == 'const' for r in rs):
                    return 'const'
                for t in [r for r in rs if isinstance(r, tuple)]:
                    return t
            return None
        return None

    def combine(parts):
        for p_ in parts:
            if isinstance(p_, tuple):
                return p_
        if any(p_ is None for p_ in parts):
            return None
        n_inj = sum(1 for p_ in parts if p_ == 'inj')
        return 'inj' if n_inj >= 1 else 'const'
    for n, c, tgt in opens:
        r = judge(tgt, n.id)
        if isinstance(r, tuple):
            rep.bad(R, 'the report file name is an injective function of the suite name', r[1] +
                    ': two suites whose names differ only there write to the same file, the later '
                    'report overwrites the earlier', key='file-name-lossy', func=fi.qualname,
                    where=ctx.where(fi, c))
        elif r == 'const':
            rep.bad(R, 'the report file name depends on the suite name', 'the file that is opened (%s) '
                    'does not depend on the suite name: every suite writes to the same file' % norm(tgt),
                    key='file-name-const', func=fi.qualname, where=ctx.where(fi, c))
        elif r == 'inj':
            rep.ok(R, 'report file %s: the suite name with constant text around it' % norm(tgt))
        else:
            rep.assume('%s: how the report file name %s depends on the suite name is not of a form '
                       'this rule reads' % (R, norm(tgt)))


def r10_reports_written_once(ctx, rep, R='C17.R10'):
    rep.rule(R, 'each report file is written once, from everything recorded for its suite: '
             'writeXMLReports is called from Runner.run only (after the test phase and the report '
             'hooks), and the table of recorded suites only grows (setdefault / append) -- an earlier '
             'flush followed by forgetting, or a second flush, rewrites <suite>.xml with the testcases '
             'of the last layer only when one suite has tests in several layers')
    m = ctx.model
    sites = []
    for fi in m.all_functions():
        if fi.module.name.startswith('tests'):
            continue
        for c in own_calls(fi.node):
            if isinstance(c.func, ast.Attribute) and c.func.attr == 'writeXMLReports':
                sites.append((fi, c))
    ok = len(sites) == 1 and sites[0][0].qualname == 'runner.Runner.run'
    rep.check(ok, R, 'writeXMLReports is called once, from Runner.run',
              'writeXMLReports is called from %s' % [f.qualname for f, _ in sites], key='xml:flush-sites',
              func=sites[0][0].qualname if sites else '', where=ctx.where(sites[-1][0], sites[-1][1]) if sites else '')
    if ok:
        fr, c = sites[0]
        g = ctx.cfg(fr)
        from .common import node_of, nodes_calling
        cn = node_of(g, c)
        rt = nodes_calling(g, lambda x: isinstance(x.func, ast.Attribute) and x.func.attr == 'run_tests')
        after = cn is not None and rt and all(cn in g.reach([r_]) for r_ in rt) and \
            not any(r_ in g.reach([cn]) for r_ in rt)
        rep.check(bool(after), R, 'the reports are written after the test phase, not during it',
                  'writeXMLReports can run before / between the layers', key='xml:flush-order',
                  func=fr.qualname, where=ctx.where(fr, c))
    w = m.cls('formatter.XMLOutputFormattingWrapper')
    bad = []
    for fi in w.methods.values():
        for x in ast.walk(fi.node):
            if isinstance(x, ast.Call) and isinstance(x.func, ast.Attribute) and \
                    dotted(x.func.value) == 'self._testSuites' and x.func.attr in ('clear', 'pop', 'popitem'):
                bad.append((fi, x))
            if isinstance(x, ast.Delete) and any('self._testSuites' in norm(t) for t in x.targets):
                bad.append((fi, x))
            if isinstance(x, ast.Assign) and any(dotted(t) == 'self._testSuites' for t in x.targets) and \
                    fi.name != '__init__':
                bad.append((fi, x))
    rep.check(not bad, R, 'the recorded suites are never forgotten while the process runs',
              'recorded test cases are dropped (%s): a later flush rewrites the report without them'
              % '; '.join('%s: %s' % (f.name, norm(x)[:40]) for f, x in bad[:2]), key='xml:forget',
              func=bad[0][0].qualname if bad else w.qualname,
              where=ctx.where(bad[0][0], bad[0][1]) if bad else '')


def r11_report_folder_fixed_early(ctx, rep, R='C17.R11'):
    rep.rule(R, 'the reports land in the folder the user named: the --xml value is made absolute '
             '(Path.resolve / os.path.abspath) in Runner.configure, i.e. before any test or layer can '
             'change the working directory, and that absolute path is what the wrapper writes to; a '
             'relative path kept until writeXMLReports is interpreted against wherever a test left the '
             'process')
    m = ctx.model
    fc = m.func('runner.Runner.configure')
    from .common import sources_of
    assigns = local_assignments(fc.node)
    inst = [c for c in own_calls(fc.node) if (dotted(c.func) or '').endswith('XMLOutputFormattingWrapper')]
    ok = False
    why = 'the XML wrapper is not created in Runner.configure'
    for c in inst:
        f = kw(c, 'folder') or (c.args[1] if len(c.args) > 1 else None)
        why = 'the folder handed to the wrapper (%s) is not made absolute first' % (norm(f) if f is not None else '?')
        if f is None:
            continue
        todo, seen, absolute = [f], set(), False
        while todo:
            e = todo.pop()
            for x in ast.walk(e):
                if isinstance(x, ast.Call) and isinstance(x.func, ast.Attribute) and x.func.attr in ('resolve', 'absolute'):
                    absolute = True
                if isinstance(x, ast.Call) and (m.resolve_dotted(fc.module, dotted(x.func)) or '') in (
                        'os.path.abspath', 'os.path.realpath'):
                    absolute = True
                if isinstance(x, ast.Name) and x.id in assigns and x.id not in seen:
                    seen.add(x.id)
                    todo += [v for v in assigns[x.id] if isinstance(v, ast.AST)]
        ok = absolute
    rep.check(ok, R, 'Runner.configure: XMLOutputFormattingWrapper(folder=<absolute path of --xml>)', why,
              key='xml:folder-absolute', func=fc.qualname, where=ctx.where(fc, inst[0] if inst else fc.node))
