"""C11 -- shuffle is a seed-determined permutation inside each layer (structure)."""
import ast

from sa.variance import path_literals
from .common import (Ctx, alias_dotted, call_name, dotted, is_name, kw, local_assignments, norm, own_calls,
                     sources_of)

P = 'C11'
CLS = 'shuffle.Shuffle'


def shuffle_fn(ctx):
    """the hook method of the Shuffle feature that re-writes the selection state"""
    from sa.srcmodel import AnalysisError
    cls = ctx.model.cls(CLS)
    def writes_state(fi):
        aliases = {'tests_by_layer_name'}
        for n in ast.walk(fi.node):
            if isinstance(n, ast.Assign) and len(n.targets) == 1 and isinstance(n.targets[0], ast.Name) \
                    and (dotted(n.value) or '').endswith('tests_by_layer_name'):
                aliases.add(n.targets[0].id)
        for n in ast.walk(fi.node):
            if isinstance(n, ast.Subscript) and isinstance(n.ctx, ast.Store) and \
                    (norm(n.value).split('.')[-1] in aliases):
                return True
            if isinstance(n, ast.Call) and isinstance(n.func, ast.Attribute) and \
                    n.func.attr in ('update', '__setitem__', 'setdefault') and \
                    norm(n.func.value).split('.')[-1] in aliases:
                return True
        return False
    found = [fi for fi in cls.methods.values() if writes_state(fi)]
    if len(found) != 1:
        raise AnalysisError('anchor vanished: the method of shuffle.Shuffle that stores the shuffled '
                            'suites in tests_by_layer_name (found %d)' % len(found))
    return found[0]


def hook_sequence(ctx):
    """[(hook name, 'fwd'|'rev')] in the order in which Runner.run invokes the feature hooks"""
    fr = ctx.model.func('runner.Runner.run')
    seq = []

    def visit(body):
        for st in body:
            if isinstance(st, ast.For) and 'self.features' in norm(st.iter):
                for c in ast.walk(st):
                    if isinstance(c, ast.Call) and isinstance(c.func, ast.Attribute) and \
                            is_name(c.func.value, getattr(st.target, 'id', None)):
                        seq.append((c.func.attr, 'rev' if 'reversed' in norm(st.iter) else 'fwd'))
            elif isinstance(st, ast.Expr) and isinstance(st.value, ast.Call) and \
                    norm(st.value.func) == 'self.run_tests':
                seq.append(('<run_tests>', 'fwd'))
            else:
                for fld in ('body', 'orelse', 'finalbody'):
                    visit(getattr(st, fld, []) or [])
                for h in getattr(st, 'handlers', []) or []:
                    visit(h.body)
    visit(fr.node.body)
    return seq


def run(model, rep, tier):
    ctx = Ctx(model)
    r1_permutation(ctx, rep)
    r2_rng_discipline(ctx, rep)
    r3_feature_order(ctx, rep)
    r4_seed_propagation(ctx, rep)
    r5_seed_reported(ctx, rep)
    r7_mode_independent(ctx, rep)
    r8_given_seed_is_used(ctx, rep)
    from . import robust
    robust.asserts_have_no_effects(ctx, rep, 'C11.R20', 'C11')
    rep.units['cfg'] = ctx.cfg_stats


def _swap(st, L):
    """``L[a], L[b] = L[b], L[a]``"""
    if not (isinstance(st, ast.Assign) and len(st.targets) == 1 and
            isinstance(st.targets[0], ast.Tuple) and isinstance(st.value, ast.Tuple) and
            len(st.targets[0].elts) == 2 and len(st.value.elts) == 2):
        return False
    t, v = st.targets[0].elts, st.value.elts
    if not all(isinstance(x, ast.Subscript) and is_name(x.value, L) and
               not isinstance(x.slice, ast.Slice) for x in list(t) + list(v)):
        return False
    return norm(t[0].slice) == norm(v[1].slice) and norm(t[1].slice) == norm(v[0].slice)


def r1_permutation(ctx, rep, R='C11.R1'):
    rep.rule(R, 'permutation by construction: for each layer the new suite is built from '
             'list(<that layer\'s suite>) which is modified only by swap assignments '
             'L[i], L[j] = L[j], L[i], and stored back under the same layer key')
    fi = shuffle_fn(ctx)
    loops = [n for n in ast.walk(fi.node) if isinstance(n, ast.For) and
             'tests_by_layer_name' in norm(n.iter) and isinstance(n.target, ast.Tuple) and
             len(n.target.elts) == 2]
    if len(loops) != 1:
        rep.undecide(R, 'layer loop', 'expected one loop over tests_by_layer_name.items()')
        return
    lp = loops[0]
    key, suite = [e.id if isinstance(e, ast.Name) else None for e in lp.target.elts]
    it = lp.iter
    srt = isinstance(it, ast.Call) and dotted(it.func) == 'sorted' and len(it.args) == 1 and \
        norm(it.args[0]).endswith('tests_by_layer_name.items()') and not it.keywords
    rep.check(srt, R, 'layers are visited in sorted name order (the random stream is consumed in a '
              'deterministic order)', 'the layer loop iterates %s' % norm(it), key='layer-order',
              func=fi.qualname, where=ctx.where(fi, lp))
    L = None
    for n in ast.walk(lp):
        if isinstance(n, ast.Assign) and isinstance(n.targets[0], ast.Name) and \
                isinstance(n.value, ast.Call) and dotted(n.value.func) == 'list' and \
                len(n.value.args) == 1 and is_name(n.value.args[0], suite):
            L = n.targets[0].id
            Ldef = n
    rep.check(L is not None, R, 'working list = list(suite) of the same layer',
              'no list(<suite of this layer>) found', key='list', func=fi.qualname,
              where=ctx.where(fi, lp))
    if L is None:
        return
    bad = []
    swaps = 0
    stores = []
    for st in ast.walk(lp):
        if isinstance(st, ast.Assign):
            if st is Ldef:
                continue
            if _swap(st, L):
                swaps += 1
                continue
            for t in st.targets:
                for x in ast.walk(t):
                    if isinstance(x, ast.Name) and x.id == L and isinstance(x.ctx, ast.Store):
                        bad.append(norm(st))
                    if isinstance(x, ast.Subscript) and is_name(x.value, L) and \
                            isinstance(x.ctx, ast.Store):
                        bad.append(norm(st))
            if any(isinstance(t, ast.Subscript) and 'tests_by_layer_name' in norm(t.value)
                   for t in st.targets):
                stores.append(st)
        elif isinstance(st, (ast.AugAssign, ast.Delete)):
            tg = [st.target] if isinstance(st, ast.AugAssign) else st.targets
            if any(isinstance(x, ast.Name) and x.id == L for t in tg for x in ast.walk(t)):
                bad.append(norm(st))
        elif isinstance(st, ast.Call) and isinstance(st.func, ast.Attribute) and \
                is_name(st.func.value, L):
            bad.append(norm(st))
        elif isinstance(st, ast.Call) and any(is_name(a, L) for a in st.args) and \
                dotted(st.func) not in ('len', 'range') and not any(st is s.value for s in stores):
            # passing the list to something that may mutate it (rng.shuffle(L), random.shuffle(L))
            par = getattr(st, '_parent', None)
            if not (isinstance(par, ast.Assign) and any(
                    isinstance(t, ast.Subscript) and 'tests_by_layer_name' in norm(t.value)
                    for t in par.targets)):
                bad.append(norm(st))
    rep.check(not bad and swaps >= 1, R, 'the working list is modified only by swap assignments '
              '(%d swap site)' % swaps, 'the working list is modified by %s' % bad if bad else
              'no swap assignment found', key='swap-only', func=fi.qualname, where=ctx.where(fi, lp))
    oks = len(stores) == 1
    if oks:
        st = stores[0]
        t = st.targets[0]
        oks = norm(t.slice) == key and isinstance(st.value, ast.Call) and len(st.value.args) == 1 \
            and is_name(st.value.args[0], L) and not st.value.keywords
    if oks:
        # ... and it is THIS iteration's list: within one pass of the layer loop every path to the
        # store goes through ``L = list(suite)`` (a list left over from the previous layer must not
        # be stored under this layer's key)
        g = ctx.cfg(fi)
        head = [n.id for n in g.nodes if n.kind == 'for' and n.stmt is lp]
        dn = [n.id for n in g.nodes if n.kind == 'stmt' and n.ast is Ldef]
        sn = [n.id for n in g.nodes if n.kind == 'stmt' and n.ast is stores[0]]
        fresh = bool(head) and bool(dn) and bool(sn)
        if fresh:
            body = [d for d, k in g.succ[head[0]] if k == 'true']
            r = g.reach(body, avoid=set(dn) | set(head), include_start=True)
            fresh = not any(x in r for x in sn)
        rep.check(fresh, R, 'the list stored for a layer is the one made from that layer\'s suite in '
                  'the same iteration', 'a pass of the layer loop can reach the store without '
                  '%s = list(%s): the list of the previous layer would be stored under this layer\'s '
                  'key (tests dropped here, duplicated from there)' % (L, suite), key='store-fresh',
                  func=fi.qualname, where=ctx.where(fi, stores[0]))
    rep.check(oks, R, 'stored back under the same key, built from the whole working list',
              'the shuffled list is not stored back as tests_by_layer_name[%s] = <suite>(%s)' % (key, L),
              key='store-back', func=fi.qualname, where=ctx.where(fi, lp))


def r2_rng_discipline(ctx, rep, R='C11.R2'):
    rep.rule(R, 'RNG discipline: the generator is a local random.Random seeded from self.seed; only '
             'its seed() and random() methods are used (random() is the only primitive whose '
             'stream the standard library keeps stable across versions); no module-level random '
             'function and no clock is used while shuffling')
    fi = shuffle_fn(ctx)
    m = ctx.model
    rngs = [n for n in ast.walk(fi.node) if isinstance(n, ast.Assign) and
            isinstance(n.value, ast.Call) and
            m.resolve_dotted(fi.module, dotted(n.value.func)) == 'random.Random']
    ok = len(rngs) == 1 and isinstance(rngs[0].targets[0], ast.Name)
    rep.check(ok, R, 'one local random.Random instance', 'found %d random.Random() instances'
              % len(rngs), key='rng:instance', func=fi.qualname, where=ctx.where(fi, fi.node))
    if not ok:
        return
    rng = rngs[0].targets[0].id
    seeded = rngs[0].value.args and dotted(rngs[0].value.args[0]) == 'self.seed'
    used = {}
    for c in own_calls(fi.node):
        if isinstance(c.func, ast.Attribute) and is_name(c.func.value, rng):
            used.setdefault(c.func.attr, []).append(c)
            if c.func.attr == 'seed':
                seeded = seeded or (c.args and dotted(c.args[0]) == 'self.seed')
                if not (c.args and dotted(c.args[0]) == 'self.seed'):
                    seeded = False
    for n in ast.walk(fi.node):
        if isinstance(n, ast.Name) and n.id == rng and isinstance(n.ctx, ast.Load):
            par = n._parent
            if not (isinstance(par, ast.Attribute) and isinstance(par._parent, ast.Call) and
                    par._parent.func is par):
                used.setdefault('<escapes>', []).append(n)
    rep.check(set(used) <= {'seed', 'random'} and 'random' in used, R,
              'rng methods used: %s' % sorted(used),
              'the generator is used through %s (only seed() and random() are version-stable)'
              % sorted(set(used) - {'seed', 'random'}), key='rng:methods', func=fi.qualname,
              where=ctx.where(fi, fi.node))
    rep.check(bool(seeded), R, 'the generator is seeded from self.seed',
              'the generator is not seeded from self.seed', key='rng:seed', func=fi.qualname,
              where=ctx.where(fi, rngs[0]))
    stray = []
    for c in own_calls(fi.node):
        d = m.resolve_dotted(fi.module, dotted(c.func)) or ''
        if (d.startswith('random.') and d != 'random.Random') or d.startswith('time.') or \
                d.startswith('os.urandom') or d.startswith('secrets.'):
            stray.append(d)
    rep.check(not stray, R, 'no module-level random function / clock in global_setup',
              'nondeterministic source(s) used while shuffling: %s' % stray, key='rng:stray',
              func=fi.qualname, where=ctx.where(fi, fi.node))


def feature_order(ctx):
    """the classes Runner.configure registers as features, in registration order.  The statements of
    the function are read in order: direct ``self.features.append(C(self))`` calls, and lists of
    classes built up (display, +=, append, extend; conditional parts in place) that a loop or a
    comprehension then instantiates into self.features."""
    fi = ctx.model.func('runner.Runner.configure')
    order, env = [], {}
    fnode = fi.node

    def is_feats(e):
        return (alias_dotted(fnode, e) or dotted(e) or '') == 'self.features'

    full = {}

    def cls_of(e):
        d = dotted(e)
        if d:
            full[d.split('.')[-1]] = d
        return d.split('.')[-1] if d else None

    def inst(e, var=None):
        """C(self) -> C ; f(self) with f == var -> var marker"""
        if isinstance(e, ast.Call) and e.args and is_name(e.args[0], 'self'):
            return cls_of(e.func)
        return None

    def elems(e):
        if isinstance(e, (ast.List, ast.Tuple)):
            out = [cls_of(x) for x in e.elts]
            return out if all(out) else None
        if isinstance(e, ast.Name) and e.id in env:
            return list(env[e.id])
        return None

    def walk(body):
        for st in body:
            if isinstance(st, ast.Assign) and len(st.targets) == 1 and isinstance(st.targets[0], ast.Name):
                ev = elems(st.value)
                if ev is not None and ev:
                    env[st.targets[0].id] = ev
            elif isinstance(st, ast.AugAssign) and isinstance(st.target, ast.Name) and \
                    isinstance(st.op, ast.Add) and st.target.id in env:
                ev = elems(st.value)
                if ev:
                    env[st.target.id] += ev
            elif isinstance(st, ast.Expr) and isinstance(st.value, ast.Call) and \
                    isinstance(st.value.func, ast.Attribute):
                c = st.value
                recv, meth = c.func.value, c.func.attr
                if is_feats(recv) and meth == 'append' and c.args:
                    k = inst(c.args[0])
                    if k:
                        order.append(k)
                elif is_feats(recv) and meth == 'extend' and c.args and \
                        isinstance(c.args[0], (ast.GeneratorExp, ast.ListComp)):
                    g0 = c.args[0].generators[0]
                    src = elems(g0.iter)
                    if src and isinstance(g0.target, ast.Name) and inst(c.args[0].elt) == g0.target.id:
                        order.extend(src)
                elif isinstance(recv, ast.Name) and recv.id in env and meth == 'append' and c.args:
                    k = cls_of(c.args[0])
                    if k:
                        env[recv.id].append(k)
                elif isinstance(recv, ast.Name) and recv.id in env and meth == 'extend' and c.args:
                    ev = elems(c.args[0])
                    if ev:
                        env[recv.id] += ev
            elif isinstance(st, ast.For) and isinstance(st.target, ast.Name):
                src = elems(st.iter)
                if src:
                    for x in ast.walk(st):
                        if isinstance(x, ast.Call) and isinstance(x.func, ast.Attribute) and \
                                x.func.attr == 'append' and is_feats(x.func.value) and x.args and \
                                inst(x.args[0]) == st.target.id:
                            order.extend(src)
                else:
                    walk(st.body)
            if isinstance(st, (ast.If, ast.With, ast.Try)):
                walk(st.body)
                walk(getattr(st, 'orelse', []) or [])
    walk(fnode.body)
    ctx.feature_dotted = full
    return fi, order


def r3_feature_order(ctx, rep, R='C11.R3'):
    rep.rule(R, 'feature order: Find < Shuffle < Filter < Listing in Runner.configure -- shuffling '
             'all layers before layer filtering is what makes filtered, listed and child runs '
             'consume the same random stream; the later clean-up of inactive features keeps the order')
    fi, order = feature_order(ctx)
    want = ['Find', 'Shuffle', 'Filter', 'Listing']
    idx = [order.index(w) if w in order else -1 for w in want]
    rep.check(all(i >= 0 for i in idx) and idx == sorted(idx), R,
              'registration order %s' % [o for o in order if o in want],
              'features are registered in the order %s; required Find < Shuffle < Filter < Listing'
              % [o for o in order if o in want], key='feature-order', func=fi.qualname,
              where=ctx.where(fi, fi.node))
    re_assign = [n for n in ast.walk(fi.node) if isinstance(n, ast.Assign) and any(
        dotted(t) == 'self.features' for t in n.targets)]
    ok = all(isinstance(n.value, ast.ListComp) and len(n.value.generators) == 1 and
             (alias_dotted(fi.node, n.value.generators[0].iter) or
              dotted(n.value.generators[0].iter)) == 'self.features' and
             is_name(n.value.elt, n.value.generators[0].target.id) for n in re_assign)
    muts = [c for c in own_calls(fi.node) if isinstance(c.func, ast.Attribute) and
            (alias_dotted(fi.node, c.func.value) or dotted(c.func.value)) == 'self.features' and c.func.attr in
            ('sort', 'reverse', 'insert', 'remove', 'pop')]
    rep.check(ok and not muts, R, 'the feature list is only filtered afterwards (order preserved)',
              'the feature list is reordered after registration', key='feature-order:kept',
              func=fi.qualname, where=ctx.where(fi, fi.node))
    # the shuffle happens in the same hook as -- and, by registration order, before -- the layer
    # filter (and in a hook that runs before the tests)
    sf = shuffle_fn(ctx)
    ff = ctx.model.func('filter.Filter.global_setup')
    seq = hook_sequence(ctx)
    names = [h for h, _d in seq]
    pos = {h: i for i, h in reversed(list(enumerate(names)))}
    okh = sf.name in pos and ff.name in pos and '<run_tests>' in pos and \
        pos[sf.name] <= pos[ff.name] < pos['<run_tests>'] and \
        (sf.name != ff.name or dict(seq)[sf.name] == 'fwd')
    rep.check(okh, R, 'Shuffle.%s runs before Filter.%s drops the unselected layers (hook sequence %s)'
              % (sf.name, ff.name, names),
              'the suites are shuffled in hook %s, which Runner.run invokes after %s of every feature: '
              'the layer filter (and a child\'s --resume-layer filter) has already removed layers, so '
              'the random stream consumed by a layer depends on which other layers were selected '
              '(hook sequence %s)' % (sf.name, ff.name, names), key='feature-order:hook',
              func=sf.qualname, where=ctx.where(sf, sf.node))
    fr = ctx.model.func('runner.Runner.run')
    loops = [n for n in ast.walk(fr.node) if isinstance(n, ast.For) and any(
        isinstance(c, ast.Call) and isinstance(c.func, ast.Attribute) and c.func.attr == 'global_setup'
        for c in ast.walk(n))]
    from . import c03
    c03.registers_everything(ctx, rep, R)
    rep.check(len(loops) == 1 and dotted(loops[0].iter) == 'self.features', R,
              'Runner.run calls global_setup in registration order',
              'global_setup is not called over self.features in order', key='feature-order:run',
              func=fr.qualname, where=ctx.where(fr, fr.node))


def r4_seed_propagation(ctx, rep, R='C11.R4'):
    rep.rule(R, 'the seed reaches every process: when Shuffle derives the seed from the clock it '
             'records it on the options, and spawn_layer_in_subprocess appends --shuffle-seed '
             '<options.shuffle_seed> to the child command line whenever shuffling is on')
    m = ctx.model
    init = m.func('shuffle.Shuffle.__init__')
    g = ctx.cfg(init)
    assigns = local_assignments(init.node)
    clock = [x for x in g.nodes if x.kind == 'stmt' and isinstance(x.ast, ast.Assign) and
             any((m.resolve_dotted(init.module, dotted(c.func)) or '').startswith('time.')
                 for c in ast.walk(x.ast.value) if isinstance(c, ast.Call) and dotted(c.func))]
    ok = True
    if clock:
        tnames = {dotted(t) for x in clock for t in x.ast.targets if dotted(t)}
        rec = [x.id for x in g.nodes if x.kind == 'stmt' and isinstance(x.ast, ast.Assign) and any(
            (dotted(t) or '').endswith('options.shuffle_seed') for t in x.ast.targets) and
            (sources_of(x.ast.value, {}) & tnames)]
        okp, _ = g.every_path_passes([x.id for x in clock], [g.exit], set(rec))
        ok = bool(rec) and okp
    rep.check(ok, R, 'Shuffle.__init__: a clock-derived seed is stored in options.shuffle_seed',
              'the seed derived from the clock is not recorded on the options: child processes '
              'cannot be given it', key='seed:recorded', func=init.qualname, where=ctx.where(init, init.node))
    stores = [n for n in ast.walk(init.node) if isinstance(n, ast.Assign) and any(
        dotted(t) == 'self.seed' for t in n.targets)]
    src = set()
    for n in stores:
        src |= sources_of(n.value, assigns)
    rep.check(bool(stores) and any(x.endswith('options.shuffle_seed') for x in src), R,
              'Shuffle takes an explicit --shuffle-seed from the options',
              'self.seed is not initialised from options.shuffle_seed (sources: %s)' % sorted(src),
              key='seed:explicit', func=init.qualname, where=ctx.where(init, init.node))
    sp = m.func('runner.spawn_layer_in_subprocess')
    from .c03 import cmdline_list_name
    ARGS = cmdline_list_name(sp)
    ext = [c for c in own_calls(sp.node) if isinstance(c.func, ast.Attribute) and
           c.func.attr in ('extend', 'append') and is_name(c.func.value, ARGS) and c.args and
           '--shuffle-seed' in norm(c.args[0])]
    # args += [...] is the same addition
    class _Add:
        def __init__(self, st):
            self.args, self.st = [st.value], st
            self._parent = getattr(st, '_parent', None)
            self.lineno = st.lineno
    aug = [n for n in ast.walk(sp.node) if isinstance(n, ast.AugAssign) and isinstance(n.op, ast.Add) and
           is_name(n.target, ARGS) and '--shuffle-seed' in norm(n.value)]
    anchor = {}
    for n in aug:
        a_ = _Add(n)
        anchor[id(a_)] = n
        ext.append(a_)
    ok = len(ext) == 1 and 'options.shuffle_seed' in norm(ext[0].args[0])
    if ok:
        lits = path_literals(anchor.get(id(ext[0]), ext[0]), sp.node)
        names = sorted((norm(e), pos) for e, pos in lits)
        ok = all(n in (('options.shuffle', True), ('options.shuffle_seed is None', False))
                 for n in names) and ('options.shuffle', True) in names
    rep.check(ok or not clock, R, 'spawn: --shuffle-seed <options.shuffle_seed> appended when '
              'options.shuffle', 'children are started without the seed of this process (each '
              'child would derive its own from the clock)', key='seed:child-args', func=sp.qualname,
              where=ctx.where(sp, sp.node))


    # "for every integer seed": the parser defines option strings that look like negative numbers
    # (-1); argparse then takes a separate word '-5' for an option, so an integer value must travel
    # attached to its option ('--shuffle-seed=-5'), never as a word of its own
    op = m.func('options.get_options').module
    neg_like = [c.value for n in ast.walk(op.tree) if isinstance(n, ast.Call) and
                isinstance(n.func, ast.Attribute) and n.func.attr == 'add_argument'
                for c in n.args if isinstance(c, ast.Constant) and isinstance(c.value, str)
                and len(c.value) > 1 and c.value[0] == '-' and c.value[1:].isdigit()]
    if ext and neg_like:
        a0 = ext[0].args[0]
        words = a0.elts if isinstance(a0, (ast.List, ast.Tuple)) else [a0]
        separate = any(isinstance(w, ast.Constant) and w.value == '--shuffle-seed' for w in words)
        rep.check(not separate, R, 'the seed is forwarded attached to its option (--shuffle-seed=N): '
                  'the parser has number-like options %s' % neg_like,
                  'the seed is forwarded as a word of its own; the option parser defines %s, so a '
                  'negative seed (\'-5\') is taken for an option and every child fails to start its '
                  'run' % neg_like, key='seed:one-word', func=sp.qualname, where=ctx.where(sp, anchor.get(id(ext[0]), ext[0])))


def r5_seed_reported(ctx, rep, R='C11.R5'):
    rep.rule(R, 'the seed is always reported: Shuffle.report passes a message containing self.seed '
             'to the formatter, unconditionally')
    fi = ctx.model.func('shuffle.Shuffle.report')
    calls = [c for c in own_calls(fi.node) if isinstance(c.func, ast.Attribute) and
             ctx.cg.is_formatter_receiver(c.func.value, fi)]
    ok = False
    conds = []
    from .common import guard_literals
    for c in calls:
        src = sources_of(c.args[0], local_assignments(fi.node)) if c.args else set()
        if 'self.seed' in src:
            # every mode that shuffles reports: a run, a listing (--list-tests clears do_run_tests);
            # only a layer subprocess may leave the line to its parent
            lits = [(norm(e), pos) for e, pos in guard_literals(ctx, fi, c)]
            extra = [l for l in lits if not (l[0].endswith('options.resume_layer') and l[1] is False)]
            conds = extra
            if not extra:
                ok = True
    rep.check(ok, R, 'Shuffle.report: output.info(<message with self.seed>) in every mode that shuffles',
              'the seed is not reported, or only under %s: a shuffled listing / run whose seed came from '
              'the clock cannot be reproduced' % conds, key='seed:report',
              func=fi.qualname, where=ctx.where(fi, fi.node))
    # "re-running with the reported seed reproduces the order": the number printed (with %d, i.e.
    # truncated to an integer) must be the value the generator was seeded with, so a seed the
    # program derives itself has to be an integer (random.Random(float) seeds from the float's hash)
    init = ctx.model.func('shuffle.Shuffle.__init__')
    n = 0
    for st in ast.walk(init.node):
        if isinstance(st, ast.Assign) and any(dotted(t) in ('self.seed',) or
                                              (dotted(t) or '').endswith('options.shuffle_seed')
                                              for t in st.targets):
            v = st.value
            if isinstance(v, ast.Name):
                vals = [x for x in local_assignments(init.node).get(v.id, []) if isinstance(x, ast.AST)]
            else:
                vals = [v]
            flat = []
            for x in vals:
                todo = [x]
                while todo:
                    y = todo.pop()
                    if isinstance(y, ast.BoolOp):
                        todo += y.values
                    elif isinstance(y, ast.IfExp):
                        todo += [y.body, y.orelse]
                    else:
                        flat.append(y)
            for x in flat:
                if (dotted(x) or '').endswith('shuffle_seed') or dotted(x) == 'self.seed':
                    continue                      # the user's --shuffle-seed (type=int) / a copy
                n += 1
                t = _int_typed(ctx, init, x)
                if t is None:
                    rep.undecide(R, 'seed type: %s' % norm(x), 'cannot tell whether the derived seed is an integer')
                    continue
                rep.check(t, R, 'derived seed %s is an integer' % norm(x),
                          'the seed the program derives (%s) is not an integer: the report prints it '
                          'with %%d, so the reported number is not the seed that was used and re-running '
                          'with it gives another order' % norm(x), key='seed:int', func=init.qualname,
                          where=ctx.where(init, st))
    rep.floor(R, n, 1, 'derived seed expressions')


def _int_typed(ctx, fi, e):
    """True: the expression is an int; False: it is (or may be) a float; None: unknown"""
    m = ctx.model
    if isinstance(e, ast.Constant):
        return isinstance(e.value, int) and not isinstance(e.value, bool) if not isinstance(e.value, float) else False
    if isinstance(e, ast.Call):
        d = m.resolve_dotted(fi.module, dotted(e.func)) if dotted(e.func) else None
        if d in ('int', 'len', 'round', 'time.time_ns', 'time.monotonic_ns', 'time.perf_counter_ns',
                 'os.getpid', 'hash', 'math.floor', 'math.ceil'):
            return True if not (d == 'round' and len(e.args) > 1) else None
        if d in ('time.time', 'time.monotonic', 'time.perf_counter', 'float', 'random.random'):
            return False
        return None
    if isinstance(e, ast.BinOp):
        a, b = _int_typed(ctx, fi, e.left), _int_typed(ctx, fi, e.right)
        if isinstance(e.op, ast.Div):
            return False
        if isinstance(e.op, (ast.Add, ast.Sub, ast.Mult, ast.FloorDiv, ast.Mod, ast.BitXor, ast.BitAnd,
                             ast.BitOr, ast.LShift, ast.RShift)):
            if a is False or b is False:
                return False
            return True if a and b else None
        if isinstance(e.op, ast.Pow):
            return None
    if isinstance(e, ast.UnaryOp) and isinstance(e.op, (ast.USub, ast.UAdd, ast.Invert)):
        return _int_typed(ctx, fi, e.operand)
    return None


# ---------------------------------------------------------------------------------------------
# R8 -- an explicitly given seed is the seed that is used, for every integer

def r8_given_seed_is_used(ctx, rep, R='C11.R8'):
    rep.rule(R, 'an explicitly given seed is used as it is, for every integer ("re-running with the '
             'reported seed reproduces the order"): abstract interpretation of Shuffle.__init__ over '
             'options.shuffle_seed in {None, 0, non-zero}: self.seed ends up as the given value in '
             'the last two cases (a truthiness test instead of "is None" loses the seed 0), and as a '
             'derived, non-None value in the first')
    init = ctx.model.func('shuffle.Shuffle.__init__')
    IN = 'options.shuffle_seed'

    def is_in(d):
        return d is not None and (d == IN or d.endswith('.' + IN))

    class Undecided(Exception):
        pass

    def truth(v):
        # v: ('in', kind) / 'derived' / 'none' / ('const', value) / 'other'
        if v == 'none':
            return False
        if v == 'derived':
            return True          # int(time.time() * 256) and the like: never 0 in practice
        if isinstance(v, tuple) and v[0] == 'in':
            return {'NONE': False, 'ZERO': False, 'NONZERO': True}[v[1]]
        if isinstance(v, tuple) and v[0] == 'const':
            return bool(v[1])
        return None

    def isnone(v):
        if v == 'none':
            return True
        if isinstance(v, tuple) and v[0] == 'in':
            return v[1] == 'NONE'
        if v == 'derived' or (isinstance(v, tuple) and v[0] == 'const'):
            return v == ('const', None)
        return None

    def ev(e, env, kind):
        d = dotted(e)
        if d is not None:
            if d in env:
                return env[d]
            if is_in(d):
                return env.get(IN, ('in', kind))
            return 'other'
        if isinstance(e, ast.Constant):
            return 'none' if e.value is None else ('const', e.value)
        if isinstance(e, ast.BoolOp):
            vals = [ev(x, env, kind) for x in e.values]
            for i, v in enumerate(vals):
                if i == len(vals) - 1:
                    return v
                t = truth(v)
                if t is None:
                    raise Undecided(norm(e))
                if t == isinstance(e.op, ast.Or):
                    return v
        if isinstance(e, ast.IfExp):
            c = cond(e.test, env, kind)
            if c is None:
                raise Undecided(norm(e.test))
            return ev(e.body if c else e.orelse, env, kind)
        if isinstance(e, ast.Call) and call_name(e) == 'int' and len(e.args) == 1 and \
                isinstance(ev(e.args[0], env, kind), tuple) and ev(e.args[0], env, kind)[0] == 'in' \
                and kind != 'NONE':
            return ev(e.args[0], env, kind)
        if any(isinstance(c, ast.Call) for c in ast.walk(e)):
            return 'derived'
        return 'other'

    def cond(t, env, kind):
        if isinstance(t, ast.UnaryOp) and isinstance(t.op, ast.Not):
            c = cond(t.operand, env, kind)
            return None if c is None else not c
        if isinstance(t, ast.Compare) and len(t.ops) == 1 and isinstance(t.comparators[0], ast.Constant) \
                and t.comparators[0].value is None and isinstance(t.ops[0], (ast.Is, ast.IsNot, ast.Eq, ast.NotEq)):
            n = isnone(ev(t.left, env, kind))
            if n is None:
                return None
            return n if isinstance(t.ops[0], (ast.Is, ast.Eq)) else not n
        if isinstance(t, ast.BoolOp):
            cs = [cond(x, env, kind) for x in t.values]
            if any(c is None for c in cs):
                return None
            return any(cs) if isinstance(t.op, ast.Or) else all(cs)
        return truth(ev(t, env, kind))

    finished = []

    def run_block(stmts, env, kind):
        """returns the list of environments at the end of the block; paths that end in a
        ``return`` are collected in *finished*"""
        envs = [env]
        for st in stmts:
            nxt = []
            for e_ in envs:
                if isinstance(st, ast.Assign):
                    v = ev(st.value, e_, kind)
                    e2 = dict(e_)
                    for t in st.targets:
                        if dotted(t):
                            e2[dotted(t)] = v
                            if is_in(dotted(t)):
                                e2[IN] = v
                    nxt.append(e2)
                elif isinstance(st, ast.If):
                    c = cond(st.test, e_, kind)
                    if c is None:
                        used = {dotted(x) for x in ast.walk(st.test) if dotted(x)}
                        if any(is_in(u) or u in e_ for u in used):
                            raise Undecided(norm(st.test))
                        nxt += run_block(st.body, dict(e_), kind) + run_block(st.orelse, dict(e_), kind)
                    else:
                        nxt += run_block(st.body if c else st.orelse, dict(e_), kind)
                elif isinstance(st, ast.Return):
                    finished.append(e_)
                elif isinstance(st, (ast.Expr, ast.Pass, ast.AnnAssign, ast.Assert)):
                    nxt.append(e_)
                else:
                    raise Undecided(norm(st)[:60])
            envs = nxt
        return envs

    bad = []
    n = 0
    try:
        for kind in ('NONE', 'ZERO', 'NONZERO'):
            del finished[:]
            # what get_options has already done to options.shuffle_seed (with --shuffle given)
            env0 = {}
            go = ctx.model.func('options.get_options')
            from .common import guard_literals
            for st in sorted((x for x in ast.walk(go.node) if isinstance(x, ast.Assign) and
                              any(is_in(dotted(t)) for t in x.targets)), key=lambda x: x.lineno):
                taken = True
                for e, pos in guard_literals(ctx, go, st):
                    if any(is_in(dotted(x)) for x in ast.walk(e) if dotted(x)):
                        c = cond(e, env0, kind)
                        if c is None:
                            raise Undecided(norm(e))
                        if c != pos:
                            taken = False
                if taken:
                    env0[IN] = ev(st.value, env0, kind)
            for env in run_block(init.node.body, dict(env0), kind) + finished:
                n += 1
                v = env.get('self.seed')
                if kind == 'NONE':
                    if v is None or isnone(v) is not False:
                        bad.append('no --shuffle-seed: self.seed is %s' % (v,))
                elif v != ('in', kind):
                    bad.append('--shuffle-seed %s: self.seed is %s instead of the given value' % (
                        '0' if kind == 'ZERO' else '<non-zero>', v if v is not None else 'not set'))
    except Undecided as e:
        rep.undecide(R, 'Shuffle.__init__: self.seed for every given seed', 'cannot evaluate %s' % e)
        return
    rep.check(not bad, R, 'Shuffle.__init__: self.seed is the given --shuffle-seed (0 included), else a '
              'derived value (%d paths)' % n,
              '; '.join(bad) + ': the order listed or run with that seed is not the order the seed '
              'stands for, and differs from invocation to invocation',
              key='seed:given', func=init.qualname, where=ctx.where(init, init.node))


# ---------------------------------------------------------------------------------------------
# R7 -- the shuffle does not depend on the execution mode

def r7_mode_independent(ctx, rep, R='C11.R7'):
    rep.rule(R, 'mode independence: the listing, the parent of a -j run and every child all call the '
             'same Shuffle hook and must get the same order from the same seed, so inside the hook '
             '(a) every path from the entry to a normal return passes the loop over the layers '
             '(no early return), and (b) no branch that reads an option other than the shuffle '
             'options themselves decides whether a layer is shuffled, a random number is drawn or '
             'the loop is left (any such branch makes the order a function of -j / --resume-layer / '
             '--list-tests / --layer)')
    fi = shuffle_fn(ctx)
    g = ctx.cfg(fi)
    heads = [n for n in g.nodes if n.kind == 'for' and 'tests_by_layer_name' in norm(n.stmt.iter)]
    if not heads:
        # the iterable may be held in a local
        for n in g.nodes:
            if n.kind == 'for' and any(isinstance(x, ast.Subscript) and isinstance(x.ctx, ast.Store) and
                                       'tests_by_layer_name' in norm(x.value) for x in ast.walk(n.stmt)):
                heads.append(n)
    outer = [h for h in heads if not any(h.stmt is not o.stmt and any(x is h.stmt for x in ast.walk(o.stmt))
                                         for o in heads)]
    if len(outer) != 1:
        rep.assume('C11.R7 not applied: no single loop over the layers in %s' % fi.qualname)
        return
    h = outer[0]
    def edge_ok(s_, d_, k_):
        if k_ == 'exc':
            return False
        sn = g.node(s_)
        if sn.kind == 'test':
            # a branch taken only when there is nothing to shuffle may skip the loop
            from sa.variance import split_literals
            for lit, pos in split_literals(sn.ast, k_ == 'true'):
                if not pos and 'tests_by_layer_name' in norm(lit) and \
                        isinstance(lit, (ast.Attribute, ast.Name)):
                    return False
        return True
    okp, w = g.every_path_passes([g.entry], [g.exit], {h.id}, include_start=True, edge_ok=edge_ok)
    rep.check(okp, R, '%s: every normal path passes the loop over the layers' % fi.qualname,
              'a path returns from %s without shuffling any layer: in the mode that takes it the '
              'order is the discovery order, not the one the seed determines' % fi.qualname,
              key='always-shuffles', func=fi.qualname, where=ctx.where(fi, fi.node),
              path=g.describe_path(w) if (not okp and w and hasattr(g, 'describe_path') and
                                          isinstance(w, (list, tuple))) else None)

    def reads_mode_option(e):
        for x in ast.walk(e):
            if isinstance(x, ast.Attribute) and isinstance(x.ctx, ast.Load):
                d = dotted(x) or ''
                parts = d.split('.')
                if 'options' in parts[:-1] and parts[-1] not in ('shuffle', 'shuffle_seed'):
                    return d
        return None

    def alters_shuffle(stmts):
        for st in stmts:
            for x in ast.walk(st):
                if isinstance(x, (ast.Return, ast.Continue, ast.Break)):
                    return True
                if isinstance(x, ast.Call) and isinstance(x.func, ast.Attribute) and \
                        x.func.attr in ('random', 'seed'):
                    return True
                if isinstance(x, ast.Subscript) and isinstance(x.ctx, ast.Store):
                    return True
        return False
    # locals that hold option values
    opt_locals = {}
    for n in ast.walk(fi.node):
        if isinstance(n, ast.Assign) and len(n.targets) == 1 and isinstance(n.targets[0], ast.Name):
            d = reads_mode_option(n.value)
            if d and not any(isinstance(x, ast.Call) for x in ast.walk(n.value)):
                opt_locals[n.targets[0].id] = d
    nb = 0
    for n in ast.walk(fi.node):
        if isinstance(n, (ast.If, ast.While)):
            d = reads_mode_option(n.test)
            if d is None:
                for x in ast.walk(n.test):
                    if isinstance(x, ast.Name) and x.id in opt_locals:
                        d = opt_locals[x.id]
            if d is None:
                continue
            nb += 1
            bad = alters_shuffle(n.body) or alters_shuffle(n.orelse)
            rep.check(not bad, R, 'branch on %s does not touch the shuffle' % d,
                      'whether a layer is shuffled / a random number is drawn depends on %s (%s)'
                      % (d, norm(n.test)), key='mode-branch:' + d, func=fi.qualname,
                      where=ctx.where(fi, n))
    rep.ok(R, '%d option-dependent branches in %s' % (nb, fi.qualname))
