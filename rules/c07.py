"""C07 -- subprocess result channel: nothing lost, nothing partial trusted (structural part)."""
import ast

from sa.variance import path_literals

from .common import (ANY_EXC, AnyCall, Ctx, T_open, call_name, calls_in, dotted, is_name, kw,
                     local_assignments, mentions, node_calls, nodes_calling, norm, own_calls,
                     params, truth_test)

P = 'C07'
WRITER = 'process.SubProcess.report'
WRITER_SETUP = 'process.SubProcess.global_setup'
READER = 'runner.spawn_layer_in_subprocess'


def run(model, rep, tier):
    ctx = Ctx(model)
    rep.assume('in the reader every statement of the try body that contains a call may raise any '
               'exception (AnyCall oracle); handler and finally bodies are assumed not to fail')
    r1_r2_wire(ctx, rep)
    r3_line_discipline(ctx, rep)
    r4_fail_closed(ctx, rep)
    r5_channel_separation(ctx, rep)
    r6_bookkeeping(ctx, rep)
    r8_noise_tolerance(ctx, rep)
    from . import c12
    c12.r3_accumulators(ctx, rep, R='C07.R7')
    from . import c02 as _c02
    _c02.accumulator_roles_through_calls(ctx, rep, 'C07.R7')
    # nothing lost: the parent waits for every child before it uses the totals -- a thread leaves
    # the set of running threads only when it is the one found dead, and the polling loop runs
    # until nothing is ready or running (the obligations of the -j scheduling loop, shared with C06)
    from . import c06
    c06.r1_bounded_start(ctx, rep, R='C07.R9')
    r10_report_only_after_completed_run(ctx, rep)
    r11_nothing_printed_after_the_report(ctx, rep)
    from . import lifetime
    rep.rule('C07.R12', "each run sees only its own inputs (rules/lifetime.py): no function of the package is memoised across runs (functools.lru_cache / cache), module-level containers that functions add to are emptied at the start of a run, no mutable class attribute is shared through instances (mutated in place or handed out without being re-bound per instance), and no option with a mutable argparse default is mutated in place after parsing -- a second run in the same process (other layer objects under the same names, other outcomes, other filters) must not inherit the first run's state")
    lifetime.check(ctx, rep, 'C07.R12')
    from . import robust
    robust.asserts_have_no_effects(ctx, rep, 'C07.R20', 'C07')
    rep.units['cfg'] = ctx.cfg_stats


# ------------------------------------------------------------------------------------------

_INLINED = {}


def writer_ast(ctx, fi):
    """the writer with its statement-level helpers inlined (one AST per model)"""
    from .common import inlined
    cache = getattr(ctx.model, '_inlined_writers', None)
    if cache is None:
        cache = ctx.model._inlined_writers = {}
    if fi.qualname not in cache:
        cache[fi.qualname] = inlined(ctx, fi)
    return cache[fi.qualname]


def _stderr_prints(fi, ctx=None):
    """print(...) calls of the writer (helpers inlined), in execution order of the body"""
    node = writer_ast(ctx, fi) if ctx is not None else fi.node
    out = []

    def walk(stmts):
        for st in stmts:
            for c in calls_in(st) if not isinstance(st, (ast.For, ast.While, ast.If, ast.Try, ast.With)) else []:
                if dotted(c.func) == 'print':
                    out.append(c)
            if isinstance(st, (ast.For, ast.While)):
                for c in calls_in(st.iter if isinstance(st, ast.For) else st.test):
                    if dotted(c.func) == 'print':
                        out.append(c)
            for fld in ('body', 'orelse', 'finalbody'):
                sub = getattr(st, fld, None)
                if isinstance(sub, list) and sub and isinstance(sub[0], ast.stmt):
                    walk(sub)
            for hd in getattr(st, 'handlers', []) or []:
                walk(hd.body)
    walk(node.body)
    return out


def _classify_writer_field(e):
    s = norm(e)
    if isinstance(e, ast.Call) and dotted(e.func) == 'len' and len(e.args) == 1:
        d = dotted(e.args[0]) or ''
        if d.endswith('.failures'):
            return 'NFAIL'
        if d.endswith('.errors'):
            return 'NERR'
        if d.endswith('.skipped'):
            return 'NSKIP'
    if (dotted(e) or '').endswith('.ran'):
        return 'RAN'
    return '?' + s


def _regex_matches_whole_line(call, consts):
    """(True/False/None, description) for ``PATTERN.match(line)`` / ``re.fullmatch(p, line)`` /
    ``NAME(line)`` with NAME = re.compile(p).match: does a match cover the whole line?"""
    try:
        import re._parser as sre_parse
    except ImportError:
        import sre_parse
    if not isinstance(call, ast.Call):
        return None, ''
    f = call.func
    if isinstance(f, ast.Name) and f.id in consts:
        f = consts[f.id]
    meth, pat = None, None
    if isinstance(f, ast.Attribute) and f.attr in ('match', 'fullmatch', 'search'):
        meth = f.attr
        base = f.value
        if dotted(base) == 're':
            pat = call.args[0] if call.args else None
        else:
            if isinstance(base, ast.Name) and base.id in consts:
                base = consts[base.id]
            if isinstance(base, ast.Call) and dotted(base.func) == 're.compile' and base.args:
                pat = base.args[0]
    if isinstance(pat, ast.Name) and pat.id in consts:
        pat = consts[pat.id]
    if meth is None or not (isinstance(pat, ast.Constant) and isinstance(pat.value, (str, bytes))):
        return None, ''
    if meth == 'search':
        return False, 're.search of %r' % (pat.value,)
    if meth == 'fullmatch':
        return True, ''
    try:
        tree = list(sre_parse.parse(pat.value))
    except Exception:
        return None, ''
    # strip trailing optional whitespace, then require an end anchor
    while tree and str(tree[-1][0]) in ('MAX_REPEAT', 'MIN_REPEAT') and tree[-1][1][0] == 0:
        tree.pop()
    if tree and str(tree[-1][0]) == 'AT' and str(tree[-1][1]) in ('AT_END', 'AT_END_STRING'):
        return True, ''
    return False, 'a prefix match (%s of %r, no end anchor)' % (meth, pat.value)


def _header_parse(g):
    """the reader node that unpacks the header line into (ran, nfail, nerr, ...)"""
    for n in g.nodes:
        if n.kind == 'stmt' and isinstance(n.ast, ast.Assign) and len(n.ast.targets) == 1 and \
                isinstance(n.ast.targets[0], (ast.Tuple, ast.List)) and \
                len(n.ast.targets[0].elts) >= 3 and 'int' in norm(_header_value(g, n.ast.value)):
            return n
    return None


def _header_value(g, v):
    """the expression that converts the fields: the unpacked value itself, or -- when the parsed
    tuple is first kept in a local (``header = tuple(int(f) for f in fields)`` ... ``a, b, c = header``)
    -- the value of the assignment of that local that holds the conversion"""
    if isinstance(v, ast.Name):
        cands = [n.ast.value for n in g.nodes if n.kind == 'stmt' and isinstance(n.ast, ast.Assign) and
                 any(is_name(t, v.id) for t in n.ast.targets) and 'int' in norm(n.ast.value)]
        if len(cands) == 1:
            return cands[0]
    return v


class Consumer:
    """one loop of the reader that moves announced names into an accumulator"""
    def __init__(self, head, counter, acc, form, strict, nexts, apps, decs):
        self.head, self.counter, self.acc, self.form = head, counter, acc, form
        self.strict = strict          # running out of lines raises (next() without default)
        self.nexts, self.apps, self.decs = nexts, apps, decs
        self.lineno = head.lineno
        self.expanded = False
        self.open_ended = False

    def __iter__(self):               # legacy tuple view
        return iter((self.head, self.counter, self.acc, self.nexts, self.apps, self.decs))


def _islice_counter(e):
    if isinstance(e, ast.Call) and dotted(e.func) in ('islice', 'itertools.islice') and \
            len(e.args) == 2 and isinstance(e.args[1], ast.Name):
        return e.args[1].id
    z = _zip_counter(e)
    return z[0] if z else None


def _zip_counter(e):
    """``zip(it, range(c))`` / ``zip(range(c), it)`` -> (c, position of the iterator argument)"""
    if isinstance(e, ast.Call) and dotted(e.func) == 'zip' and len(e.args) == 2 and not e.keywords:
        for i, a in enumerate(e.args):
            if isinstance(a, ast.Call) and dotted(a.func) == 'range' and len(a.args) == 1 and \
                    isinstance(a.args[0], ast.Name) and isinstance(e.args[1 - i], ast.Name):
                return a.args[0].id, 1 - i
    return None


def _sum_names(e):
    """[names] of ``a + b + c`` (None for a missing bound -> [] for lower, None for upper)"""
    if e is None:
        return None
    if isinstance(e, ast.Name):
        return [e.id]
    if isinstance(e, ast.BinOp) and isinstance(e.op, ast.Add):
        a, b = _sum_names(e.left), _sum_names(e.right)
        return None if a is None or b is None else a + b
    if isinstance(e, ast.Constant) and e.value == 0:
        return []
    return None


def _consumer_loops(ctx, fi, g):
    """constructs of the reader that move announced names into an accumulator, recognised forms:
       while c > 0: c -= 1; x = next(it); acc.append(f(x))          (strict)
       for _ in range(c): x = next(it); acc.append(f(x))             (strict)
       for x in islice(it, c): acc.append(f(x))                      (NOT strict: stops silently)
       acc.extend(f(x) for x in islice(it, c))                       (NOT strict)
    a loop ``for c, acc in ((c1, acc1), (c2, acc2))`` around one of them is expanded in order."""
    out = []
    ps = params(fi)
    for n in g.nodes:
        if n.kind == 'stmt' and isinstance(n.ast, ast.Expr) and isinstance(n.ast.value, ast.Call):
            c = n.ast.value
            if isinstance(c.func, ast.Attribute) and c.func.attr == 'extend' and \
                    isinstance(c.func.value, ast.Name) and c.args and \
                    isinstance(c.args[0], (ast.GeneratorExp, ast.ListComp)) and \
                    len(c.args[0].generators) == 1:
                it = c.args[0].generators[0].iter
                cnt = _islice_counter(it)
                if cnt is not None:
                    out.append(Consumer(n, cnt, c.func.value.id, 'extend-islice', False, [], [n.id], []))
                elif isinstance(it, ast.Subscript) and isinstance(it.slice, ast.Slice) and \
                        isinstance(it.value, ast.Name):
                    lo = _sum_names(it.slice.lower) if it.slice.lower is not None else []
                    up = _sum_names(it.slice.upper)
                    extra = [x for x in (up or []) if x not in (lo or [])] if up is not None else []
                    cnt = extra[0] if up is not None and lo is not None and len(extra) == 1 and \
                        len(up) == len(lo) + 1 else None
                    # running short is noticed if a length check against the counters raises first
                    strict = any(isinstance(x, ast.Raise) and any(
                        'len(%s)' % it.value.id in norm(e) for e, p_ in path_literals(x, fi.node))
                        for x in ast.walk(fi.node))
                    cons = Consumer(n, cnt or '<open-ended slice %s>' % norm(it.slice), c.func.value.id,
                                    'extend-slice', strict, [], [n.id], [])
                    cons.open_ended = cnt is None
                    out.append(cons)
            continue
        if n.kind == 'test' and isinstance(n.stmt, ast.While):
            t = n.ast
            if not (isinstance(t, ast.Compare) and isinstance(t.left, ast.Name) and len(t.ops) == 1):
                continue
            counter, form = t.left.id, 'while-next'
        elif n.kind == 'for' and _islice_counter(n.ast) is not None:
            counter, form = _islice_counter(n.ast), 'for-islice'
        elif n.kind == 'for' and isinstance(n.ast, ast.Call) and dotted(n.ast.func) == 'range' and \
                len(n.ast.args) == 1 and isinstance(n.ast.args[0], ast.Name):
            counter, form = n.ast.args[0].id, 'for-range-next'
        else:
            continue
        body_nodes = g.reach([d for d, k in g.succ[n.id] if k == 'true'], avoid={n.id},
                             include_start=True) & g.loop_nodes(n.id)
        nexts = [b for b in body_nodes if any(dotted(c.func) == 'next' for c in node_calls(g, b))]
        apps = []
        acc = None
        for b in body_nodes:
            for c in node_calls(g, b):
                if isinstance(c.func, ast.Attribute) and c.func.attr == 'append' and \
                        isinstance(c.func.value, ast.Name):
                    apps.append(b)
                    acc = c.func.value.id
        decs = [b for b in body_nodes if g.node(b).kind == 'stmt' and
                isinstance(g.node(b).ast, ast.AugAssign) and is_name(g.node(b).ast.target, counter)
                and isinstance(g.node(b).ast.op, ast.Sub)]
        if not apps or (form != 'for-islice' and not nexts):
            continue
        strict = form != 'for-islice' and all(
            len(c.args) == 1 for b in nexts for c in node_calls(g, b) if dotted(c.func) == 'next')
        out.append(Consumer(n, counter, acc, form, strict, nexts, apps, decs))
    # expansion of an enclosing loop over a literal tuple of (counter, accumulator) pairs
    res = []
    for cons in out:
        stmt = cons.head.stmt if cons.form != 'extend-islice' else cons.head.ast
        outer = None
        node = stmt
        while getattr(node, '_parent', None) is not None and node._parent is not fi.node:
            node = node._parent
            if isinstance(node, ast.For) and isinstance(node.target, ast.Tuple) and \
                    isinstance(node.iter, (ast.Tuple, ast.List)) and \
                    all(isinstance(e, (ast.Tuple, ast.List)) and len(e.elts) == len(node.target.elts)
                        and all(isinstance(x, ast.Name) for x in e.elts) for e in node.iter.elts):
                outer = node
                break
        tnames = [e.id for e in outer.target.elts if isinstance(e, ast.Name)] if outer else []
        if outer is not None and cons.counter in tnames and cons.acc in tnames:
            ci, ai = tnames.index(cons.counter), tnames.index(cons.acc)
            for k, e in enumerate(outer.iter.elts):
                c2 = Consumer(cons.head, e.elts[ci].id, e.elts[ai].id, cons.form, cons.strict,
                              cons.nexts, cons.apps, cons.decs)
                c2.lineno = cons.lineno + k * 1e-3
                c2.expanded = True
                res.append(c2)
        elif cons.acc in ps:
            res.append(cons)
    return res


def r1_r2_wire(ctx, rep, R1='C07.R1', R2='C07.R2'):
    rep.rule(R1, 'header agreement: the fields the child writes (classified by data source: '
             'runner.ran, len(failures), len(errors)) equal, position by position, the fields the '
             'parent unpacks (classified by use: summed as tests run / bounds the loop filling '
             'failures / bounds the loop filling errors)')
    rep.rule(R2, 'body agreement: names are written failures-then-errors, one line each, and '
             'consumed failures-then-errors, one line per entry, the counter decremented once per '
             'entry')
    m = ctx.model
    w = m.func(WRITER)
    prints = _stderr_prints(w, ctx)
    hdr = prints[0] if prints else None
    wfields = [_classify_writer_field(a) for a in hdr.args] if hdr is not None else []
    r = m.func(READER)
    g = ctx.cfg(r)
    hp = _header_parse(g)
    loops = _consumer_loops(ctx, r, g)
    rfields = []
    if hp is not None:
        for t in hp.ast.targets[0].elts:
            d = dotted(t) or ''
            role = '?' + d
            if d.endswith('.num_ran'):
                role = 'RAN'
            elif isinstance(t, ast.Name) and any(
                    isinstance(x, ast.Assign) and is_name(x.value, t.id) and any(
                        (dotted(tt) or '').endswith('.num_ran') for tt in x.targets)
                    for x in ast.walk(r.node)):
                role = 'RAN'            # unpacked into a local that is then stored as <result>.num_ran
            # the unpacked local itself, or a local it is copied to (nfail = parsed_failures)
            copies = {d}
            if isinstance(t, ast.Name):
                for x in ast.walk(r.node):
                    if isinstance(x, ast.Assign) and is_name(x.value, t.id):
                        copies |= {tt.id for tt in x.targets if isinstance(tt, ast.Name)}
            for lp, counter, acc, nexts, apps, decs in loops:
                if counter in copies:
                    role = {'failures': 'NFAIL', 'errors': 'NERR', 'skipped': 'NSKIP'}.get(acc, '?' + acc)
            rfields.append(role)
    ok = bool(wfields) and wfields == rfields and not any(f.startswith('?') for f in wfields) and \
        set(['RAN', 'NFAIL', 'NERR']) <= set(wfields)
    rep.check(ok, R1, 'header fields writer %s == reader %s' % (wfields, rfields),
              'the child writes %s but the parent reads %s' % (wfields, rfields),
              key='header', func=READER, where=ctx.where(r, hp.ast) if hp is not None else READER)
    # the header is recognised by its syntax alone: a line of three integers IS the header, whatever
    # the numbers are (more failures than tests: several failing subtests; 0 0 1: a layer that
    # could not be set up).  No comparison among the parsed counters guards the acceptance.
    if hp is not None:
        from .common import guard_literals
        counters = set()
        for t in hp.ast.targets[0].elts:
            if isinstance(t, ast.Name):
                counters.add(t.id)
        lpnodes = [x for x in ast.walk(r.node) if isinstance(x, ast.For) and any(y is hp.ast for y in ast.walk(x))]
        value_tests = []
        for lp_ in lpnodes[-1:]:
            for st in ast.walk(lp_):
                tests = []
                if isinstance(st, (ast.If, ast.While, ast.IfExp, ast.Assert)):
                    tests.append(st.test)
                elif isinstance(st, ast.comprehension):
                    tests += st.ifs
                for e in tests:
                    for x in ast.walk(e):
                        if isinstance(x, (ast.Compare, ast.BinOp)) and any(
                                isinstance(y, ast.Name) and y.id in counters for y in ast.walk(x)):
                            value_tests.append(norm(x))
        rep.check(not value_tests, R1, 'a line of three integers is accepted as the header whatever the numbers are',
                  'the header line is only accepted under a condition on the reported numbers (%s): a genuine '
                  'report that does not satisfy it (e.g. more failures than tests -- failing subtests; '
                  '0 0 1 -- a layer set-up failure in the child) is skipped as noise and the parent '
                  'records "could not communicate" instead of the child\'s outcome'
                  % '; '.join(sorted(set(value_tests))[:2]), key='header:syntax-only', func=READER,
                  where=ctx.where(r, hp.ast))
    # ... and it is the WHOLE line: the parsed fields are all the whitespace-separated tokens of the line
    # (an unpack of another number of tokens fails), or the groups of a pattern matched against the whole
    # line (fullmatch / anchored at both ends).  A prefix match takes "0 0 0 open handles" -- noise a
    # test wrote to fd 2 -- for the header and the real report is never read.
    if hp is not None:
        v = _header_value(g, hp.ast.value)
        src = None
        while isinstance(v, ast.Call) and dotted(v.func) in ('tuple', 'list') and len(v.args) == 1:
            v = v.args[0]
        if isinstance(v, ast.Call) and dotted(v.func) == 'map' and len(v.args) == 2 and dotted(v.args[0]) == 'int':
            src = v.args[1]
        elif isinstance(v, (ast.ListComp, ast.GeneratorExp, ast.Tuple, ast.List)) and \
                isinstance(v, (ast.ListComp, ast.GeneratorExp)) and len(v.generators) == 1:
            src = v.generators[0].iter
        whole = None
        why = ''
        if src is not None:
            e = src
            # look through a local holding the match / the tokens
            for _ in range(3):
                if isinstance(e, ast.Name):
                    defs = [x.value for x in ast.walk(r.node) if isinstance(x, ast.Assign) and
                            any(is_name(t, e.id) for t in x.targets)]
                    if len(defs) == 1:
                        e = defs[0]
                        continue
                break
            if isinstance(e, ast.Call) and isinstance(e.func, ast.Attribute) and e.func.attr == 'split' and (
                    not e.args or (isinstance(e.args[0], ast.Constant) and e.args[0].value is None)) and \
                    len(e.args) <= 1 and not e.keywords:
                whole = True
            elif isinstance(e, ast.Call) and isinstance(e.func, ast.Attribute) and e.func.attr == 'groups':
                mm = e.func.value
                for _ in range(3):
                    if isinstance(mm, ast.Name):
                        defs = [x.value for x in ast.walk(r.node) if isinstance(x, ast.Assign) and
                                any(is_name(t, mm.id) for t in x.targets)]
                        if len(defs) == 1:
                            mm = defs[0]
                            continue
                    break
                whole, why = _regex_matches_whole_line(mm, r.module.constants)
        if whole is None:
            rep.undecide(R1, 'header parse %s' % norm(hp.ast)[:60], 'cannot tell whether the header must be the '
                         'whole line (neither map(int, <line>.split()) nor the groups of a constant pattern)')
        else:
            rep.check(whole, R1, 'the header is a whole line of integers (nothing may follow the third number)',
                      'the header is recognised by %s: a line that merely BEGINS with three numbers (noise on the '
                      "child's fd 2 such as '0 0 0 open handles') is taken for the report, the real one is never "
                      'read and its failures are lost' % why, key='header:whole-line', func=READER,
                      where=ctx.where(r, hp.ast))
    # num_ran is what resume_tests sums
    rt = m.func('runner.resume_tests')
    summed = any(isinstance(n, ast.Return) and n.value is not None and 'num_ran' in norm(n.value)
                 and 'sum' in norm(n.value) for n in ast.walk(rt.node))
    rep.check(summed, R1, 'resume_tests returns the sum of num_ran over all results',
              'resume_tests does not return sum(r.num_ran ...)', key='resume_tests:sum',
              func=rt.qualname, where=ctx.where(rt, rt.node))
    # body order, writer
    worder = []
    wnode = writer_ast(ctx, w)
    order_key = {id(c): i for i, c in enumerate(prints)}
    for st in ast.walk(wnode):
        if isinstance(st, ast.For):
            d = dotted(st.iter) or ''
            pr = [c for c in ast.walk(st) if isinstance(c, ast.Call) and dotted(c.func) == 'print']
            if pr:
                worder.append((min(order_key.get(id(c), 10 ** 6) for c in pr), d.split('.')[-1], len(pr)))
    worder.sort()
    rorder = [acc for lp, counter, acc, nexts, apps, decs in
              sorted(loops, key=lambda x: x.lineno)]
    okb = [x[1] for x in worder] == rorder == ['failures', 'errors'] and \
        all(x[2] == 1 for x in worder)
    rep.check(okb, R2, 'name blocks: writer %s, reader %s' % ([x[1] for x in worder], rorder),
              'the order / number of name blocks differs between child (%s) and parent (%s)'
              % (worder, rorder), key='body-order', func=READER, where=ctx.where(r, r.node))
    # dominance: first consumer loop entirely before the second, both after the header parse
    if len(loops) >= 2 and hp is not None:
        loops.sort(key=lambda x: x.lineno)
        dom = g.dominators()
        a, b = loops[0].head.id, loops[1].head.id
        hl = [n.id for n in g.nodes if n.kind == 'for' and hp.id in g.reach(
            [d for d, k in g.succ[n.id] if k == 'true'], avoid={n.id}, include_start=True)]
        same_head = a == b
        rep.check(bool(hl) and hl[-1] in dom[a] and (same_head or (a in dom[b] and a not in g.reach([b])))
                  and hl[-1] not in g.reach([a]), R2,
                  'reader: header search -> failures loop -> errors loop (dominance)',
                  'the consumer loops are not sequenced after the header parse',
                  key='body-dominance', func=READER, where=ctx.where(r, loops[0].head.stmt))
    for cons in loops:
        lp, counter, acc, nexts, apps, decs = cons
        body = [d for d, k in g.succ[lp.id] if k == 'true']
        one = True
        if cons.form in ('extend-islice', 'extend-slice'):
            rep.check(not cons.open_ended, R2, 'reader %s.extend(...): as many entries as the header announced (%s)' % (acc, counter),
                      'the entries added to %s are not bounded by the announced count (%s): every further line on the child\'s stderr (noise written after the report) becomes an entry' % (acc, counter),
                      key='consumer-bound:' + str(acc), func=READER, where=ctx.where(r, lp.ast))
            continue
        zc = _zip_counter(lp.ast) if cons.form == 'for-islice' else None
        if zc is not None:
            rep.check(zc[1] == 1, R2, 'reader loop for %s: zip(range(%s), <lines>) takes exactly the '
                      'announced number of lines' % (acc, counter),
                      'zip(<lines>, range(%s)) asks the shared line iterator for one more line before it '
                      'notices that the count is reached: that line (the first name of the next block) '
                      'is lost' % counter, key='consumer-zip:' + str(acc), func=READER,
                      where=ctx.where(r, lp.stmt))
        groups = {'while-next': (nexts, apps, decs), 'for-range-next': (nexts, apps),
                  'for-islice': (apps,)}[cons.form]
        for group in groups:
            # exactly once per iteration: every path body->head passes the group, and no
            # member reaches another member without passing the head
            okp, _ = g.every_path_passes(body, [lp.id], set(group), include_start=True,
                                         edge_ok=lambda s, d, k: k != 'exc')
            twice = any(y in g.reach([x], avoid={lp.id}) for x in group for y in group)
            one = one and okp and not twice and bool(group)
        if cons.form == 'while-next':
            pos_ok = isinstance(lp.ast.ops[0], ast.Gt) and \
                isinstance(lp.ast.comparators[0], ast.Constant) and lp.ast.comparators[0].value == 0
            dec_ok = all(isinstance(g.node(d).ast.value, ast.Constant) and
                         g.node(d).ast.value.value == 1 for d in decs)
        else:
            pos_ok = dec_ok = not decs
        rep.check(one and pos_ok and dec_ok, R2, 'reader loop for %s (%s): one line consumed and one '
                  'entry appended per announced entry' % (acc, cons.form),
                  'the loop that fills %s does not consume exactly one line per announced entry' % acc,
                  key='consumer:' + str(acc), func=READER, where=ctx.where(r, lp.stmt))
        # what is appended is the decoded line just read
        for a in apps:
            c = [c for c in node_calls(g, a) if isinstance(c.func, ast.Attribute) and
                 c.func.attr == 'append'][0]
            src = set()
            for x in ast.walk(c.args[0]):
                if isinstance(x, ast.Name):
                    src.add(x.id)
            nxt_targets = set()
            if cons.form == 'for-islice':
                nxt_targets |= {x.id for x in ast.walk(lp.stmt.target) if isinstance(x, ast.Name)}
            for nx in nexts:
                st = g.node(nx).ast
                if isinstance(st, ast.Assign):
                    for t in st.targets:
                        if isinstance(t, ast.Name):
                            nxt_targets.add(t.id)
                elif any(dotted(cc.func) == 'next' for cc in calls_in(c)):
                    nxt_targets |= src
            rep.check(bool(src & nxt_targets) or any(dotted(cc.func) == 'next' for cc in calls_in(c)),
                      R2, 'reader loop for %s appends the line it just read' % acc,
                      'the appended entry is not derived from next(erriter)',
                      key='consumer-src:' + str(acc), func=READER, where=ctx.where(r, c))
    rep.floor(R2, len(loops), 2, 'consumer loops')


# ------------------------------------------------------------------------------------------

ALL_BREAKS = frozenset(['\n', '\r', '\x0b', '\x0c', '\x1c', '\x1d', '\x1e', '\x85', ' ', ' '])
BYTES_BREAKS = frozenset(['\n', '\r'])
WS = frozenset(' \t\n\r\x0b\x0c')


def regex_removes(pattern, repl, flags=0):
    """characters of ALL_BREAKS | WS that ``re.sub(pattern, repl, text)`` cannot leave in its
    result, by the shape of the (constant) pattern: the pattern has no look-around, anchor or
    back-reference (a match at a position does not depend on the context), does not match the empty
    string, and matches the character on its own -- then the scan finds a non-empty match at every
    position it reaches that holds the character, so each occurrence lies inside some match; the
    replacement does not re-insert it.  The constant pattern is compiled and asked about the
    one-character strings (constant folding of the stdlib regex engine, no code of the package)"""
    import re
    try:
        import re._parser as sre_parse
    except ImportError:                                    # before 3.11
        import sre_parse
    try:
        tree = sre_parse.parse(pattern, flags)
        rx = re.compile(pattern, flags)
    except Exception:
        return None

    def context_free(items):
        for op, av in items:
            name = str(op)
            if name in ('AT', 'ASSERT', 'ASSERT_NOT', 'GROUPREF', 'GROUPREF_EXISTS'):
                return False
            subs = []
            if name in ('MAX_REPEAT', 'MIN_REPEAT', 'POSSESSIVE_REPEAT'):
                subs = [av[2]]
            elif name == 'SUBPATTERN':
                subs = [av[3]]
            elif name == 'BRANCH':
                subs = list(av[1])
            elif name == 'ATOMIC_GROUP':
                subs = [av]
            for sub in subs:
                if not context_free(sub):
                    return False
        return True
    if not context_free(tree) or rx.fullmatch('') is not None:
        return frozenset()
    if not isinstance(repl, str):
        return None
    return frozenset(ch for ch in (ALL_BREAKS | WS) if rx.fullmatch(ch) is not None and ch not in repl)


def removed_breaks(e, consts=None):
    """line-break characters that cannot occur in the value of expression *e* (a str built
    from an arbitrary test name), or None if no sanitising construct is recognised"""
    removed = set()
    found = False
    consts = consts or {}
    for n in ast.walk(e):
        if isinstance(n, ast.Call) and isinstance(n.func, ast.Attribute) and n.func.attr == 'sub':
            # re.sub(pattern, repl, text)  /  COMPILED.sub(repl, text)
            pat = rp = None
            fl = 0
            if dotted(n.func.value) == 're' and len(n.args) >= 3:
                pat, rp = n.args[0], n.args[1]
            elif len(n.args) >= 2:
                pat, rp = n.func.value, n.args[0]
            if isinstance(pat, ast.Name) and pat.id in consts:
                pat = consts[pat.id]
            if isinstance(pat, ast.Call) and dotted(pat.func) == 're.compile' and pat.args:
                if len(pat.args) > 1 or pat.keywords:
                    return None
                pat = pat.args[0]
            if isinstance(pat, ast.Name) and pat.id in consts:
                pat = consts[pat.id]
            if isinstance(rp, ast.Name) and rp.id in consts:
                rp = consts[rp.id]
            if isinstance(pat, ast.Constant) and isinstance(pat.value, str) and isinstance(rp, ast.Constant):
                rr = regex_removes(pat.value, rp.value, fl)
                if rr is None:
                    return None
                removed |= rr
                found = True
                continue
            return None
        if isinstance(n, ast.Call) and isinstance(n.func, ast.Attribute):
            a = n.func.attr
            if a == 'splitlines' and not n.args:
                removed |= ALL_BREAKS
                found = True
            elif a == 'split':
                if not n.args or (isinstance(n.args[0], ast.Constant) and n.args[0].value is None):
                    removed |= WS
                    found = True
                elif isinstance(n.args[0], ast.Constant) and isinstance(n.args[0].value, str) and \
                        len(n.args[0].value) == 1:
                    removed.add(n.args[0].value)
                    found = True
            elif a == 'replace' and len(n.args) == 2 and isinstance(n.args[0], ast.Constant) and \
                    isinstance(n.args[0].value, str) and len(n.args[0].value) == 1 and \
                    isinstance(n.args[1], ast.Constant) and \
                    not (set(n.args[1].value) & ALL_BREAKS):
                removed.add(n.args[0].value)
                found = True
            elif a == 'translate':
                return None
    # whatever is re-inserted by the join separator
    for n in ast.walk(e):
        if isinstance(n, ast.Call) and isinstance(n.func, ast.Attribute) and n.func.attr == 'join' \
                and isinstance(n.func.value, ast.Constant) and isinstance(n.func.value.value, str):
            removed -= set(n.func.value.value)
    return frozenset(removed) if found else frozenset()


def _resolve_nearest(expr, at):
    """replace a plain local by the value of the nearest preceding assignment in the same block"""
    if not isinstance(expr, ast.Name):
        return expr
    st = at
    while getattr(st, '_parent', None) is not None and not isinstance(st, ast.stmt):
        st = st._parent
    par = getattr(st, '_parent', None)
    while par is not None:
        for fld in ('body', 'orelse', 'finalbody'):
            sub = getattr(par, fld, None)
            if isinstance(sub, list) and st in sub:
                for prev in reversed(sub[:sub.index(st)]):
                    if isinstance(prev, ast.Assign) and any(is_name(t, expr.id) for t in prev.targets):
                        return prev.value
        st, par = par, getattr(par, '_parent', None)
    return expr


def reader_breaks(ctx, fi):
    """characters at which the reader breaks the child's stderr into lines"""
    out = None
    for c in own_calls(fi.node):
        if isinstance(c.func, ast.Attribute) and c.func.attr == 'splitlines' and \
                'stderr' in norm(c.func.value):
            # bytes.splitlines breaks at CR / LF only; once the report is decoded, str.splitlines
            # breaks at every Unicode line boundary
            text = any(isinstance(x, ast.Call) and isinstance(x.func, ast.Attribute) and
                       x.func.attr == 'decode' for x in ast.walk(c.func.value)) or \
                any(isinstance(x, ast.Call) and dotted(x.func) == 'str' for x in ast.walk(c.func.value))
            out = (set(ALL_BREAKS) if text else set(BYTES_BREAKS)) if not c.args else None
        if isinstance(c.func, ast.Attribute) and c.func.attr == 'split' and \
                'stderr' in norm(c.func.value) and c.args and isinstance(c.args[0], ast.Constant):
            v = c.args[0].value
            out = {v.decode('latin1') if isinstance(v, bytes) else v}
    return out


def r3_line_discipline(ctx, rep, R='C07.R3'):
    rep.rule(R, 'line discipline: the set of line-break characters the child removes from each name '
             'it writes is a superset of the set at which the parent splits the report into lines')
    w = ctx.model.func(WRITER)
    r = ctx.model.func(READER)
    rb = reader_breaks(ctx, r)
    if rb is None:
        rep.undecide(R, 'reader split', 'cannot determine how the parent splits the child\'s stderr')
        return
    prints = _stderr_prints(w, ctx)[1:]
    n = 0
    for c in prints:
        if not c.args:
            continue
        n += 1
        rem = removed_breaks(_resolve_nearest(c.args[0], c), w.module.constants)
        if rem is None:
            rep.undecide(R, norm(c), 'unrecognised sanitising construct')
            continue
        missing = sorted(rb - rem)
        rep.check(not missing, R, 'writer %s removes %s' % (norm(c.args[0])[:70],
                                                            sorted(repr(x) for x in rem & ALL_BREAKS)[:4]),
                  'a test name containing %s is written on more than one line: the parent (which '
                  'splits at %s) would take the fragments for further names' % (
                      [repr(x) for x in missing], sorted(repr(x) for x in rb)),
                  key='writer:' + norm(c.args[0]), func=w.qualname, where=ctx.where(w, c))
    rep.floor(R, n, 2, 'name-writing print calls')


# ------------------------------------------------------------------------------------------

def _reader_cfg(ctx, fi):
    return ctx.cfg(fi, AnyCall(quiet_cleanup=True))


def _err_appends(g, fi):
    ps = params(fi)
    return nodes_calling(g, lambda c: isinstance(c.func, ast.Attribute) and
                         c.func.attr in ('append', 'extend') and is_name(c.func.value, 'errors')
                         and 'errors' in ps)


def r4_fail_closed(ctx, rep, R='C07.R4'):
    rep.rule(R, 'fail closed: in spawn_layer_in_subprocess every path that follows an exception '
             '(spawn failure, read error, truncated or undecodable report) reaches the normal exit '
             'only through errors.append(...) or through a (new) complete header parse; a report '
             'without header line records an error; no Exception can leave the thread target')
    fi = ctx.model.func(READER)
    g = _reader_cfg(ctx, fi)
    app = _err_appends(g, fi)
    hp = _header_parse(g)
    rep.check(bool(app) and hp is not None, R, 'reader: errors.append sites (%d) and header parse '
              'found' % len(app), 'no errors.append / header parse in the reader',
              key='reader:sites', func=fi.qualname, where=ctx.where(fi, fi.node))
    if not app or hp is None:
        return
    # header parse node itself: its ValueError exits count as "not parsed"
    through = set(app) | {hp.id}
    raising = [n for n, toks in g.node_raises.items() if any(
        ctx.hier.is_sub(c, 'Exception') or (k == 'open' and c == 'Exception') for k, c in toks)]
    n_src = len(raising)
    bad = None
    for s_ in sorted(raising):
        for d, k in g.succ[s_]:
            if k != 'exc' or g.node(d).kind != 'handler':
                continue
            # paths that go on normally after the exception was handled
            # (flag sensitive: a boolean local such as "header found" prunes the branches it decides)
            r = g.reach_flags([d], avoid=through, include_start=True,
                              edge_ok=lambda a, b, kk: kk != 'exc')
            if g.exit in r and bad is None:
                bad = (s_, d)
    txt = g.node(bad[0]).text()[:80] if bad else ''
    rep.check(bad is None, R, 'every handled exception leads to errors.append or a fresh parse '
              '(%d statements that may raise)' % n_src,
              'after an exception at "%s" the reader can finish without recording an error' % txt,
              key='fail-open:' + txt, func=fi.qualname,
              where=ctx.where(fi, g.node(bad[0]).ast or g.node(bad[0]).stmt) if bad else '',
              path=g.describe_path(g.path([bad[1]], g.exit, avoid=through, include_start=True,
                                          edge_ok=lambda a, b, kk: kk != 'exc') or []) if bad else None)
    rep.floor(R, n_src, 10, 'statements that may raise in the reader')
    # no Exception escapes the thread target
    esc = sorted({n for n, ts in g.escape_sources for t in ts
                  if ctx.hier.is_sub(t[1], 'Exception') or t == T_open('Exception')})
    # map the escaping continuation back to the statements that raised
    srcs = []
    for s_ in sorted(raising):
        r = g.reach([s_], edge_ok=lambda a, b, kk, s_=s_: (a != s_ or kk == 'exc') and
                    g.node(b).kind != 'handler')
        if g.raise_exit in r and any(g.node(d).kind != 'handler' for d, kk in g.succ[s_] if kk == 'exc'):
            srcs.append(s_)
    txt = g.node(srcs[0]).text()[:80] if srcs else ''
    rep.check(not esc, R, 'no Exception escapes spawn_layer_in_subprocess (it is a thread target)',
              'an exception raised at "%s" (and %d more statements) leaves the thread target without '
              'recording anything: the layer would silently count as passed' % (txt, max(len(srcs) - 1, 0)),
              key='escape:' + txt, func=fi.qualname,
              where=ctx.where(fi, g.node(srcs[0]).ast or g.node(srcs[0]).stmt) if srcs else '')
    # a report without header records an error: the exhausted edge of the header search loop
    loops = [n for n in g.nodes if n.kind == 'for' and hp.id in g.reach(
        [d for d, k in g.succ[n.id] if k == 'true'], avoid={n.id}, include_start=True)]
    ok = bool(loops)
    if ok:
        lp = loops[-1]
        ex = [d for d, k in g.succ[lp.id] if k == 'false']
        r = g.reach_flags(ex, avoid=set(app), include_start=True, edge_ok=lambda a, b, k: k != 'exc')
        ok = g.exit not in r
    rep.check(ok, R, 'no header line found -> errors.append',
              'when no line of the child\'s stderr parses as a header the reader can finish '
              'without recording an error', key='no-header', func=fi.qualname,
              where=ctx.where(fi, hp.ast))
    # a report that ends before all announced names were read must not be accepted silently
    for cons in _consumer_loops(ctx, fi, g):
        rep.check(cons.strict, R, 'reader loop for %s notices a report that is cut short '
                  '(next() raises when the lines run out)' % cons.acc,
                  'the loop that fills %s (%s) simply stops when the child\'s report ends early: '
                  'fewer names than the header announced are accepted as a complete report, so a '
                  'child that died after the header line leaves no error' % (cons.acc, cons.form),
                  key='truncation:' + str(cons.acc), func=fi.qualname,
                  where=ctx.where(fi, cons.head.stmt))
    # the names are only consumed after a successful header parse (nothing partial is trusted):
    # a ValueError at the parse must not fall through to the consumer loops with stale counters
    cfgq = ctx.cfg(fi)
    for lp, counter, acc, nexts, apps, decs in _consumer_loops(ctx, fi, cfgq):
        inits = [n.id for n in cfgq.nodes if n.kind == 'stmt' and isinstance(n.ast, ast.Assign) and
                 any(is_name(t, counter) for t in n.ast.targets) and
                 isinstance(n.ast.value, ast.Constant) and n.ast.value.value == 0]
        hp2 = _header_parse(cfgq)
        # every way to the loop sets the counter: by a completed header parse (its normal exit) or
        # by an explicit 0
        hid = hp2.id if hp2 is not None else -1
        reach_unset = cfgq.reach_flags([cfgq.entry], avoid=set(inits), include_start=True,
                                       edge_ok=lambda a, b, k: not (a == hid and k != 'exc'))
        rep.check(lp.id not in reach_unset,
                  R, 'counter %s is 0 unless a header was parsed' % counter,
                  'the consumer loop for %s can run with an unset/stale counter' % acc,
                  key='counter-init:' + counter, func=fi.qualname, where=ctx.where(fi, lp.stmt))


# ------------------------------------------------------------------------------------------

def r5_channel_separation(ctx, rep, R='C07.R5'):
    rep.rule(R, 'channel separation: the child saves the real stderr before re-pointing sys.stderr '
             'to stdout, closes stdout before the first report line and writes every report line '
             'to the saved stderr; the parent reads the report from the child\'s stderr pipe only, '
             'drains it in a thread started before the blocking stdout loop and joined before the '
             'buffer is read')
    m = ctx.model
    ws = m.func(WRITER_SETUP)
    g = ctx.cfg(ws)
    saves = [n.id for n in g.nodes if n.kind == 'stmt' and isinstance(n.ast, ast.Assign) and
             m.resolve_dotted(ws.module, dotted(n.ast.value)) == 'sys.stderr' and
             any(isinstance(t, ast.Attribute) and is_name(t.value, 'self') for t in n.ast.targets)]
    swaps = [n.id for n in g.nodes if n.kind == 'stmt' and isinstance(n.ast, ast.Assign) and
             any(m.resolve_dotted(ws.module, dotted(t)) == 'sys.stderr' for t in n.ast.targets)]
    saved_attr = None
    if saves:
        saved_attr = [t.attr for t in g.node(saves[0]).ast.targets if isinstance(t, ast.Attribute)][0]
    dom = g.dominators()
    ok = bool(saves) and bool(swaps) and all(saves[0] in dom[s] and s != saves[0] for s in swaps)
    swap_to_stdout = all(m.resolve_dotted(ws.module, dotted(g.node(s).ast.value)) == 'sys.stdout'
                         for s in swaps)
    rep.check(ok and swap_to_stdout, R, 'child: self.%s = sys.stderr before sys.stderr = sys.stdout'
              % saved_attr, 'the real stderr is not saved before sys.stderr is re-pointed to stdout',
              key='child:save-before-swap', func=ws.qualname, where=ctx.where(ws, ws.node))
    # ... in EVERY child, not only under -j N: a layer resumed in a subprocess at -j 1 has the same report
    # channel.  Every path through the child's set-up hook re-points sys.stderr (otherwise what tests
    # write to sys.stderr lands on fd 2, between -- or instead of -- the report lines).
    if swaps:
        okall, _w = g.every_path_passes([g.entry], [g.exit], set(swaps), include_start=True,
                                        edge_ok=lambda s_, d_, k_: k_ != 'exc')
        rep.check(okall, R, 'child: sys.stderr is re-pointed on every path through %s' % ws.qualname,
                  'sys.stderr is re-pointed to stdout only on some paths of %s (%s): in the other children '
                  "the tests' own stderr output shares fd 2 with the report" % (
                      ws.qualname, norm(g.node(swaps[0]).ast)[:40]), key='child:swap-unconditional',
                  func=ws.qualname, where=ctx.where(ws, g.node(swaps[0]).ast))
    w = m.func(WRITER)
    gw = ctx.cfg(w)
    from .common import alias_dotted
    prints = _stderr_prints(w, ctx)
    wnode = writer_ast(ctx, w)
    files_ok = bool(prints) and all(kw(c, 'file') is not None and
                                    alias_dotted(wnode, kw(c, 'file')) == 'self.%s' % saved_attr
                                    for c in prints)
    rep.check(files_ok, R, 'child: every report line goes to self.%s (%d print calls)'
              % (saved_attr, len(prints)), 'a report line is printed to %s'
              % [norm(kw(c, 'file')) if kw(c, 'file') is not None else 'sys.stdout' for c in prints],
              key='child:file', func=w.qualname, where=ctx.where(w, w.node))
    from sa.cfg import build_cfg
    gw = build_cfg(wnode, ctx.hier, None, w.module, name=w.qualname)
    closes = nodes_calling(gw, lambda c: m.resolve_dotted(w.module, dotted(c.func)) == 'sys.stdout.close')
    pn = nodes_calling(gw, lambda c: c in prints)
    domw = gw.dominators()
    rep.check(bool(closes) and bool(pn) and all(closes[0] in domw[p] for p in pn), R,
              'child: sys.stdout.close() before the first report line',
              'stdout is not closed before the report is written', key='child:close',
              func=w.qualname, where=ctx.where(w, w.node))
    # the report hook is the last thing the child does with these streams: feature.report order
    r = m.func(READER)
    gr = ctx.cfg(r)
    popen = [c for c in own_calls(r.node) if m.resolve_dotted(r.module, dotted(c.func)) ==
             'subprocess.Popen']
    okp = len(popen) == 1 and norm(kw(popen[0], 'stderr')) == 'subprocess.PIPE' and \
        norm(kw(popen[0], 'stdout')) == 'subprocess.PIPE'
    rep.check(okp, R, 'parent: Popen(stdout=PIPE, stderr=PIPE) -- two separate pipes',
              'the child is not started with separate stdout and stderr pipes',
              key='parent:popen', func=r.qualname, where=ctx.where(r, popen[0] if popen else r.node))
    child = None
    for n in ast.walk(r.node):
        if isinstance(n, ast.Assign) and popen and n.value is popen[0] and \
                isinstance(n.targets[0], ast.Name):
            child = n.targets[0].id
    thr = [c for c in own_calls(r.node) if (m.resolve_dotted(r.module, dotted(c.func)) or '')
           == 'threading.Thread']
    targ = None
    tname = None
    for c in thr:
        a = kw(c, 'args')
        if isinstance(a, ast.Tuple) and a.elts and dotted(a.elts[0]) == '%s.stderr' % child:
            targ = c
            buf = dotted(a.elts[1]) if len(a.elts) > 1 else None
    for n in ast.walk(r.node):
        if isinstance(n, ast.Assign) and n.value is targ and isinstance(n.targets[0], ast.Name):
            tname = n.targets[0].id
    rep.check(targ is not None and tname is not None, R,
              'parent: a helper thread drains %s.stderr' % child,
              'no thread is started on the child\'s stderr pipe', key='parent:drain-thread',
              func=r.qualname, where=ctx.where(r, r.node))
    if targ is None or tname is None:
        return
    starts = nodes_calling(gr, lambda c: dotted(c.func) == tname + '.start')
    joins = nodes_calling(gr, lambda c: dotted(c.func) == tname + '.join')
    from .common import alias_dotted as _ad
    reads = nodes_calling(gr, lambda c: (_ad(r.node, c.func) or dotted(c.func)) in (
        child + '.stdout.readline', child + '.stdout.read'))
    reads += [n.id for n in gr.nodes if n.kind == 'for' and dotted(n.ast) == child + '.stdout']
    bufuse = [n.id for n in gr.nodes if n.ast is not None and n.kind in ('stmt', 'test', 'for') and
              any(isinstance(x, ast.Name) and x.id == buf and isinstance(x.ctx, ast.Load)
                  for x in ast.walk(n.ast)) and
              n.id not in nodes_calling(gr, lambda c: c is targ)]
    domr = gr.dominators()
    rep.check(bool(starts) and bool(reads) and all(starts[0] in domr[x] for x in reads), R,
              'parent: stderr drain thread started before the blocking stdout read',
              'the stdout read loop can start before the stderr pipe is being drained (deadlock '
              'when the child fills the stderr pipe)', key='parent:start-before-read',
              func=r.qualname, where=ctx.where(r, gr.node(reads[0]).ast if reads else r.node))
    rep.check(bool(joins) and bool(bufuse) and all(joins[0] in domr[x] for x in bufuse), R,
              'parent: drain thread joined before its buffer is read',
              'the stderr buffer is read before the drain thread was joined (partial report)',
              key='parent:join-before-use', func=r.qualname,
              where=ctx.where(r, gr.node(bufuse[0]).ast if bufuse else r.node))
    # the report is parsed from the stderr buffer only
    hp = _header_parse(gr)
    src_ok = False
    if hp is not None:
        lp = [n for n in gr.nodes if n.kind == 'for' and hp.id in gr.reach(
            [d for d, k in gr.succ[n.id] if k == 'true'], avoid={n.id}, include_start=True)]
        if lp:
            from .common import sources_of
            src = sources_of(lp[-1].ast, local_assignments(r.node))
            src_ok = buf in src and not any('stdout' in s for s in src)
    rep.check(src_ok, R, 'parent: the header is searched in the drained stderr buffer only',
              'the report is not parsed from the child\'s stderr buffer', key='parent:parse-source',
              func=r.qualname, where=ctx.where(r, hp.ast if hp is not None else r.node))


def r6_bookkeeping(ctx, rep, R='C07.R6'):
    rep.rule(R, 'termination bookkeeping: on every exit of spawn_layer_in_subprocess (normal or '
             'exceptional) result.done is set, and once the child process exists it is killed and '
             'reaped')
    fi = ctx.model.func(READER)
    g = _reader_cfg(ctx, fi)
    ps = params(fi)
    done = [n.id for n in g.nodes if n.kind == 'stmt' and isinstance(n.ast, ast.Assign) and
            any(isinstance(t, ast.Attribute) and t.attr == 'done' and dotted(t.value) in ps
                for t in n.ast.targets) and isinstance(n.ast.value, ast.Constant) and
            n.ast.value.value is True]
    ok, wgoal = g.every_path_passes([g.entry], [g.exit, g.raise_exit], set(done), include_start=True)
    rep.check(bool(done) and ok, R, 'result.done = True on every exit',
              'a path leaves the function without setting result.done (the parent would wait for '
              'ever)', key='done', func=fi.qualname, where=ctx.where(fi, fi.node),
              path=g.describe_path(g.path([g.entry], wgoal, avoid=set(done), include_start=True) or [])
              if not ok else None)
    # done means DONE: the parent's loop may display the result, stop waiting and compute the verdict as
    # soon as it sees the flag.  Nothing of the child's report is recorded after it was set.
    recs = nodes_calling(g, lambda c: isinstance(c.func, ast.Attribute) and c.func.attr in ('append', 'extend')
                         and dotted(c.func.value) in ps)
    recs += [n.id for n in g.nodes if n.kind == 'stmt' and isinstance(n.ast, ast.Assign) and any(
        isinstance(x, ast.Attribute) and x.attr == 'num_ran' and isinstance(x.ctx, ast.Store)
        for t in n.ast.targets for x in ast.walk(t))]
    late = []
    for d_ in done:
        r_ = g.reach([d_])
        late += [x for x in recs if x in r_]
    rep.check(not late, R, 'result.done is set after everything of the report was recorded',
              'result.done = True can be followed by %s: the parent, which polls the flag, may stop waiting and '
              'compute totals and verdict before the failures / errors of this layer are recorded' % (
                  norm(g.node(late[0]).ast)[:60] if late else ''), key='done-last', func=fi.qualname,
              where=ctx.where(fi, g.node(late[0]).ast) if late else ctx.where(fi, fi.node))
    popen = nodes_calling(g, lambda c: ctx.model.resolve_dotted(fi.module, dotted(c.func)) ==
                          'subprocess.Popen')
    kills = nodes_calling(g, lambda c: isinstance(c.func, ast.Attribute) and c.func.attr in ('kill', 'terminate'))
    reaps = nodes_calling(g, lambda c: isinstance(c.func, ast.Attribute) and c.func.attr in ('communicate', 'wait'))
    normal_succ = [d for p in popen for d, k in g.succ[p] if k != 'exc']

    def not_none_edge(s, d, k):
        # the path on which the child exists: ``child is not None`` is true
        n = g.node(s)
        if n.kind == 'test':
            t = n.ast
            if isinstance(t, ast.Compare) and len(t.ops) == 1 and \
                    isinstance(t.comparators[0], ast.Constant) and t.comparators[0].value is None:
                if isinstance(t.ops[0], ast.IsNot) and k == 'false':
                    return False
                if isinstance(t.ops[0], ast.Is) and k == 'true':
                    return False
        return True
    for name, group in (('killed', kills), ('reaped', reaps)):
        okk, wg = g.every_path_passes(normal_succ, [g.exit, g.raise_exit], set(group),
                                      include_start=True, edge_ok=not_none_edge)
        rep.check(bool(popen) and bool(group) and okk, R, 'child %s on every exit after Popen' % name,
                  'a path from Popen to an exit of the function does not have the child %s' % name,
                  key='child-' + name, func=fi.qualname, where=ctx.where(fi, fi.node),
                  path=g.describe_path(g.path(normal_succ, wg, avoid=set(group), include_start=True,
                                              edge_ok=not_none_edge) or []) if not okk else None)
    rep.floor(R, len(done) + len(kills) + len(reaps), 3, 'done/kill/reap sites')


TOLERANT_ERRORS = ('replace', 'ignore', 'backslashreplace', 'surrogateescape')


def r8_noise_tolerance(ctx, rep, R='C07.R8'):
    rep.rule(R, 'noise tolerance: whatever bytes the child (or its tests) wrote to stderr before the '
             'report, the parent still finds the header: nothing that can raise on arbitrary bytes '
             '(a strict decode of the drained buffer or of a line) is evaluated before the header '
             'line was parsed, except inside the per-line try whose handler goes on to the next line')
    fi = ctx.model.func(READER)
    g = ctx.cfg(fi)
    hp = _header_parse(g)
    if hp is None:
        rep.undecide(R, 'header parse', 'not found')
        return
    before = g.reach_back([hp.id]) | {hp.id}
    n = 0
    bad = []
    for nid in sorted(before):
        nd = g.node(nid)
        for c in node_calls(g, nid):
            if isinstance(c.func, ast.Attribute) and c.func.attr == 'decode':
                err = c.args[1] if len(c.args) > 1 else kw(c, 'errors')
                tolerant = isinstance(err, ast.Constant) and err.value in TOLERANT_ERRORS
                n += 1
                if tolerant:
                    continue
                # a strict decode is fine only inside a try whose handler continues the search
                st = c
                protected = False
                while getattr(st, '_parent', None) is not None and st._parent is not fi.node:
                    st = st._parent
                    if isinstance(st, ast.Try) and any(
                            h.type is not None and any(x in norm(h.type) for x in
                                                       ('ValueError', 'UnicodeDecodeError', 'UnicodeError'))
                            and any(isinstance(y, ast.Continue) for y in ast.walk(h))
                            for h in st.handlers):
                        protected = True
                        break
                    if isinstance(st, (ast.For, ast.While)):
                        break
                if not protected and nid != hp.id and not _after_header(g, hp, nid):
                    bad.append(c)
    rep.check(not bad, R, 'no strict decode of child-controlled bytes before the header is found',
              '%s is evaluated before the report header was found: one undecodable byte anywhere on '
              'the child\'s stderr makes the parent discard a complete, valid report'
              % [norm(c)[:60] for c in bad], key='strict-decode-before-header', func=fi.qualname,
              where=ctx.where(fi, bad[0]) if bad else '')
    rep.floor(R, len(before), 10, 'statements before the header parse')
    # ... and a child that sent no report is recorded ONCE: after the "subprocess for <layer>" entry was
    # appended, no strict decode of the child's bytes (while the message is built from its stderr) is
    # reachable inside the try whose catch-all handler appends the entry again
    ps = params(fi)

    def lost_entry(c):
        return isinstance(c.func, ast.Attribute) and c.func.attr == 'append' and dotted(c.func.value) in ps and \
            any(isinstance(x, ast.Constant) and isinstance(x.value, str) and x.value.startswith('subprocess for')
                for a in c.args for x in ast.walk(a))
    calls = [c for c in ast.walk(fi.node) if isinstance(c, ast.Call) and lost_entry(c)]

    def in_handler(c):
        st = c
        while getattr(st, '_parent', None) is not None:
            st = st._parent
            if isinstance(st, ast.ExceptHandler):
                return st
        return None
    handler_apps = [c for c in calls if in_handler(c) is not None and in_handler(c).type is not None and
                    norm(in_handler(c).type) in ('Exception', 'BaseException')]
    twice = []
    for c0 in calls:
        if in_handler(c0) is not None or not handler_apps:
            continue
        # the statements that follow the entry in its own block (the rest of the "no report" branch)
        st = c0
        while getattr(st, '_parent', None) is not None and not isinstance(st, ast.stmt):
            st = st._parent
        par = getattr(st, '_parent', None)
        rest = []
        for fld in ('body', 'orelse', 'finalbody'):
            blk = getattr(par, fld, None)
            if isinstance(blk, list) and any(x is st for x in blk):
                rest = blk[[i for i, x in enumerate(blk) if x is st][0] + 1:]
        for later in rest:
            for c in ast.walk(later):
                if isinstance(c, ast.Call) and isinstance(c.func, ast.Attribute) and c.func.attr == 'decode':
                    err = c.args[1] if len(c.args) > 1 else kw(c, 'errors')
                    if not (isinstance(err, ast.Constant) and err.value in TOLERANT_ERRORS):
                        twice.append(c)
    rep.check(not twice, R, 'a child without report is recorded once (no strict decode of its stderr after the entry)',
              'after the "subprocess for <layer>" error was appended, %s can raise on undecodable bytes of the '
              'child\'s stderr; the catch-all handler then appends the same entry again: one lost child is '
              'counted and listed twice' % [norm(c)[:50] for c in twice[:2]], key='lost-child-once',
              func=fi.qualname, where=ctx.where(fi, twice[0]) if twice else '')


def _after_header(g, hp, nid):
    """the node is only reachable after the header-search loop was left (message building for
    the no-header case, consumer loops)"""
    dom = g.dominators()
    loops = [n.id for n in g.nodes if n.kind == 'for' and hp.id in g.loop_nodes(n.id)]
    if not loops:
        return False
    return loops[-1] in dom.get(nid, ()) and nid not in g.loop_nodes(loops[-1])


def r10_report_only_after_completed_run(ctx, rep, R='C07.R10'):
    """'nothing partial trusted': the child's report is a statement that its run completed.  It is
    written by SubProcess.report, i.e. by the report hook loop of Runner.run -- that loop must not
    be reachable when the test phase was left by an exception (a child dying of SystemExit /
    KeyboardInterrupt / MemoryError in a layer hook must stay silent, so that the parent records
    'Could not communicate')."""
    rep.rule(R, 'a child reports only a completed run: in Runner.run the report hooks (SubProcess.report '
             'writes the wire report) are not reachable from an exceptional exit of the test phase')
    from sa.cfg import AnyCall, build_cfg
    from .common import inlined
    fi = ctx.model.func('runner.Runner.run')

    def quiet(node):
        return 'run_tests' not in norm(node)
    node = inlined(ctx, fi)
    g = build_cfg(node, ctx.hier, AnyCall(quiet_cleanup=True, quiet=quiet), fi.module,
                  noreturn=ctx.noreturn_pred(fi), name=fi.qualname)
    rt = nodes_calling(g, lambda c: dotted(c.func) == 'self.run_tests')
    rp = nodes_calling(g, lambda c: isinstance(c.func, ast.Attribute) and c.func.attr == 'report'
                       and not c.args)
    rep.floor(R, len(rp), 1, 'report hook call sites in Runner.run')
    ok = bool(rt) and bool(rp)
    path = None
    if ok:
        exc_succ = [d for x in rt for d, k in g.succ[x] if k == 'exc']
        r = g.reach(exc_succ, include_start=True)
        hit = [x for x in rp if x in r]
        ok = not hit
        if hit:
            path = g.describe_path(g.path(exc_succ, hit[0], include_start=True) or [])
    rep.check(ok, R, 'feature.report() is not reachable after run_tests() raised',
              'the report hooks also run when the test phase was aborted by an exception: a child that '
              'dies of SystemExit / KeyboardInterrupt / MemoryError in a layer hook still sends a '
              'complete, well-formed report and the parent trusts it (no error for the layer)',
              key='report-after-abort', func=fi.qualname, where=ctx.where(fi, fi.node), path=path)


# ---------------------------------------------------------------------------------------------
# R11 -- once the child has closed stdout for its report, no later report hook prints

def r11_nothing_printed_after_the_report(ctx, rep, R='C07.R11'):
    rep.rule(R, 'the child\'s report is the last thing the report phase does with output: the feature '
             'whose report() closes sys.stdout (SubProcess) is registered after every feature whose '
             'report() can print in a child; for the features registered after it, every formatter / '
             'print call of report() is unreachable in a child (guards evaluated with resume_layer '
             'set, do_run_tests true, exactly one layer run, no --list-tests).  A print on the closed '
             'stream raises ValueError inside Runner.run: the report hooks that follow are skipped, '
             'the XML reports of that layer are never written and the child ends with a traceback')
    from sa.variance import eval_guard, UNKNOWN
    from .common import guard_literals
    from . import c11
    m = ctx.model
    fi, order = c11.feature_order(ctx)
    closers = []
    classes = {}
    for c in m.all_classes() if hasattr(m, 'all_classes') else [c for mod in m.modules.values() for c in mod.classes.values()]:
        classes.setdefault(c.name, c)
        rp = c.methods.get('report')
        if rp is not None and any(
                isinstance(x, ast.Call) and isinstance(x.func, ast.Attribute) and x.func.attr == 'close' and
                (m.resolve_dotted(rp.module, dotted(x.func.value)) or '') == 'sys.stdout'
                for x in ast.walk(rp.node)):
            closers.append(c.name)
    ok = len(closers) == 1 and closers[0] in order
    rep.check(ok, R, 'one feature closes sys.stdout in report(): %s' % closers,
              'expected exactly one registered feature whose report() closes sys.stdout, found %s' % closers,
              key='after-report:closer', func=fi.qualname, where=ctx.where(fi, fi.node))
    if not ok:
        return
    fr = m.func('runner.Runner.run')
    rl = [n for n in ast.walk(fr.node) if isinstance(n, ast.For) and any(
        isinstance(c, ast.Call) and isinstance(c.func, ast.Attribute) and c.func.attr == 'report'
        for c in ast.walk(n))]
    fwd = len(rl) == 1 and dotted(rl[0].iter) == 'self.features'
    rep.check(fwd, R, 'Runner.run calls report() in registration order',
              'report() is not called over self.features in order', key='after-report:loop',
              func=fr.qualname, where=ctx.where(fr, rl[0] if rl else fr.node))
    if not fwd:
        return
    later = order[order.index(closers[0]) + 1:]

    def child_env(expr):
        env = {}
        for x in ast.walk(expr):
            d = dotted(x)
            if not d:
                continue
            if d.endswith('options.resume_layer'):
                env[norm(x)] = 'layer'
            elif d.endswith('do_run_tests'):
                env[norm(x)] = True
            elif d.endswith('layers_run'):
                env[norm(x)] = 1
            elif d.endswith('options.list_tests'):
                env[norm(x)] = False
        return env
    n = 0
    for name in later:
        c = classes.get(name)
        rp = m.find_method(c, 'report') if c is not None else None
        if rp is None or rp.cls is None or rp.cls.qualname == 'feature.Feature':
            continue
        # a feature that is only active with an option a child never has
        init = c.methods.get('__init__')
        inactive = False
        if init is not None:
            for x in ast.walk(init.node):
                if isinstance(x, ast.Assign) and any(dotted(t) == 'self.active' for t in x.targets):
                    v = eval_guard(x.value, child_env(x.value))
                    inactive = v is not UNKNOWN and not v
        n += 1
        prints = []
        for x in own_calls(rp.node):
            is_out = (isinstance(x.func, ast.Attribute) and ctx.cg.is_formatter_receiver(x.func.value, rp)) or \
                (dotted(x.func) == 'print' and (kw(x, 'file') is None or
                                                 (m.resolve_dotted(rp.module, dotted(kw(x, 'file'))) or '') == 'sys.stdout')) or \
                (isinstance(x.func, ast.Attribute) and x.func.attr in ('write', 'writelines') and
                 (m.resolve_dotted(rp.module, dotted(x.func.value)) or '') == 'sys.stdout')
            if not is_out:
                continue
            reach = True
            for e, pos in guard_literals(ctx, rp, x):
                v = eval_guard(e, child_env(e))
                if v is not UNKNOWN and bool(v) != pos:
                    reach = False
            if reach:
                prints.append(x)
        rep.check(inactive or not prints, R, '%s.report() (after %s) prints nothing in a child' % (name, closers[0]),
                  '%s is registered after %s, whose report() closes sys.stdout in a layer subprocess, '
                  'but its report() can still print there (%s): ValueError on the closed stream ends '
                  'the child\'s report phase' % (name, closers[0], '; '.join(norm(p_)[:50] for p_ in prints[:2])),
                  key='after-report:' + name, func=rp.qualname, where=ctx.where(rp, prints[0] if prints else rp.node))
    rep.floor(R, n, 2, 'report hooks after the child\'s report')
