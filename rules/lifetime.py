"""State that outlives a run (shared by several properties).

"For a given source tree and options ..." -- every property is stated per run.  An in-process run
(run_internal, a second Runner in the same interpreter, the project's own doctests) must therefore
not see what an earlier run left behind.  Three places can hold such state, and each is decided
from the shape of the code:

* memoisation -- a function of the package decorated with functools.lru_cache / cache keeps its
  results for the life of the process (layer objects by name, for instance); a module-level
  container that functions add to must be emptied at the start of a run (Runner.run / __init__ /
  configure) or be a registry filled at import time only;
* class-level mutable attributes -- a list / dict / set bound in a class body is ONE object shared by
  all instances; if the class does not re-bind the attribute per instance, whatever is appended
  through one instance (directly, through a parameter it is handed to as, or through a thread's
  args tuple) is seen by every later instance;
* mutable argparse defaults -- ``default=[]`` on the module-level parser is one list; the 'append'
  action copies it, but an explicit in-place ``options.<dest>.append(...)`` on the parsed value
  mutates the shared default when the option was not given.
"""
import ast

from .common import dotted, norm, own_calls

MUTATORS = ('append', 'add', 'update', 'setdefault', 'extend', 'insert', '__setitem__')
MEMO_DECORATORS = ('lru_cache', 'cache', 'functools.lru_cache', 'functools.cache', 'cached_property',
                   'functools.cached_property')
# memoised functions whose result cannot differ between runs (one reason each) -- none today
MEMO_ALLOWED = {}
RESET_FUNCS = ('runner.Runner.__init__', 'runner.Runner.run', 'runner.Runner.configure')


def _is_mutable_literal(v):
    return isinstance(v, (ast.Dict, ast.List, ast.Set, ast.ListComp, ast.DictComp, ast.SetComp)) or (
        isinstance(v, ast.Call) and dotted(v.func) in (
            'dict', 'list', 'set', 'collections.defaultdict', 'defaultdict', 'collections.OrderedDict',
            'OrderedDict', 'collections.deque', 'deque', 'collections.Counter', 'Counter'))


def memoisation(ctx, rep, R):
    m = ctx.model
    n = 0
    for fi in m.all_functions():
        if fi.module.name.startswith('tests'):
            continue
        for d in fi.node.decorator_list:
            t = norm(d.func) if isinstance(d, ast.Call) else norm(d)
            if t in MEMO_DECORATORS:
                n += 1
                rep.check(fi.qualname in MEMO_ALLOWED, R, '%s is memoised (%s)' % (fi.qualname, t),
                          '%s keeps its results for the life of the process (@%s): a second run in the same '
                          'process -- the same names now denoting re-imported modules, new layer objects, '
                          'other options -- is answered from the first run; Runner.run only clears the '
                          'caches it knows' % (fi.qualname, t), key='memo:' + fi.qualname, func=fi.qualname,
                          where=ctx.where(fi, fi.node), detail=MEMO_ALLOWED.get(fi.qualname, ''))
    # module-level containers that functions add to
    cleared = set()
    for q in RESET_FUNCS:
        if not m.has_func(q):
            continue
        f = m.func(q)
        aliases = {}
        for x in ast.walk(f.node):
            if isinstance(x, ast.Assign) and dotted(x.value):
                for t in x.targets:
                    if dotted(t):
                        aliases[dotted(t)] = dotted(x.value)
        for c in own_calls(f.node):
            if isinstance(c.func, ast.Attribute) and c.func.attr == 'clear':
                d = dotted(c.func.value)
                d = aliases.get(d, d)
                if d:
                    r = m.resolve_dotted(f.module, d) or d
                    cleared.add(r.split('.')[-1])
                    cleared.add(d.split('.')[-1])
    for mod in m.modules.values():
        if mod.name.startswith('tests'):
            continue
        for name, v in mod.constants.items():
            if not _is_mutable_literal(v):
                continue
            adders = []
            for fi in m.all_functions():
                if fi.module.name.startswith('tests'):
                    continue
                local = {a.arg for a in ast.walk(fi.node) if isinstance(a, ast.arg)} | {
                    x.id for x in ast.walk(fi.node) if isinstance(x, ast.Name) and isinstance(x.ctx, ast.Store)}
                if name in local:
                    continue
                refers = fi.module is mod or (fi.module.imports.get(name, '').endswith('.' + mod.name + '.' + name))
                if not refers:
                    continue
                for x in ast.walk(fi.node):
                    if isinstance(x, ast.Call) and isinstance(x.func, ast.Attribute) and \
                            dotted(x.func.value) == name and x.func.attr in MUTATORS:
                        adders.append(fi.qualname)
                    if isinstance(x, (ast.Assign, ast.AugAssign)):
                        for t in (x.targets if isinstance(x, ast.Assign) else [x.target]):
                            if isinstance(t, ast.Subscript) and dotted(t.value) == name:
                                adders.append(fi.qualname)
            if not adders:
                continue
            n += 1
            rep.check(name in cleared, R, '%s.%s (filled by %s) is emptied at the start of a run' % (
                mod.name, name, sorted(set(adders))),
                'the module-level container %s.%s is filled by %s and never emptied by Runner.run / '
                '__init__ / configure: its content survives into the next run in the same process' % (
                    mod.name, name, sorted(set(adders))), key='module-state:%s.%s' % (mod.name, name),
                func=sorted(set(adders))[0], where='%s' % mod.path)
    return n


def class_level_mutables(ctx, rep, R, classes=None):
    """a mutable class attribute must be re-bound per instance before it is used through instances"""
    m = ctx.model
    n = 0
    for c in m.all_classes():
        if c.module.name.startswith('tests') or (classes is not None and c.qualname not in classes):
            continue
        for st in c.node.body:
            if not (isinstance(st, ast.Assign) and len(st.targets) == 1 and isinstance(st.targets[0], ast.Name)
                    and _is_mutable_literal(st.value)):
                continue
            attr = st.targets[0].id
            if attr.startswith('__'):
                continue
            # bound per instance somewhere in the class (or a subclass / base in the package)?
            family = [c] + list(m.subclasses(c))
            rebound = any(isinstance(x, ast.Assign) and any(dotted(t) == 'self.' + attr for t in x.targets)
                          for k in family for f in k.methods.values() for x in ast.walk(f.node))
            if rebound:
                continue
            # is it mutated in place, or handed out, through an instance?
            uses = []
            for fi in m.all_functions():
                if fi.module.name.startswith('tests'):
                    continue
                for x in ast.walk(fi.node):
                    if isinstance(x, ast.Attribute) and x.attr == attr and isinstance(x.ctx, ast.Load) and \
                            not (isinstance(x.value, ast.Name) and x.value.id == c.name):
                        par = getattr(x, '_parent', None)
                        if isinstance(par, ast.Attribute) and par.value is x and par.attr in MUTATORS + (
                                'pop', 'clear', 'remove', 'sort'):
                            uses.append((fi, par, 'mutated in place'))
                        elif isinstance(par, ast.Subscript) and par.value is x and isinstance(par.ctx, (ast.Store, ast.Del)):
                            uses.append((fi, par, 'mutated in place'))
                        elif isinstance(par, (ast.Call, ast.Tuple, ast.List, ast.keyword)) and (
                                x in getattr(par, 'args', []) or x in getattr(par, 'elts', []) or
                                getattr(par, 'value', None) is x):
                            # handed to a callee / into a thread's args tuple: may be filled there
                            uses.append((fi, par, 'handed out'))
                        elif isinstance(par, ast.AugAssign) and par.target is x:
                            uses.append((fi, par, 'mutated in place'))
            # only attributes of the receiver kinds that are instances of this class matter; the
            # attribute name must be specific enough: require that some use exists
            # a non-empty literal is a constant table: handing it to a callee is not sharing state;
            # an EMPTY mutable class attribute exists to be filled
            empty = (isinstance(st.value, (ast.List, ast.Set)) and not st.value.elts) or \
                (isinstance(st.value, ast.Dict) and not st.value.keys) or \
                (isinstance(st.value, ast.Call) and not st.value.args and not st.value.keywords)
            if not empty:
                uses = [u for u in uses if u[2] != 'handed out']
            if not uses:
                continue
            n += 1
            fi, node, how = uses[0]
            rep.check(False, R, '%s.%s is bound per instance' % (c.qualname, attr),
                      'the class attribute %s.%s = %s is one object shared by every instance (it is never '
                      're-bound per instance) and is %s through an instance in %s: what one run / one layer '
                      'result records is seen by every later one in the same process' % (
                          c.qualname, attr, norm(st.value)[:20], how, fi.qualname),
                      key='class-state:%s.%s' % (c.qualname, attr), func=fi.qualname, where=ctx.where(fi, node))
    return n


def argparse_mutable_defaults(ctx, rep, R):
    m = ctx.model
    mod = m.modules.get('options')
    n = 0
    if mod is None:
        return n
    from .common import kw
    for d in ast.walk(mod.tree):
        if not (isinstance(d, ast.Call) and isinstance(d.func, ast.Attribute) and d.func.attr == 'add_argument'):
            continue
        dv = kw(d, 'default')
        if dv is None:
            continue
        if isinstance(dv, ast.Name) and dv.id in mod.constants:
            dv = mod.constants[dv.id]
        if not _is_mutable_literal(dv):
            continue
        dest = getattr(kw(d, 'dest'), 'value', None)
        if dest is None:
            opts = [a.value for a in d.args if isinstance(a, ast.Constant) and isinstance(a.value, str)]
            longs = [o for o in opts if o.startswith('--')] or opts
            dest = longs[0].lstrip('-').replace('-', '_') if longs else None
        if dest is None:
            continue
        n += 1
        muts = []
        for fi in m.all_functions():
            if fi.module.name.startswith('tests'):
                continue
            for x in ast.walk(fi.node):
                if isinstance(x, ast.Call) and isinstance(x.func, ast.Attribute) and \
                        (dotted(x.func.value) or '').endswith('options.' + dest) and \
                        x.func.attr in MUTATORS + ('sort', 'reverse', 'pop', 'remove', 'clear'):
                    muts.append((fi, x))
                if isinstance(x, ast.AugAssign) and (dotted(x.target) or '').endswith('options.' + dest):
                    muts.append((fi, x))
        rep.check(not muts, R, 'option %s (mutable default) is never mutated in place after parsing' % dest,
                  'the option %s has the mutable default %s on the module-level parser and %s mutates the '
                  'parsed value in place (%s): when the option is not given that IS the shared default, so '
                  'the addition leaks into every later get_options() call of the process' % (
                      dest, norm(dv)[:20], muts[0][0].qualname if muts else '',
                      norm(muts[0][1])[:50] if muts else ''), key='argparse-default:' + dest,
                  func=muts[0][0].qualname if muts else 'options.get_options',
                  where=ctx.where(muts[0][0], muts[0][1]) if muts else mod.path)
    return n


def check(ctx, rep, R, classes=None):
    """all three obligations under one rule id"""
    n = memoisation(ctx, rep, R)
    n += class_level_mutables(ctx, rep, R, classes)
    n += argparse_mutable_defaults(ctx, rep, R)
    rep.ok(R, 'process-lifetime state: %d memoised functions / module containers / mutable option '
           'defaults examined; no mutable class attribute is shared through instances' % n)
    return n
