"""C20 -- strongly connected components: totality and representation invariants only.

The core of the property -- that the components are exactly the SCCs and partition the nodes --
is algorithm correctness over data (low-link propagation for every graph and edge order); no
sound static argument in reach decides it and it is NOT claimed.  What is checked are necessary
conditions whose truth is in the shape of the code."""
import ast

from sa.variance import path_literals
from .common import Ctx, calls_in, dotted, is_name, node_calls, nodes_calling, norm, own_calls

P = 'C20'
FN = 'digraph.DiGraph.sccs'


def run(model, rep, tier):
    ctx = Ctx(model)
    rep.assume('NOT decided: that the yielded components are exactly the strongly connected '
               'components for every graph (Tarjan low-link correctness); the rules below are '
               'necessary conditions only')
    r1_map_access_total(ctx, rep)
    r2_stated_invariants(ctx, rep)
    r3_default_mode(ctx, rep)
    rep.units['cfg'] = ctx.cfg_stats


def r1_map_access_total(ctx, rep, R='C20.R1'):
    rep.rule(R, 'map access agreement (contradiction rule): the neighbour map of DiGraph gets an '
             'entry only when add_neighbors is called for a node, and some readers use '
             '.get(key, default) -- which states that a node may have no entry; then every read of '
             'the map must be total (.get with default, or guarded by a membership test)')
    m = ctx.model
    cls = m.cls('digraph.DiGraph')
    total, partial = [], []
    from .common import alias_dotted, guard_literals
    for fi in cls.methods.values():
        for n in ast.walk(fi.node):
            if isinstance(n, ast.Call) and isinstance(n.func, ast.Attribute) and \
                    n.func.attr == 'get' and alias_dotted(fi.node, n.func.value) == 'self._neighbors':
                total.append((fi, n))
            if isinstance(n, ast.Subscript) and alias_dotted(fi.node, n.value) == 'self._neighbors' and \
                    isinstance(n.ctx, ast.Load):
                guarded = any(isinstance(e, ast.Compare) and isinstance(e.ops[0], ast.In) and pos and
                              alias_dotted(fi.node, e.comparators[0]) == 'self._neighbors' and
                              norm(e.left) == norm(n.slice)
                              for e, pos in guard_literals(ctx, fi, n))
                (total if guarded else partial).append((fi, n))
    rep.floor(R, len(total) + len(partial), 3, 'reads of the neighbour map')
    if len(total) >= 1:
        for fi, n in partial:
            rep.bad(R, '%s: %s' % (fi.qualname, norm(n)), 'the neighbour map is indexed directly '
                    'although %d other reads use .get(): a node without recorded neighbours raises '
                    'KeyError' % len(total), key=norm(n), func=fi.qualname, where=ctx.where(fi, n))
    if not partial:
        rep.ok(R, 'all %d reads of self._neighbors are total' % len(total))
    # the defaults are empty collections
    for fi, n in total:
        if isinstance(n, ast.Call):
            d = n.args[1] if len(n.args) > 1 else None
            ok = d is None or (isinstance(d, (ast.Tuple, ast.List, ast.Set)) and not d.elts) or \
                (isinstance(d, ast.Constant) and d.value is None)
            rep.check(ok, R, '%s: default of %s is empty' % (fi.qualname, norm(n)),
                      'a missing entry is read as %s' % norm(d) if d is not None else '',
                      key='default:' + norm(n), func=fi.qualname, where=ctx.where(fi, n))


def r2_stated_invariants(ctx, rep, R='C20.R2'):
    rep.rule(R, 'stated representation invariants of sccs(): a node leaves "unvisited" exactly when '
             'it gets its state entry; the "stacked" flag mirrors stack membership (set after every '
             'push, cleared after every pop); a component is yielded only under the root test '
             'low == dfs; every outer iteration starts from a still unvisited node and the outer loop '
             'runs until none is left')
    fi = ctx.model.func(FN)
    g = ctx.cfg(fi)
    rem = nodes_calling(g, lambda c: isinstance(c.func, ast.Attribute) and c.func.attr in ('remove', 'discard')
                        and dotted(c.func.value) == 'unvisited')
    st_ins = [n.id for n in g.nodes if n.kind == 'stmt' and isinstance(n.ast, ast.Assign) and
              any(isinstance(t, ast.Subscript) and dotted(t.value) == 'state' for t in n.ast.targets)]
    ok = len(rem) == 1 and len(st_ins) == 1
    if ok:
        key_r = [norm(c.args[0]) for c in node_calls(g, rem[0]) if isinstance(c.func, ast.Attribute)
                 and c.func.attr in ('remove', 'discard')][0]
        key_s = [norm(t.slice) for t in g.node(st_ins[0]).ast.targets if isinstance(t, ast.Subscript)][0]
        # removal is followed by the insertion of the same key before anything else can happen
        nxt = [d for d, k in g.succ[rem[0]] if k != 'exc']
        ok = key_r == key_s and nxt == [st_ins[0]]
    rep.check(ok, R, 'unvisited.remove(n) is immediately followed by state[n] = ...',
              'the invariant "a node is either in unvisited or in state" can break', key='unvisited-state',
              func=fi.qualname, where=ctx.where(fi, fi.node))
    # stacked flag mirrors the stack
    pushes = nodes_calling(g, lambda c: isinstance(c.func, ast.Attribute) and c.func.attr == 'append'
                           and dotted(c.func.value) == 'stack')
    pops = nodes_calling(g, lambda c: isinstance(c.func, ast.Attribute) and c.func.attr == 'pop'
                         and dotted(c.func.value) == 'stack')
    sets = {True: [], False: []}
    for n in g.nodes:
        if n.kind == 'stmt' and isinstance(n.ast, ast.Assign) and isinstance(n.ast.value, ast.Constant) \
                and any(isinstance(t, ast.Attribute) and t.attr == 'stacked' for t in n.ast.targets):
            sets[bool(n.ast.value.value)].append(n.id)
    okp = bool(pushes) and bool(pops)
    for group, val in ((pushes, True), (pops, False)):
        for p in group:
            # the next statements (no branching away) reach the flag store before leaving the block
            okp = okp and any(s in g.reach([p], avoid=set(pushes + pops) - {p}) for s in sets[val])
            r = g.reach([p], avoid=set(sets[val]), edge_ok=lambda s, d, k: k != 'exc')
            okp = okp and g.exit not in r and not any(x in r for x in (pushes + pops) if x != p)
    rep.check(okp, R, 'stacked is set after every stack push and cleared after every stack pop',
              'the "stacked" flag can get out of step with the stack', key='stacked-flag',
              func=fi.qualname, where=ctx.where(fi, fi.node))
    # yield under the root test
    ys = [n for n in ast.walk(fi.node) if isinstance(n, ast.Yield)]
    oky = bool(ys)
    from .common import guard_literals
    for y in ys:
        lits = guard_literals(ctx, fi, y)
        root = [(e, pos) for e, pos in lits if isinstance(e, ast.Compare) and isinstance(e.ops[0], ast.Eq)
                and {norm(e.left).split('.')[-1], norm(e.comparators[0]).split('.')[-1]} == {'low', 'dfs'}]
        oky = oky and len(root) == 1 and root[0][1] is True
    rep.check(oky, R, 'a component is yielded only when low == dfs (SCC root)',
              'a component can be yielded for a node that is not an SCC root', key='root-test',
              func=fi.qualname, where=ctx.where(fi, fi.node))
    # outer loop
    outer = [n for n in fi.node.body if isinstance(n, ast.While)]
    oko = len(outer) == 1 and norm(outer[0].test) == 'unvisited'
    if oko:
        first = outer[0].body[0]
        oko = isinstance(first, ast.Assign) and 'unvisited' in norm(first.value) and \
            ('next(iter(' in norm(first.value) or '.pop()' in norm(first.value))
    rep.check(oko, R, 'outer loop: while unvisited: node = next(iter(unvisited))',
              'the outer loop does not run over all unvisited nodes', key='outer-loop',
              func=fi.qualname, where=ctx.where(fi, fi.node))
    # the copy: the graph's own node set is not consumed
    cp = [n for n in fi.node.body if isinstance(n, ast.Assign) and is_name(n.targets[0], 'unvisited')]
    okc = len(cp) == 1 and norm(cp[0].value) in ('self._nodes.copy()', 'set(self._nodes)')
    rep.check(okc, R, 'sccs works on a copy of the node set', 'sccs consumes the graph\'s own node set '
              '(a second call would yield nothing)', key='copy', func=fi.qualname,
              where=ctx.where(fi, fi.node))
    # every neighbour of a node is scheduled
    ext = [c for c in own_calls(fi.node) if isinstance(c.func, ast.Attribute) and c.func.attr == 'extend'
           and dotted(c.func.value) == 'visits']
    from .common import alias_dotted
    a0 = ext[0].args[0] if len(ext) == 1 and ext[0].args else None
    oke = a0 is not None and not isinstance(a0, (ast.ListComp, ast.GeneratorExp, ast.Subscript)) and (
        (isinstance(a0, ast.Call) and isinstance(a0.func, ast.Attribute) and a0.func.attr == 'get' and
         alias_dotted(fi.node, a0.func.value) == 'self._neighbors') or
        alias_dotted(fi.node, a0) == 'self._neighbors')
    rep.check(oke, R, 'all neighbours of a node are scheduled for a visit',
              'not every neighbour is visited', key='neighbours', func=fi.qualname,
              where=ctx.where(fi, fi.node))


def r3_default_mode(ctx, rep, R='C20.R3'):
    rep.rule(R, 'default mode: a component is dropped only if it has exactly one node, trivial '
             'components were not requested, and that node is not its own neighbour')
    from .common import alias_dotted, guard_literals, single_assignments
    fi = ctx.model.func(FN)
    g = ctx.cfg(fi)
    ys = [n for n in ast.walk(fi.node) if isinstance(n, ast.Yield)]
    ok = len(ys) == 1
    why = 'expected one yield site'
    if ok:
        # the component is yielded unless (len(scc) == 1 and not trivial and node not its own
        # neighbour): read the guard of the yield relative to the root test
        lits = guard_literals(ctx, fi, ys[0])
        txt = []
        for e, pos in lits:
            t = norm(e)
            if 'low' in t and 'dfs' in t:
                continue
            if t in ('unvisited', 'visits') or 'rtn_marker' in t:
                continue
            txt.append((e, pos))
        # expected: exactly one literal: NOT (len(scc) == 1 and not trivial and X not in nb(X))
        ok = len(txt) == 1 and txt[0][1] is False and isinstance(txt[0][0], ast.BoolOp) and \
            isinstance(txt[0][0].op, ast.And)
        why = 'the yield is guarded by %s' % [(norm(e), p) for e, p in txt]
        parts = []
        if ok:
            from sa.variance import split_literals
            parts = split_literals(txt[0][0], True)
        else:
            # nested form: if len(scc) == 1 and not trivial: ... if n not in nb: continue
            conts = [n for n in ast.walk(fi.node) if isinstance(n, ast.Continue)]
            for c in conts:
                cl = [(e, pos) for e, pos in guard_literals(ctx, fi, c)
                      if 'scc' in norm(e) or 'trivial' in norm(e) or '_neighbors' in
                      (alias_dotted(fi.node, e.comparators[0].func.value) or ''
                       if isinstance(e, ast.Compare) and isinstance(e.comparators[0], ast.Call) and
                       isinstance(e.comparators[0].func, ast.Attribute) else '')]
                if any('len(scc)' in norm(e) for e, pos in cl):
                    parts = cl
                    ok = True
        env = single_assignments(fi.node)
        sizes = [(e, pos) for e, pos in parts if norm(e) == 'len(scc) == 1']
        triv = [(e, pos) for e, pos in parts if norm(e) == 'trivial']
        selfn = []
        for e, pos in parts:
            if isinstance(e, ast.Compare) and isinstance(e.ops[0], ast.In) and \
                    isinstance(e.comparators[0], ast.Call) and \
                    isinstance(e.comparators[0].func, ast.Attribute) and \
                    e.comparators[0].func.attr == 'get' and \
                    alias_dotted(fi.node, e.comparators[0].func.value) == 'self._neighbors':
                key = e.comparators[0].args[0]
                same = norm(key) == norm(e.left)
                selfn.append((same, pos))
        ok = ok and len(sizes) == 1 and sizes[0][1] is True and len(triv) == 1 and triv[0][1] is False \
            and len(selfn) == 1 and selfn[0] == (True, False) and len(parts) == 3
        why = 'components are dropped under %s' % [(norm(e), p) for e, p in parts]
    rep.check(ok, R, 'dropped iff len(scc) == 1 and not trivial and n not in neighbours(n)', why,
              key='default-mode', func=fi.qualname, where=ctx.where(fi, fi.node))
    d0 = fi.node.args.defaults
    okd = len(d0) == 1 and isinstance(d0[0], ast.Constant) and d0[0].value is False
    rep.check(okd, R, 'trivial defaults to False', 'the default mode changed', key='default-arg',
              func=fi.qualname, where=ctx.where(fi, fi.node))
