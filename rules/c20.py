"""C20 -- strongly connected components: totality and representation invariants only.

The core of the property -- that the components are exactly the SCCs and partition the nodes --
is algorithm correctness over data (low-link propagation for every graph and edge order); no
sound static argument in reach decides it and it is NOT claimed.  What is checked are necessary
conditions whose truth is in the shape of the code."""
import ast

from sa.variance import path_literals
from .common import Ctx, calls_in, dotted, is_name, node_calls, nodes_calling, norm, own_calls

P = 'C20'
FN = 'digraph.DiGraph.sccs'


def run(model, rep, tier):
    ctx = Ctx(model)
    rep.assume('NOT decided: that the yielded components are exactly the strongly connected '
               'components for every graph (Tarjan low-link correctness); the rules below are '
               'necessary conditions only')
    r1_map_access_total(ctx, rep)
    r2_stated_invariants(ctx, rep)
    r3_default_mode(ctx, rep)
    r4_low_link_discipline(ctx, rep)
    r5_owns_representation(ctx, rep)
    r6_visit_dispatch(ctx, rep)
    r7_edges_only_added(ctx, rep)
    from . import robust
    r8_iterables_consumed_once(ctx, rep)
    robust.asserts_have_no_effects(ctx, rep, 'C20.R20', 'C20')
    rep.units['cfg'] = ctx.cfg_stats


def r1_map_access_total(ctx, rep, R='C20.R1'):
    rep.rule(R, 'map access agreement (contradiction rule): the neighbour map of DiGraph gets an '
             'entry only when add_neighbors is called for a node, and some readers use '
             '.get(key, default) -- which states that a node may have no entry; then every read of '
             'the map must be total (.get with default, or guarded by a membership test)')
    m = ctx.model
    cls = m.cls('digraph.DiGraph')
    total, partial = [], []
    from .common import alias_dotted, guard_literals
    for fi in cls.methods.values():
        for n in ast.walk(fi.node):
            if isinstance(n, ast.Call) and isinstance(n.func, ast.Attribute) and \
                    n.func.attr == 'get' and alias_dotted(fi.node, n.func.value) == 'self._neighbors':
                total.append((fi, n))
            if isinstance(n, ast.Subscript) and alias_dotted(fi.node, n.value) == 'self._neighbors' and \
                    isinstance(n.ctx, ast.Load):
                guarded = any(isinstance(e, ast.Compare) and isinstance(e.ops[0], ast.In) and pos and
                              alias_dotted(fi.node, e.comparators[0]) == 'self._neighbors' and
                              norm(e.left) == norm(n.slice)
                              for e, pos in guard_literals(ctx, fi, n))
                # ... or the read is the membership test itself: try: d[k] / except KeyError
                node_, par = n, getattr(n, '_parent', None)
                while par is not None and par is not fi.node and not guarded:
                    if isinstance(par, ast.Try) and any(node_ is b or any(node_ is x for x in ast.walk(b))
                                                        for b in par.body):
                        guarded = any(h.type is None or (dotted(h.type) or '') in
                                      ('KeyError', 'LookupError', 'Exception') or
                                      (isinstance(h.type, ast.Tuple) and any(
                                          (dotted(t_) or '') in ('KeyError', 'LookupError')
                                          for t_ in h.type.elts)) for h in par.handlers)
                    node_, par = par, getattr(par, '_parent', None)
                (total if guarded else partial).append((fi, n))
    rep.floor(R, len(total) + len(partial), 3, 'reads of the neighbour map')
    if len(total) >= 1:
        for fi, n in partial:
            rep.bad(R, '%s: %s' % (fi.qualname, norm(n)), 'the neighbour map is indexed directly '
                    'although %d other reads use .get(): a node without recorded neighbours raises '
                    'KeyError' % len(total), key=norm(n), func=fi.qualname, where=ctx.where(fi, n))
    if not partial:
        rep.ok(R, 'all %d reads of self._neighbors are total' % len(total))
    # the defaults are empty collections
    for fi, n in total:
        if isinstance(n, ast.Call):
            d = n.args[1] if len(n.args) > 1 else None
            ok = d is None or (isinstance(d, (ast.Tuple, ast.List, ast.Set)) and not d.elts) or \
                (isinstance(d, ast.Constant) and d.value is None)
            rep.check(ok, R, '%s: default of %s is empty' % (fi.qualname, norm(n)),
                      'a missing entry is read as %s' % norm(d) if d is not None else '',
                      key='default:' + norm(n), func=fi.qualname, where=ctx.where(fi, n))


def r2_stated_invariants(ctx, rep, R='C20.R2'):
    rep.rule(R, 'stated representation invariants of sccs(): a node leaves "unvisited" exactly when '
             'it gets its state entry; the "stacked" flag mirrors stack membership (set after every '
             'push, cleared after every pop); a component is yielded only under the root test '
             'low == dfs; every outer iteration starts from a still unvisited node and the outer loop '
             'runs until none is left')
    fi = ctx.model.func(FN)
    g = ctx.cfg(fi)
    rem = nodes_calling(g, lambda c: isinstance(c.func, ast.Attribute) and c.func.attr in ('remove', 'discard')
                        and dotted(c.func.value) == 'unvisited')
    st_ins = [n.id for n in g.nodes if n.kind == 'stmt' and isinstance(n.ast, ast.Assign) and
              any(isinstance(t, ast.Subscript) and dotted(t.value) == 'state' for t in n.ast.targets)]
    ok = len(rem) == 1 and len(st_ins) == 1
    if ok:
        key_r = [norm(c.args[0]) for c in node_calls(g, rem[0]) if isinstance(c.func, ast.Attribute)
                 and c.func.attr in ('remove', 'discard')][0]
        key_s = [norm(t.slice) for t in g.node(st_ins[0]).ast.targets if isinstance(t, ast.Subscript)][0]
        # removal is followed by the insertion of the same key before anything else can happen
        # (straight-line statements that neither yield nor branch may stand in between: building the
        # state object first -- ``s = State(); state[n] = s`` -- leaves no point at which a consumer of
        # the generator, or another iteration, could observe the node in neither place)
        cur = rem[0]
        for _ in range(4):
            nxt = [d for d, k in g.succ[cur] if k != 'exc']
            if len(nxt) != 1 or nxt[0] == st_ins[0]:
                break
            nd = g.node(nxt[0])
            if nd.kind != 'stmt' or not isinstance(nd.ast, ast.Assign) or \
                    any(isinstance(x, (ast.Yield, ast.YieldFrom)) for x in ast.walk(nd.ast)) or \
                    not all(isinstance(t, ast.Name) for t in nd.ast.targets):
                break
            cur = nxt[0]
        ok = key_r == key_s and nxt == [st_ins[0]]
    rep.check(ok, R, 'unvisited.remove(n) is immediately followed by state[n] = ...',
              'the invariant "a node is either in unvisited or in state" can break', key='unvisited-state',
              func=fi.qualname, where=ctx.where(fi, fi.node))
    # stacked flag mirrors the stack
    pushes = nodes_calling(g, lambda c: isinstance(c.func, ast.Attribute) and c.func.attr == 'append'
                           and dotted(c.func.value) == 'stack')
    pops = nodes_calling(g, lambda c: isinstance(c.func, ast.Attribute) and c.func.attr == 'pop'
                         and dotted(c.func.value) == 'stack')
    sets = {True: [], False: []}
    for n in g.nodes:
        if n.kind == 'stmt' and isinstance(n.ast, ast.Assign) and isinstance(n.ast.value, ast.Constant) \
                and any(isinstance(t, ast.Attribute) and t.attr == 'stacked' for t in n.ast.targets):
            sets[bool(n.ast.value.value)].append(n.id)
    # the flag is only ever OBSERVED in tests ``<state>.stacked``: at those points it must mirror
    # stack membership.  So: after a push the flag is set before the next observation / push / pop;
    # after a pop the popped element's flag is cleared before the next observation -- directly, or
    # (collected in a list) by a loop over that list that clears every element.
    reads = [n.id for n in g.nodes if n.ast is not None and n.kind in ('test', 'stmt') and any(
        isinstance(x, ast.Attribute) and x.attr == 'stacked' and isinstance(x.ctx, ast.Load)
        for x in ast.walk(n.ast))]
    okp = bool(pushes) and bool(pops) and bool(reads)
    for p in pushes:
        r = g.reach([p], avoid=set(sets[True]), edge_ok=lambda s, d, k: k != 'exc')
        okp = okp and not any(x in r for x in reads + pushes + pops if x != p) and g.exit not in r
    for p in pops:
        st = g.node(p).ast
        v = st.targets[0].id if isinstance(st, ast.Assign) and isinstance(st.targets[0], ast.Name) else None
        direct = [c for c in sets[False] if v is not None and any(
            isinstance(t, ast.Attribute) and isinstance(t.value, ast.Subscript) and
            is_name(t.value.slice, v) for t in g.node(c).ast.targets)]
        bulk = []
        if v is not None:
            # lists the popped element is appended to, and loops over (aliases of) them that clear
            colls = {c.func.value.id for n in g.nodes if n.kind == 'stmt' for c in calls_in(n.ast)
                     if isinstance(c.func, ast.Attribute) and c.func.attr == 'append' and
                     isinstance(c.func.value, ast.Name) and c.args and is_name(c.args[0], v)}
            from .common import local_assignments
            la = local_assignments(fi.node)
            alias = set(colls)
            for nm, vals in la.items():
                if any(isinstance(x, ast.Name) and x.id in colls for x in vals if isinstance(x, ast.AST)):
                    alias.add(nm)
            for n in g.nodes:
                if n.kind == 'for' and isinstance(n.ast, ast.Name) and n.ast.id in alias and \
                        isinstance(n.stmt.target, ast.Name) and \
                        not any(isinstance(x, (ast.Break, ast.Continue, ast.If)) for x in ast.walk(n.stmt)):
                    lv = n.stmt.target.id
                    if any(isinstance(x, ast.Assign) and isinstance(x.value, ast.Constant) and
                           x.value.value is False and any(
                               isinstance(t, ast.Attribute) and t.attr == 'stacked' and
                               isinstance(t.value, ast.Subscript) and is_name(t.value.slice, lv)
                               for t in x.targets) for x in n.stmt.body):
                        bulk.append(n.id)
            if bulk and not direct:
                apps = nodes_calling(g, lambda c: isinstance(c.func, ast.Attribute) and
                                     c.func.attr == 'append' and isinstance(c.func.value, ast.Name) and
                                     c.func.value.id in colls and c.args and is_name(c.args[0], v))
                okc, _w = g.every_path_passes([p], [x for x in pops if x != p] + bulk + [g.exit] + [p],
                                              set(apps), edge_ok=lambda s, d, k: k != 'exc')
                okp = okp and okc
        r = g.reach([p], avoid=set(direct) | set(bulk), edge_ok=lambda s, d, k: k != 'exc')
        okp = okp and bool(direct or bulk) and not any(x in r for x in reads) and \
            not any(x in r for x in pushes)
    srem = _slice_removals(g, fi)
    if not pops and srem:
        okp = bool(pushes) and bool(reads)
        for p in pushes:
            r = g.reach([p], avoid=set(sets[True]), edge_ok=lambda s, d, k: k != 'exc')
            okp = okp and not any(x in r for x in reads + pushes if x != p) and g.exit not in r
    for dn, C, K, cn in srem:
        # every element of the removed slice gets its flag cleared before the next observation
        from .common import local_assignments
        alias = {C}
        for nm, vals in local_assignments(fi.node).items():
            if any(isinstance(x, ast.Name) and x.id in alias for x in vals if isinstance(x, ast.AST)):
                alias.add(nm)
        bulk = []
        for n in g.nodes:
            if n.kind == 'for' and isinstance(n.ast, ast.Name) and n.ast.id in alias and \
                    isinstance(n.stmt.target, ast.Name) and \
                    not any(isinstance(x, (ast.Break, ast.Continue, ast.If)) for x in ast.walk(n.stmt)):
                lv = n.stmt.target.id
                if any(isinstance(x, ast.Assign) and isinstance(x.value, ast.Constant) and
                       x.value.value is False and any(
                           isinstance(t, ast.Attribute) and t.attr == 'stacked' and
                           isinstance(t.value, ast.Subscript) and is_name(t.value.slice, lv)
                           for t in x.targets) for x in n.stmt.body):
                    bulk.append(n.id)
        # the collection is not shortened before the clearing loop
        cut = [n.id for n in g.nodes if n.kind == 'stmt' and n.ast is not None and any(
            (isinstance(y, ast.Call) and isinstance(y.func, ast.Attribute) and
             isinstance(y.func.value, ast.Name) and y.func.value.id in alias and
             y.func.attr in ('pop', 'remove', 'clear')) or
            (isinstance(y, ast.Subscript) and isinstance(y.value, ast.Name) and y.value.id in alias and
             isinstance(y.ctx, (ast.Store, ast.Del))) for y in ast.walk(n.ast))]
        r = g.reach([dn], avoid=set(bulk), edge_ok=lambda s, d, k: k != 'exc')
        r0 = g.reach([cn], avoid=set(bulk), edge_ok=lambda s, d, k: k != 'exc')
        okp = okp and bool(bulk) and not any(x in r for x in reads) and not any(x in r for x in pushes) \
            and not any(x in r0 for x in cut)
    rep.check(okp, R, 'stacked is set after every stack push and cleared after every stack pop',
              'the "stacked" flag can get out of step with the stack', key='stacked-flag',
              func=fi.qualname, where=ctx.where(fi, fi.node))
    # yield under the root test
    ys = [n for n in ast.walk(fi.node) if isinstance(n, ast.Yield)]
    oky = bool(ys)
    from .common import guard_literals
    for y in ys:
        lits = guard_literals(ctx, fi, y)
        root = [(e, pos) for e, pos in lits if isinstance(e, ast.Compare) and isinstance(e.ops[0], ast.Eq)
                and {norm(e.left).split('.')[-1], norm(e.comparators[0]).split('.')[-1]} == {'low', 'dfs'}]
        oky = oky and len(root) == 1 and root[0][1] is True
    rep.check(oky, R, 'a component is yielded only when low == dfs (SCC root)',
              'a component can be yielded for a node that is not an SCC root', key='root-test',
              func=fi.qualname, where=ctx.where(fi, fi.node))
    # outer loop
    outer = [n for n in fi.node.body if isinstance(n, ast.While)]
    oko = len(outer) == 1 and norm(outer[0].test) == 'unvisited'
    if oko:
        first = outer[0].body[0]
        oko = isinstance(first, ast.Assign) and 'unvisited' in norm(first.value) and \
            ('next(iter(' in norm(first.value) or '.pop()' in norm(first.value))
    rep.check(oko, R, 'outer loop: while unvisited: node = next(iter(unvisited))',
              'the outer loop does not run over all unvisited nodes', key='outer-loop',
              func=fi.qualname, where=ctx.where(fi, fi.node))
    # the copy: the graph's own node set is not consumed
    cp = [n for n in fi.node.body if isinstance(n, ast.Assign) and is_name(n.targets[0], 'unvisited')]
    okc = len(cp) == 1 and norm(cp[0].value) in ('self._nodes.copy()', 'set(self._nodes)')
    rep.check(okc, R, 'sccs works on a copy of the node set', 'sccs consumes the graph\'s own node set '
              '(a second call would yield nothing)', key='copy', func=fi.qualname,
              where=ctx.where(fi, fi.node))
    # every neighbour of a node is scheduled
    ext = [c for c in own_calls(fi.node) if isinstance(c.func, ast.Attribute) and c.func.attr == 'extend'
           and dotted(c.func.value) == 'visits']
    from .common import alias_dotted
    a0 = ext[0].args[0] if len(ext) == 1 and ext[0].args else None
    oke = a0 is not None and not isinstance(a0, (ast.ListComp, ast.GeneratorExp, ast.Subscript)) and (
        (isinstance(a0, ast.Call) and isinstance(a0.func, ast.Attribute) and a0.func.attr == 'get' and
         alias_dotted(fi.node, a0.func.value) == 'self._neighbors') or
        alias_dotted(fi.node, a0) == 'self._neighbors')
    rep.check(oke, R, 'all neighbours of a node are scheduled for a visit',
              'not every neighbour is visited', key='neighbours', func=fi.qualname,
              where=ctx.where(fi, fi.node))


def r3_default_mode(ctx, rep, R='C20.R3'):
    rep.rule(R, 'default mode: a component is dropped only if it has exactly one node, trivial '
             'components were not requested, and that node is not its own neighbour')
    from .common import alias_dotted, guard_literals, single_assignments
    fi = ctx.model.func(FN)
    g = ctx.cfg(fi)
    ys = [n for n in ast.walk(fi.node) if isinstance(n, ast.Yield)]
    ok = len(ys) == 1
    why = 'expected one yield site'
    if ok:
        # the component is yielded unless (len(scc) == 1 and not trivial and node not its own
        # neighbour): read the guard of the yield relative to the root test
        lits = guard_literals(ctx, fi, ys[0])
        txt = []
        for e, pos in lits:
            t = norm(e)
            if 'low' in t and 'dfs' in t:
                continue
            if t in ('unvisited', 'visits') or 'rtn_marker' in t:
                continue
            txt.append((e, pos))
        # expected: exactly one literal: NOT (len(scc) == 1 and not trivial and X not in nb(X))
        ok = len(txt) == 1 and txt[0][1] is False and isinstance(txt[0][0], ast.BoolOp) and \
            isinstance(txt[0][0].op, ast.And)
        why = 'the yield is guarded by %s' % [(norm(e), p) for e, p in txt]
        parts = []
        if ok:
            from sa.variance import split_literals
            parts = split_literals(txt[0][0], True)
        else:
            # nested form: if len(scc) == 1 and not trivial: ... if n not in nb: continue
            conts = [n for n in ast.walk(fi.node) if isinstance(n, ast.Continue)]
            for c in conts:
                cl = [(e, pos) for e, pos in guard_literals(ctx, fi, c)
                      if 'scc' in norm(e) or 'trivial' in norm(e) or '_neighbors' in
                      (alias_dotted(fi.node, e.comparators[0].func.value) or ''
                       if isinstance(e, ast.Compare) and isinstance(e.comparators[0], ast.Call) and
                       isinstance(e.comparators[0].func, ast.Attribute) else '')]
                if any('len(scc)' in norm(e) for e, pos in cl):
                    parts = cl
                    ok = True
        env = single_assignments(fi.node)
        sizes = [(e, pos) for e, pos in parts if norm(e) == 'len(scc) == 1']
        triv = [(e, pos) for e, pos in parts if norm(e) == 'trivial']
        selfn = []
        for e, pos in parts:
            if isinstance(e, ast.Compare) and isinstance(e.ops[0], ast.In) and \
                    isinstance(e.comparators[0], ast.Call) and \
                    isinstance(e.comparators[0].func, ast.Attribute) and \
                    e.comparators[0].func.attr == 'get' and \
                    alias_dotted(fi.node, e.comparators[0].func.value) == 'self._neighbors':
                key = e.comparators[0].args[0]
                same = norm(key) == norm(e.left)
                selfn.append((same, pos))
        ok = ok and len(sizes) == 1 and sizes[0][1] is True and len(triv) == 1 and triv[0][1] is False \
            and len(selfn) == 1 and selfn[0] == (True, False) and len(parts) == 3
        why = 'components are dropped under %s' % [(norm(e), p) for e, p in parts]
    rep.check(ok, R, 'dropped iff len(scc) == 1 and not trivial and n not in neighbours(n)', why,
              key='default-mode', func=fi.qualname, where=ctx.where(fi, fi.node))
    d0 = fi.node.args.defaults
    okd = len(d0) == 1 and isinstance(d0[0], ast.Constant) and d0[0].value is False
    rep.check(okd, R, 'trivial defaults to False', 'the default mode changed', key='default-arg',
              func=fi.qualname, where=ctx.where(fi, fi.node))


# ---------------------------------------------------------------------------------------------
# R4 -- low-link discipline (necessary conditions of Tarjan's algorithm, decided by a must-alias
# data-flow analysis over the CFG of sccs())

def _roles(fi):
    """names of the state map S and of the ancestor list A, the state class name"""
    S = A = C = None
    for n in ast.walk(fi.node):
        if isinstance(n, ast.Assign):
            for t in n.targets:
                if isinstance(t, ast.Subscript) and isinstance(t.value, ast.Name) and \
                        isinstance(n.value, ast.Call) and isinstance(n.value.func, ast.Name) and \
                        isinstance(t.slice, ast.Name):
                    S, C = t.value.id, n.value.func.id
    if S is None:
        return None
    for n in ast.walk(fi.node):
        if isinstance(n, ast.Subscript) and is_name(n.value, S) and isinstance(n.slice, ast.Subscript) \
                and isinstance(n.slice.value, ast.Name) and norm(n.slice.slice) == '-1':
            A = n.slice.value.id
    return (S, A, C) if A else None


def _is_par_expr(e, S, A):
    return isinstance(e, ast.Subscript) and is_name(e.value, S) and isinstance(e.slice, ast.Subscript) \
        and is_name(e.slice.value, A) and norm(e.slice.slice) == '-1'


def _state_key(e, S):
    """X for the expressions S[X] and S.get(X)"""
    if isinstance(e, ast.Subscript) and is_name(e.value, S) and isinstance(e.slice, ast.Name):
        return e.slice.id
    if isinstance(e, ast.Call) and isinstance(e.func, ast.Attribute) and e.func.attr == 'get' and \
            is_name(e.func.value, S) and len(e.args) == 1 and isinstance(e.args[0], ast.Name):
        return e.args[0].id
    return None


def _transfer_factory(S, A):
    from sa.cfg import walk_no_defs

    def kill_names(facts, names):
        return frozenset(f for f in facts if not (set(f[1:]) & names))

    def transfer(node, facts, kind):
        a = node.ast
        if a is None:
            return facts
        if node.kind == 'for':
            if kind != 'true':
                return facts
            names = {x.id for x in ast.walk(node.stmt.target) if isinstance(x, ast.Name)}
            return kill_names(facts, names)
        if node.kind != 'stmt':
            return facts
        calls = [c for c in walk_no_defs(a) if isinstance(c, ast.Call) and
                 isinstance(c.func, ast.Attribute) and is_name(c.func.value, A)]
        stored = {x.id for x in walk_no_defs(a) if isinstance(x, ast.Name) and
                  isinstance(x.ctx, (ast.Store, ast.Del))}
        out = kill_names(facts, stored)
        popped_into = None
        for c in calls:
            if c.func.attr == 'pop':
                out = frozenset(f for f in out if f[0] not in ('par', 'popped', 'top'))
                par = getattr(c, '_parent', None)
                if isinstance(a, ast.Assign) and a.value is c and len(a.targets) == 1 and \
                        isinstance(a.targets[0], ast.Name) and not c.args:
                    popped_into = a.targets[0].id
            elif c.func.attr == 'append' and len(c.args) == 1 and isinstance(c.args[0], ast.Name):
                x = c.args[0].id
                new = {f for f in out if f[0] not in ('par', 'popped', 'top')}
                new |= {('par', f[1]) for f in out if f[0] == 'st' and f[2] == x}
                out = frozenset(new)
            else:
                out = frozenset(f for f in out if f[0] not in ('par', 'popped', 'top'))
        if any(isinstance(x, ast.Subscript) and is_name(x.value, A) and
               isinstance(x.ctx, (ast.Store, ast.Del)) for x in walk_no_defs(a)) or A in stored:
            out = frozenset(f for f in out if f[0] not in ('par', 'popped', 'top'))
        if popped_into:
            out = out | {('popped', popped_into)}
        if isinstance(a, ast.Assign):
            names = [t.id for t in a.targets if isinstance(t, ast.Name)]
            keys = [_state_key(t, S) for t in a.targets if isinstance(t, ast.Subscript)]
            keys = [k for k in keys if k]
            # S[X] = <new object>: older aliases of S[X] are stale
            for k in keys:
                out = frozenset(f for f in out if not (f[0] == 'st' and f[2] == k))
            gen = set()
            if keys:
                for v in names:
                    gen.add(('st', v, keys[0]))
            k = _state_key(a.value, S)
            if k and k not in stored:
                for v in names:
                    gen.add(('st', v, k))
            if _is_par_expr(a.value, S, A):
                for v in names:
                    gen.add(('par', v))
            if isinstance(a.value, ast.Subscript) and is_name(a.value.value, A) and \
                    norm(a.value.slice) == '-1':
                for v in names:
                    gen.add(('top', v))
            if k and ('top', k) in facts and k not in stored:
                for v in names:
                    gen.add(('par', v))
            if isinstance(a.value, ast.Attribute) and isinstance(a.value.value, ast.Name) and \
                    a.value.attr in ('low', 'dfs'):
                for f in facts:
                    if f[0] == 'st' and f[1] == a.value.value.id and f[2] not in stored:
                        for v in names:
                            gen.add(('v' + a.value.attr, v, f[2]))
            if isinstance(a.value, ast.Name):          # plain copy of an alias
                for f in facts:
                    if f[1] == a.value.id and f[0] in ('st', 'par', 'top', 'vlow', 'vdfs') and \
                            not (set(f[2:]) & stored):
                        for v in names:
                            gen.add((f[0], v) + f[2:])
            out = out | gen
        return out
    return transfer


def r4_low_link_discipline(ctx, rep, R='C20.R4'):
    rep.rule(R, 'low-link discipline of the Tarjan walk (necessary conditions, decided by must-alias '
             'data flow over all paths of sccs()): a node\'s dfs number is never changed and low '
             'starts equal to it; every store to a low-link is a min-update of the state of the '
             'CURRENT parent (top of the ancestor list at that moment) with either the low-link of '
             'the child just returned from, or the dfs/low of an already visited neighbour that is '
             'still on the stack; the first kind is passed on every return to a parent unless the '
             'child was a component root, the second on every stacked neighbour; the component is '
             'popped off the stack down to exactly the root that was returned from')
    from sa.dataflow import must_forward
    from sa.srcmodel import AnalysisError
    fi = ctx.model.func(FN)
    g = ctx.cfg(fi)
    roles = _roles(fi)
    if roles is None:
        rep.undecide(R, 'roles', 'cannot identify the state map / ancestor list of sccs() (no '
                     'state[ancestors[-1]] expression): not the iterative Tarjan shape this rule reads')
        return
    S, A, C = roles
    IN = must_forward(g, _transfer_factory(S, A))
    where = ctx.where(fi, fi.node)

    def facts(nid):
        return IN.get(nid) or frozenset()

    # (a) dfs immutable, low initialised with it, counter monotone
    cls = None
    for ci in ctx.model.all_classes():
        if ci.name == C and ci.module is fi.module:
            cls = ci
    init = cls.methods.get('__init__') if cls is not None else None
    ok_init, why = False, 'state class %s not found' % C
    if init is not None:
        vals = {}
        for n in ast.walk(init.node):
            if isinstance(n, ast.Assign):
                for t in n.targets:
                    if isinstance(t, ast.Attribute) and is_name(t.value, 'self') and t.attr in ('low', 'dfs'):
                        vals[t.attr] = n.value
        # both from one single-assignment local (``order = next(counter)``) is the same value
        from .common import local_assignments
        la = local_assignments(init.node)
        same_local = set(vals) == {'low', 'dfs'} and isinstance(vals['low'], ast.Name) and \
            isinstance(vals['dfs'], ast.Name) and vals['low'].id == vals['dfs'].id and \
            len(la.get(vals['low'].id, [])) == 1 and isinstance(la[vals['low'].id][0], ast.AST)
        ok_init = set(vals) == {'low', 'dfs'} and (vals['low'] is vals['dfs'] or same_local or
                                                  norm(vals['low']) in ('self.dfs',) or
                                                  norm(vals['dfs']) in ('self.low',))
        if ok_init:
            src = vals['dfs'] if norm(vals['dfs']) != 'self.low' else vals['low']
            if same_local:
                src = la[vals['low'].id][0]
            ok_init = isinstance(src, ast.Call) and is_name(src.func, 'next') and len(src.args) == 1
        why = 'low/dfs initialised from %s' % {k: norm(v) for k, v in vals.items()}
    rep.check(ok_init, R, '%s.__init__: dfs = low = next(<counter>)' % C,
              'a new node does not start with low == dfs == the next visit number (%s)' % why,
              key='init', func=fi.qualname, where=where)
    cnt = [n for n in ast.walk(fi.node) if isinstance(n, ast.Call) and is_name(n.func, C) and n.args]
    okc = bool(cnt)
    for c in cnt:
        a0 = c.args[0]
        defs = [n.value for n in ast.walk(fi.node) if isinstance(n, ast.Assign) and
                any(is_name(t, getattr(a0, 'id', None)) for t in n.targets)]
        okc = okc and len(defs) == 1 and isinstance(defs[0], ast.Call) and \
            (dotted(defs[0].func) or '').split('.')[-1] == 'count' and not defs[0].keywords and \
            len(defs[0].args) <= 1
    rep.check(okc, R, 'visit numbers come from one itertools.count()', 'the dfs numbers are not drawn '
              'from a single increasing counter', key='counter', func=fi.qualname, where=where)
    dfs_stores = [n for n in ast.walk(fi.node) if isinstance(n, ast.Attribute) and n.attr == 'dfs'
                  and isinstance(n.ctx, (ast.Store, ast.Del))]
    rep.check(not dfs_stores, R, 'no store to .dfs in sccs()', 'the dfs number of a node is changed '
              'after its first visit', key='dfs-immutable', func=fi.qualname,
              where=ctx.where(fi, dfs_stores[0]) if dfs_stores else where)

    # (b)/(c) classification of every low-link store
    H = None
    stores = []
    for n in g.nodes:
        if n.kind == 'stmt' and isinstance(n.ast, (ast.Assign, ast.AugAssign)):
            tg = n.ast.targets if isinstance(n.ast, ast.Assign) else [n.ast.target]
            for t in tg:
                if isinstance(t, ast.Attribute) and t.attr == 'low' and isinstance(t.value, ast.Name):
                    stores.append((n, t))
    rep.floor(R, len(stores), 2, 'low-link stores in sccs()')
    kindA, kindB = [], []

    def value_of(e, V, f):
        """(kind 'low'|'dfs', X) of the value expression, or None"""
        if isinstance(e, ast.Call) and is_name(e.func, 'min') and len(e.args) == 2:
            rest = [x for x in e.args if norm(x) != '%s.low' % V]
            if len(rest) == 1:
                r = value_of(rest[0], V, f)
                return (r[0], r[1], True) if r else None
            return None
        if isinstance(e, ast.Name):
            for k in ('vlow', 'vdfs'):
                xs = [x[2] for x in f if x[0] == k and x[1] == e.id]
                if xs:
                    return (k[1:], xs[0], False)
        if isinstance(e, ast.Attribute) and isinstance(e.value, ast.Name) and e.attr in ('low', 'dfs'):
            xs = [x[2] for x in f if x[0] == 'st' and x[1] == e.value.id]
            if xs:
                return (e.attr, xs[0], False)
        return None

    def guard_node(n, e, V):
        """the test node that makes the store a min-update (value < V.low), or None"""
        for lit, pos in g.dominating_literals(n.id):
            if isinstance(lit, ast.Compare) and len(lit.ops) == 1:
                l, r, op = norm(lit.left), norm(lit.comparators[0]), lit.ops[0]
                lt = (l == norm(e) and r == '%s.low' % V and
                      ((isinstance(op, ast.Lt) and pos) or (isinstance(op, ast.GtE) and not pos))) or \
                     (r == norm(e) and l == '%s.low' % V and
                      ((isinstance(op, ast.Gt) and pos) or (isinstance(op, ast.LtE) and not pos)))
                if lt:
                    from sa.variance import split_literals
                    for t in g.nodes:
                        if t.kind == 'test' and any(x is lit for x in ast.walk(t.ast)):
                            others = [x for x, p in split_literals(t.ast, True) if x is not lit and
                                      not (p and is_name(x, A))]
                            return t.id if not others else n.id
                    return n.id
        return None

    for n, t in stores:
        V = t.value.id
        f = facts(n.id)
        w = ctx.where(fi, n.ast)
        if isinstance(n.ast, ast.AugAssign):
            rep.bad(R, norm(n.ast), 'a low-link is changed by an augmented assignment, not a min-update',
                    key='low-store:' + norm(n.ast), where=w, func=fi.qualname)
            continue
        if ('par', V) not in f:
            rep.bad(R, norm(n.ast), 'on some path to this store %s is not the state of the current parent '
                    '(%s[%s[-1]]): the low-link of another node -- e.g. of a child that was already '
                    'finished -- is lowered instead of the parent\'s' % (V, S, A),
                    key='low-store-target:' + norm(n.ast), where=w, func=fi.qualname)
            continue
        val = value_of(n.ast.value, V, f)
        if val is None:
            rep.bad(R, norm(n.ast), 'the stored value %s is not the low/dfs number of a node whose '
                    'state is known on every path' % norm(n.ast.value),
                    key='low-store-value:' + norm(n.ast), where=w, func=fi.qualname)
            continue
        vk, X, is_min = val
        gn = n.id if is_min else guard_node(n, n.ast.value, V)
        if gn is None:
            rep.bad(R, norm(n.ast), 'the store is not a min-update (not guarded by %s < %s.low): a '
                    'low-link could grow' % (norm(n.ast.value), V),
                    key='low-store-min:' + norm(n.ast), where=w, func=fi.qualname)
            continue
        lits = g.dominating_literals(n.id)
        stacked = any(pos and isinstance(e, ast.Attribute) and e.attr == 'stacked' and
                      isinstance(e.value, ast.Name) and ('st', e.value.id, X) in f for e, pos in lits)
        if ('popped', X) in f and vk == 'low':
            kindA.append((n, gn))
            rep.ok(R, '%s: parent.low = min(parent.low, low of the child returned from)' % norm(n.ast))
        elif stacked and ('popped', X) not in f:
            kindB.append((n, gn))
            rep.ok(R, '%s: parent.low = min(parent.low, %s of a neighbour still on the stack)'
                   % (norm(n.ast), vk))
        else:
            rep.bad(R, norm(n.ast), 'the update uses %s of node %s, which is neither the low-link of the '
                    'child just returned from nor the number of a visited neighbour known to be on '
                    'the stack (guard <state>.stacked missing)' % (vk, X),
                    key='low-store-kind:' + norm(n.ast), where=w, func=fi.qualname)

    # coverage of kind A: from every return to a parent
    pops = [n for n in g.nodes if n.kind == 'stmt' and isinstance(n.ast, ast.Assign) and
            isinstance(n.ast.value, ast.Call) and isinstance(n.ast.value.func, ast.Attribute) and
            n.ast.value.func.attr == 'pop' and is_name(n.ast.value.func.value, A)]
    rep.check(len(pops) == 1, R, 'one return-visit site (node = %s.pop())' % A,
              'found %d sites popping the ancestor list' % len(pops), key='return-site',
              func=fi.qualname, where=where)
    if len(pops) == 1:
        pn = pops[0]
        X = pn.ast.targets[0].id if isinstance(pn.ast.targets[0], ast.Name) else None
        loops = [p for p in _parents_of(pn.ast, fi.node) if isinstance(p, ast.While)]
        heads = [t.id for t in g.nodes if t.kind == 'test' and loops and t.stmt is loops[0]]
        roots, empties = [], []
        for t in g.nodes:
            if t.kind != 'test':
                continue
            e = t.ast
            if isinstance(e, ast.Compare) and len(e.ops) == 1 and isinstance(e.ops[0], ast.Eq) and \
                    isinstance(e.left, ast.Attribute) and isinstance(e.comparators[0], ast.Attribute) and \
                    {e.left.attr, e.comparators[0].attr} == {'low', 'dfs'}:
                ws = {norm(e.left.value), norm(e.comparators[0].value)}
                okr = len(ws) == 1 and any(x[0] == 'st' and x[1] in ws and ('popped', x[2]) in facts(t.id)
                                           for x in facts(t.id))
                rep.check(okr, R, 'root test %s is made on the node returned from' % norm(e),
                          'the component-root test %s is not made on the state of the node that was '
                          'just returned from' % norm(e), key='root-test-node', func=fi.qualname,
                          where=ctx.where(fi, t.stmt))
                roots.append(t.id)
            if is_name(e, A):
                empties.append((t.id, 'false'))
            if isinstance(e, ast.UnaryOp) and isinstance(e.op, ast.Not) and is_name(e.operand, A):
                empties.append((t.id, 'true'))
        rep.check(len(roots) == 1, R, 'one component-root test', 'found %d low == dfs tests' % len(roots),
                  key='root-test', func=fi.qualname, where=where)
        ga = {gn for _n, gn in kindA}

        def edge_ok(s, d, k):
            if k == 'exc':
                return False
            if s in roots and k == 'true':
                return False
            if (s, k) in empties:
                return False
            return True
        r = g.reach([pn.id], avoid=ga, edge_ok=edge_ok)
        okA = bool(kindA) and bool(heads) and not any(h in r for h in heads)
        path = None
        if kindA and heads and not okA:
            for h in heads:
                p = g.path([pn.id], h, avoid=ga, edge_ok=edge_ok)
                if p:
                    path = g.describe_path(p)
        rep.check(okA, R, 'every return to a parent passes parent.low = min(parent.low, child.low) '
                  'unless the child was a component root or no parent is left',
                  'after returning from a child that is not a component root the walk can continue '
                  'without handing the child\'s low-link to its parent: members of one component '
                  'are reported separately', key='propagate-on-return', func=fi.qualname,
                  where=ctx.where(fi, pn.ast), path=path)
        # the component is popped down to exactly the root that was returned from: every way out
        # of the loop that pops the stack is taken under "popped element is the root"
        okp, whyp = False, 'no loop popping the stack found'
        for hn in [t for t in g.nodes if t.kind == 'test' and isinstance(t.stmt, ast.While)]:
            lp = hn.stmt
            pp = [st for st in ast.walk(lp) if isinstance(st, ast.Assign) and isinstance(st.value, ast.Call)
                  and isinstance(st.value.func, ast.Attribute) and st.value.func.attr == 'pop' and
                  isinstance(st.value.func.value, ast.Name) and st.value.func.value.id != A and
                  st.value.func.value.id != 'visits' and
                  isinstance(st.targets[0], ast.Name) and not st.value.args]
            inner = [w for w in ast.walk(lp) if isinstance(w, ast.While) and w is not lp]
            if not pp or any(any(x is pp[0] for x in ast.walk(w)) for w in inner):
                continue
            v = pp[0].targets[0].id
            members = g.loop_nodes(hn.id) | {hn.id}
            exits = [(sn, d, k) for sn in members for d, k in g.succ[sn]
                     if d not in members and k != 'exc']
            if any(sn == hn.id for sn, d, k in exits):
                okp, whyp = None, 'the popping loop can also end through its own condition (%s)' % norm(lp.test)
                break
            okp = bool(exits)
            whyp = 'the popping loop has no exit' if not exits else ''
            for sn, d, k in exits:
                lits = [(e, pos) for e, pos in g.dominating_literals(sn)
                        if isinstance(e, ast.Compare) and len(e.ops) == 1 and
                        isinstance(e.ops[0], (ast.Is, ast.Eq, ast.IsNot, ast.NotEq)) and
                        {norm(e.left), norm(e.comparators[0])} == {v, X}]
                good = any((isinstance(e.ops[0], (ast.Is, ast.Eq)) and pos) or
                           (isinstance(e.ops[0], (ast.IsNot, ast.NotEq)) and not pos) for e, pos in lits)
                if k in ('true', 'false') and g.node(sn).kind == 'test':
                    e = g.node(sn).ast
                    if isinstance(e, ast.Compare) and len(e.ops) == 1 and \
                            {norm(e.left), norm(e.comparators[0])} == {v, X}:
                        good = (isinstance(e.ops[0], (ast.Is, ast.Eq)) and k == 'true') or \
                            (isinstance(e.ops[0], (ast.IsNot, ast.NotEq)) and k == 'false')
                if not (good and ('popped', X) in facts(sn)):
                    okp = False
                    whyp = 'the popping loop can be left at "%s" without the popped element being ' \
                        'the root %s' % (g.node(sn).text(), X)
            break
        if okp is False and whyp == 'no loop popping the stack found':
            # bulk form: K = len(stack) - 1; while stack[K] is not X: K -= 1; C = stack[K:]; del stack[K:]
            for dn, C, K, cn in _slice_removals(g, fi):
                scans = [t for t in g.nodes if t.kind == 'test' and isinstance(t.stmt, ast.While) and
                         isinstance(t.ast, ast.Compare) and len(t.ast.ops) == 1 and
                         isinstance(t.ast.ops[0], (ast.IsNot, ast.NotEq)) and
                         {norm(t.ast.left), norm(t.ast.comparators[0])} == {'stack[%s]' % K, X}]
                inits = [n for n in g.nodes if n.kind == 'stmt' and isinstance(n.ast, ast.Assign) and
                         is_name(n.ast.targets[0], K) and norm(n.ast.value) in ('len(stack) - 1', '-1 + len(stack)')]
                if len(scans) == 1 and len(inits) == 1:
                    lp = scans[0].stmt
                    body_ok = len(lp.body) == 1 and isinstance(lp.body[0], ast.AugAssign) and \
                        isinstance(lp.body[0].op, ast.Sub) and is_name(lp.body[0].target, K) and \
                        norm(lp.body[0].value) == '1' and not lp.orelse
                    # from the initialisation to the copy K is only changed by the scan
                    others = [n for n in g.nodes if n.kind == 'stmt' and n.ast is not None and
                              n.id != inits[0].id and not any(x is n.ast for x in ast.walk(lp)) and
                              any(isinstance(y, ast.Name) and y.id == K and
                                  isinstance(y.ctx, (ast.Store, ast.Del)) for y in ast.walk(n.ast))]
                    if body_ok and not others and ('popped', X) in facts(scans[0].id):
                        okp, whyp = True, ''
                    else:
                        whyp = 'the index scan that finds the root on the stack is not of the form ' \
                            'K = len(stack) - 1; while stack[K] is not %s: K -= 1' % X
        if okp is None:
            rep.undecide(R, 'pop-loop', whyp)
        else:
            rep.check(okp, R, 'the component is popped down to exactly the root returned from',
                      '%s: the component handed out can be cut short or run into an older component'
                      % whyp, key='pop-until-root', func=fi.qualname, where=where)
    # coverage of kind B: every stacked neighbour lowers the parent
    stests = []
    for t in g.nodes:
        if t.kind == 'test':
            for e in ast.walk(t.ast):
                if isinstance(e, ast.Attribute) and e.attr == 'stacked' and isinstance(e.value, ast.Name) \
                        and isinstance(e.ctx, ast.Load):
                    f = facts(t.id)
                    xs = [x[2] for x in f if x[0] == 'st' and x[1] == e.value.id]
                    if xs and ('popped', xs[0]) not in f:
                        stests.append(t)
    gb = {gn for _n, gn in kindB}
    okB = bool(kindB) and bool(stests)
    for t in stests:
        if not (isinstance(t.ast, ast.Attribute) or (isinstance(t.ast, ast.BoolOp) and
                                                    isinstance(t.ast.op, ast.And))):
            continue
        starts = [d for d, k in g.succ[t.id] if k == 'true']
        loops = [p for p in _parents_of(t.stmt, fi.node) if isinstance(p, ast.While)]
        heads = [x.id for x in g.nodes if x.kind == 'test' and loops and x.stmt is loops[0]]
        okp, _w = g.every_path_passes(starts, heads + [g.exit], gb, include_start=True,
                                      edge_ok=lambda s, d, k: k != 'exc')
        okB = okB and okp
    rep.check(okB, R, 'an already visited neighbour that is still on the stack lowers the parent\'s '
              'low-link (%d site(s))' % len(kindB),
              'an edge to a node that is still on the stack (a back or cross edge inside the current '
              'component) does not lower the parent\'s low-link on every path: cycles closed by such an '
              'edge are not recognised', key='stacked-neighbour', func=fi.qualname, where=where)


# ---------------------------------------------------------------------------------------------
# R6 -- the two kinds of work-list entries (first visit of a node / return to the ancestor top)
# are told apart by something no graph node can be

def r6_visit_dispatch(ctx, rep, R='C20.R6'):
    rep.rule(R, 'visit dispatch (typestate of the work list of sccs()): the work list holds nodes '
             'scheduled for a first visit and, below the neighbours of each open node, ONE entry '
             'that means "return to the ancestor top".  The branch that pops the ancestor list must '
             'be selected by a test no scheduled node can satisfy -- identity with a fresh object() '
             'that is only ever compared and stored into the work list -- and that entry is stored '
             'on every path after the node is pushed onto the ancestor list and before its '
             'neighbours are scheduled.  A test comparing the work-list top with a node (the '
             'ancestor top) is satisfied by a scheduled neighbour equal to it (a self-loop): the '
             'node is closed before its neighbours were looked at')
    from .common import reaching_defs
    fi = ctx.model.func(FN)
    g = ctx.cfg(fi)
    roles = _roles(fi)
    where = ctx.where(fi, fi.node)
    if roles is None:
        rep.undecide(R, 'roles', 'cannot identify the state map / ancestor list of sccs()')
        return
    S, A, C = roles
    pops = [n for n in g.nodes if n.kind == 'stmt' and any(
        isinstance(c, ast.Call) and isinstance(c.func, ast.Attribute) and c.func.attr == 'pop' and
        is_name(c.func.value, A) for c in ast.walk(n.ast))]
    if len(pops) != 1:
        rep.undecide(R, 'return-site', 'found %d sites popping the ancestor list' % len(pops))
        return
    pn = pops[0]
    loops = [p for p in _parents_of(pn.ast, fi.node) if isinstance(p, ast.While)]
    W = None
    for lp in loops:
        t = lp.test
        if isinstance(t, ast.Name):
            W = t.id
            break
        if isinstance(t, ast.Compare) and isinstance(t.left, ast.Call) and is_name(t.left.func, 'len') \
                and t.left.args and isinstance(t.left.args[0], ast.Name):
            W = t.left.args[0].id
            break
    if W is None:
        rep.undecide(R, 'work-list', 'the loop around the return visit is not governed by a work list')
        return

    def is_top(e, nid, depth=0):
        """e denotes the top entry of W at node nid (W[-1], W.pop(), or a local defined only so)"""
        if isinstance(e, ast.Subscript) and is_name(e.value, W) and norm(e.slice) == '-1':
            return True
        if isinstance(e, ast.Call) and isinstance(e.func, ast.Attribute) and e.func.attr == 'pop' and \
                is_name(e.func.value, W) and not e.args:
            return True
        if isinstance(e, ast.Name) and depth < 3:
            ds = reaching_defs(g, nid, e.id)
            return bool(ds) and all(isinstance(d, ast.expr) and is_top(d, nid, depth + 1) for d in ds)
        return False

    def is_node_valued(e, nid, depth=0):
        """e denotes a graph node: the ancestor top, an ancestor / stack element, a state key"""
        if isinstance(e, ast.Subscript) and isinstance(e.value, ast.Name) and e.value.id != W and \
                e.value.id != S:
            return True
        if isinstance(e, ast.Name) and depth < 3:
            ds = reaching_defs(g, nid, e.id)
            return bool(ds) and all(isinstance(d, ast.expr) and
                                    (is_node_valued(d, nid, depth + 1) or is_top(d, nid, depth + 1))
                                    for d in ds)
        return False

    def sentinel(e):
        if not isinstance(e, ast.Name):
            return None
        defs = [n for n in ast.walk(fi.node) if isinstance(n, ast.Name) and n.id == e.id and
                isinstance(n.ctx, (ast.Store, ast.Del))]
        asg = [n for n in ast.walk(fi.node) if isinstance(n, ast.Assign) and len(n.targets) == 1 and
               is_name(n.targets[0], e.id)]
        if len(defs) != 1 or len(asg) != 1:
            return None
        v = asg[0].value
        if isinstance(v, ast.Call) and is_name(v.func, 'object') and not v.args and not v.keywords:
            return e.id
        return None

    def parent_map():
        pm = {}
        for n in ast.walk(fi.node):
            for c in ast.iter_child_nodes(n):
                pm[c] = n
        return pm

    verdict = None          # ('ok', M) | ('bad', text) | (None, why)
    test_node = None
    for lit, pol in g.dominating_literals(pn.id):
        # normalised literals: ``is not`` / ``!=`` arrive as ``is`` / ``==`` with flipped polarity
        if not (isinstance(lit, ast.Compare) and len(lit.ops) == 1 and
                isinstance(lit.ops[0], (ast.Is, ast.Eq))):
            continue
        tn = [t for t in g.nodes if t.kind == 'test' and any(x is lit.left for x in ast.walk(t.ast))]
        if not tn:
            continue
        n = tn[0]
        l, r = lit.left, lit.comparators[0]
        for a, b in ((l, r), (r, l)):
            if not is_top(a, n.id):
                continue
            M = sentinel(b)
            if M and isinstance(lit.ops[0], ast.Is) and pol:
                verdict, test_node = ('ok', M), n
            elif M:
                verdict, test_node = (None, 'the sentinel is compared with == or the return '
                                      'branch is taken when the entry is NOT the sentinel'), n
            elif isinstance(b, ast.Constant) and pol:
                verdict, test_node = ('bad', '%s: the return visit is marked by the constant %r, which shares its '
                                      'value space with the nodes (with hashable nodes %r is a legitimate '
                                      'node): a scheduled first visit of that node is taken for the return '
                                      'visit of the current ancestor, which is closed with its neighbours '
                                      'unprocessed' % (norm(n.ast), b.value, b.value)), n
            elif is_node_valued(b, n.id) and pol:
                verdict, test_node = ('bad', '%s: the work-list top is compared with the node %s; a '
                                      'neighbour scheduled on top of an open node that equals it '
                                      '(self-loop edge) is taken for the return visit, the node is '
                                      'closed and its component handed out before its other '
                                      'neighbours were visited' % (norm(n.ast), norm(b))), n
    rep.units.setdefault('sites', {})[R] = {'work_list': W, 'ancestor_list': A,
                                             'dispatch': norm(test_node.ast) if test_node else None}
    if verdict is None or verdict[0] is None:
        rep.assume('C20.R6 not applied: the test that selects the return visit is not of a form this '
                   'rule reads (%s)' % (verdict[1] if verdict else 'no comparison of the work-list top '
                                        'dominates %s.pop()' % A))
        return
    if verdict[0] == 'bad':
        rep.bad(R, 'return visit selected by a test no scheduled node can satisfy', verdict[1],
                key='dispatch-by-node-equality', func=fi.qualname, where=ctx.where(fi, test_node.stmt))
        return
    M = verdict[1]
    rep.ok(R, 'return visit selected by identity with the fresh sentinel %s (%s)' % (M, norm(test_node.ast)))
    # the sentinel does not leak: every load is an identity comparison or a store into W
    pm = parent_map()
    leaks = []
    msites = []
    for x in ast.walk(fi.node):
        if isinstance(x, ast.Name) and x.id == M and isinstance(x.ctx, ast.Load):
            p = pm.get(x)
            if isinstance(p, ast.Compare) and all(isinstance(o, (ast.Is, ast.IsNot)) for o in p.ops):
                continue
            if isinstance(p, ast.Assign) and p.value is x and all(
                    isinstance(t, ast.Subscript) and is_name(t.value, W) for t in p.targets):
                msites.append(p)
                continue
            if isinstance(p, ast.Call) and isinstance(p.func, ast.Attribute) and \
                    is_name(p.func.value, W) and p.func.attr in ('append',) and x in p.args:
                msites.append(pm.get(p))
                continue
            leaks.append(x)
    rep.check(not leaks, R, 'the sentinel %s is only compared by identity and stored into %s' % (M, W),
              'the sentinel %s is used in "%s": it can end up where nodes are expected'
              % (M, norm(pm.get(leaks[0])) if leaks else ''), key='sentinel-leak', func=fi.qualname,
              where=ctx.where(fi, leaks[0]) if leaks else where)
    # scheduling: after A.append(x) the sentinel is stored on every path before neighbours are pushed
    # and before the loop goes round
    apps = [n for n in g.nodes if n.kind == 'stmt' and any(
        isinstance(c, ast.Call) and isinstance(c.func, ast.Attribute) and c.func.attr == 'append' and
        is_name(c.func.value, A) for c in ast.walk(n.ast))]
    rep.floor(R, len(apps), 1, 'pushes onto the ancestor list')
    mnodes = {n.id for n in g.nodes if n.kind == 'stmt' and any(n.ast is m for m in msites)}
    pushes = {n.id for n in g.nodes if n.kind == 'stmt' and n.id not in mnodes and any(
        isinstance(c, ast.Call) and isinstance(c.func, ast.Attribute) and
        c.func.attr in ('append', 'extend', 'insert') and is_name(c.func.value, W)
        for c in ast.walk(n.ast))}
    heads = [t.id for t in g.nodes if t.kind == 'test' and isinstance(t.stmt, ast.While)]
    for an in apps:
        starts = [d for d, k in g.succ[an.id] if k != 'exc']
        okp, _w = g.every_path_passes(starts, heads + list(pushes) + [g.exit], mnodes,
                                      include_start=True, edge_ok=lambda s, d, k: k != 'exc')
        rep.check(bool(mnodes) and okp, R,
                  'after %s the return entry is scheduled before any neighbour' % norm(an.ast),
                  'after %s a path reaches the next round of the walk (or schedules neighbours) '
                  'without storing the return entry %s below them: the node is never closed, or is '
                  'closed before its neighbours were visited' % (norm(an.ast), M),
                  key='schedule-return', func=fi.qualname, where=ctx.where(fi, an.ast))


def _slice_removals(g, fi, stack='stack'):
    """bulk removal of the top of the stack: ``C = stack[K:]`` ... ``del stack[K:]`` (the same K, the
    stack untouched in between).  Returns [(delete node id, C, K, copy node id)]."""
    out = []
    for n in g.nodes:
        if n.kind != 'stmt' or not isinstance(n.ast, ast.Delete):
            continue
        for t in n.ast.targets:
            if isinstance(t, ast.Subscript) and is_name(t.value, stack) and isinstance(t.slice, ast.Slice) \
                    and t.slice.upper is None and t.slice.step is None and isinstance(t.slice.lower, ast.Name):
                K = t.slice.lower.id
                copies = [c for c in g.nodes if c.kind == 'stmt' and isinstance(c.ast, ast.Assign) and
                          len(c.ast.targets) == 1 and isinstance(c.ast.targets[0], ast.Name) and
                          norm(c.ast.value) == '%s[%s:]' % (stack, K)]
                for c in copies:
                    # from the copy to the delete: neither the stack nor K changes
                    def touches(x):
                        a = x.ast
                        if a is None or x.id in (c.id, n.id):
                            return False
                        for y in ast.walk(a):
                            if isinstance(y, ast.Name) and y.id == K and isinstance(y.ctx, (ast.Store, ast.Del)):
                                return True
                            if isinstance(y, ast.Call) and isinstance(y.func, ast.Attribute) and \
                                    is_name(y.func.value, stack) and y.func.attr in (
                                        'append', 'pop', 'extend', 'insert', 'remove', 'clear', 'reverse', 'sort'):
                                return True
                            if isinstance(y, ast.Subscript) and is_name(y.value, stack) and \
                                    isinstance(y.ctx, (ast.Store, ast.Del)):
                                return True
                        return False
                    bad = {x.id for x in g.nodes if touches(x)}
                    okp, _w = g.every_path_passes([d for d, k in g.succ[c.id] if k != 'exc'],
                                                  [g.exit] + list(bad), {n.id}, include_start=True,
                                                  edge_ok=lambda s_, d_, k_: k_ != 'exc')
                    if okp:
                        out.append((n.id, c.ast.targets[0].id, K, c.id))
    return out


def _parents_of(node, stop):
    out = []
    while getattr(node, '_parent', None) is not None and node._parent is not stop:
        node = node._parent
        out.append(node)
    return out


# ---------------------------------------------------------------------------------------------
# R5 -- the graph owns its representation

FRESH, ALIAS, UNKNOWN_F = 'fresh', 'alias', 'unknown'


def _join(vals):
    vals = list(vals)
    if not vals:
        return UNKNOWN_F
    if ALIAS in vals:
        return ALIAS
    if UNKNOWN_F in vals:
        return UNKNOWN_F
    return FRESH


def _closures_for(cls, attr):
    """function nodes that ``self.<attr>`` may denote: ``self.attr = name`` in __init__ where *name*
    is bound by local ``def`` / ``lambda`` assignments (one per branch)"""
    init = cls.methods.get('__init__')
    if init is None:
        return None
    names = set()
    for n in ast.walk(init.node):
        if isinstance(n, ast.Assign) and any(isinstance(t, ast.Attribute) and t.attr == attr and
                                             is_name(t.value, 'self') for t in n.targets):
            if isinstance(n.value, ast.Name):
                names.add(n.value.id)
            elif isinstance(n.value, ast.Lambda):
                names.add(n.value)
            else:
                return None
    out = []
    for nm in names:
        if isinstance(nm, ast.Lambda):
            out.append(nm)
            continue
        found = False
        for n in ast.walk(init.node):
            if isinstance(n, ast.FunctionDef) and n.name == nm:
                out.append(n)
                found = True
            if isinstance(n, ast.Assign) and any(is_name(x, nm) for t in n.targets for x in ast.walk(t)
                                                 if isinstance(x, ast.Name)):
                if isinstance(n.value, ast.Lambda):
                    out.append(n.value)
                    found = True
                elif any(is_name(t, nm) for t in n.targets):
                    return None
        if not found:
            return None
    return out or None


def _freshness(ctx, cls, fnode, g, nid, e, depth=0):
    """is the object denoted by expression *e* (evaluated at CFG node *nid* of function *fnode*)
    created by the graph's own code on every path (FRESH), may it be an object handed in by the
    caller (ALIAS), or is that unknown"""
    from .common import reaching_defs
    if depth > 6:
        return UNKNOWN_F
    if isinstance(e, (ast.Set, ast.SetComp, ast.ListComp, ast.DictComp, ast.List, ast.Dict, ast.Tuple)):
        return FRESH
    if isinstance(e, ast.BinOp) and isinstance(e.op, (ast.BitAnd, ast.BitOr, ast.Sub, ast.BitXor)):
        return FRESH
    if isinstance(e, ast.IfExp):
        return _join([_freshness(ctx, cls, fnode, g, nid, e.body, depth + 1),
                      _freshness(ctx, cls, fnode, g, nid, e.orelse, depth + 1)])
    if isinstance(e, ast.Call):
        f = e.func
        if isinstance(f, ast.Name) and f.id in ('set', 'list', 'dict', 'sorted'):
            return FRESH
        if isinstance(f, ast.Attribute) and f.attr in ('copy', 'union', 'intersection', 'difference',
                                                       'symmetric_difference'):
            return FRESH
        cands = None
        if isinstance(f, ast.Attribute) and is_name(f.value, 'self'):
            cands = _closures_for(cls, f.attr)
        if not cands:
            return UNKNOWN_F
        vals = []
        for fn in cands:
            if isinstance(fn, ast.Lambda):
                ps = {a.arg for a in fn.args.args}
                vals.append(ALIAS if isinstance(fn.body, ast.Name) and fn.body.id in ps else
                            _freshness(ctx, cls, fn, None, None, fn.body, depth + 1))
                continue
            from sa.cfg import NoRaise, build_cfg
            g2 = build_cfg(fn, ctx.hier, NoRaise(), None, name=fn.name)
            rets = [n for n in g2.nodes if n.kind == 'stmt' and isinstance(n.ast, ast.Return)]
            if not rets:
                vals.append(UNKNOWN_F)
            for r in rets:
                vals.append(UNKNOWN_F if r.ast.value is None else
                            _freshness(ctx, cls, fn, g2, r.id, r.ast.value, depth + 1))
        return _join(vals)
    if isinstance(e, ast.Name):
        if g is None:
            return UNKNOWN_F
        defs = reaching_defs(g, nid, e.id)
        a = fnode.args
        params = {x.arg for x in a.posonlyargs + a.args + a.kwonlyargs}
        vals = []
        # does the entry reach the use without a definition?  then the parameter itself arrives
        if e.id in params:
            seen, work, hit_entry = set(), [p for p, _k in g.pred[nid]], False
            while work:
                n = work.pop()
                if n in seen:
                    continue
                seen.add(n)
                node = g.node(n)
                if n == g.entry:
                    hit_entry = True
                    continue
                if node.kind == 'stmt' and isinstance(node.ast, ast.Assign) and any(
                        is_name(x, e.id) for t in node.ast.targets for x in ast.walk(t)):
                    continue
                work.extend(p for p, _k in g.pred[n])
            if hit_entry:
                vals.append(ALIAS)
        for d in defs:
            if isinstance(d, ast.expr):
                dn = [n.id for n in g.nodes if n.kind == 'stmt' and isinstance(n.ast, ast.Assign)
                      and n.ast.value is d]
                vals.append(_freshness(ctx, cls, fnode, g, dn[0] if dn else nid, d, depth + 1))
            else:
                vals.append(UNKNOWN_F)
        return _join(vals)
    return UNKNOWN_F


def r5_owns_representation(ctx, rep, R='C20.R5'):
    rep.rule(R, 'the graph owns its representation: every set it keeps as the neighbours of a node is '
             'an object created by its own code on every path (result of a set operation, set(...), a '
             'comprehension) -- never an object handed in by the caller, which the caller (or a later '
             'in-place update for another node) could change behind the graph\'s back')
    cls = ctx.model.cls('digraph.DiGraph')
    n = 0
    for fi in cls.methods.values():
        g = None
        for st in ast.walk(fi.node):
            if isinstance(st, ast.Assign) and any(
                    isinstance(t, ast.Subscript) and
                    (alias_dotted_(fi.node, t.value) == 'self._neighbors') for t in st.targets):
                from sa.cfg import Lookups
                g = g or ctx.cfg(fi, oracle=Lookups())
                nid = [x.id for x in g.nodes if x.kind == 'stmt' and x.ast is st]
                if not nid:
                    continue
                n += 1
                v = _freshness(ctx, cls, fi.node, g, nid[0], st.value)
                if v == UNKNOWN_F:
                    rep.undecide(R, '%s: %s' % (fi.qualname, norm(st)), 'cannot tell whether the stored '
                                 'neighbour set is created by the graph itself')
                    continue
                rep.check(v == FRESH, R, '%s: %s stores a set created here' % (fi.qualname, norm(st)),
                          'the set stored as the neighbours of a node may be the very object the caller '
                          'passed in (no copy on some path): two nodes can end up sharing one set, and '
                          'later additions for one node change the edges of the other',
                          key='owned:' + norm(st), func=fi.qualname, where=ctx.where(fi, st))
    if n == 0:
        n = sum(1 for fi in cls.methods.values() for st in ast.walk(fi.node)
                if isinstance(st, ast.AugAssign) and isinstance(st.target, ast.Subscript) and
                alias_dotted_(fi.node, st.target.value) == 'self._neighbors')
    rep.floor(R, n, 1, 'stores into the neighbour map')


def alias_dotted_(fnode, e):
    from .common import alias_dotted
    return alias_dotted(fnode, e)


# ---------------------------------------------------------------------------------------------
# R7 -- the graph only grows: a recorded edge is never dropped

def r7_edges_only_added(ctx, rep, R='C20.R7'):
    rep.rule(R, 'the graph the components are computed for is the graph that was built: once an edge is '
             'recorded it stays -- the neighbour map and the node set are bound only in __init__ (never '
             're-bound: aliases and bound methods taken from them must stay valid), an entry is assigned '
             '(map[k] = ...) only where k is known to have no entry yet, everything else adds to the '
             'existing set (|=, .update / .add on the set); no pop / del / clear, and no bulk '
             'map.update(...) that would overwrite the sets of nodes that are already known')
    from .common import alias_dotted, guard_literals, local_assignments
    cls = ctx.model.cls('digraph.DiGraph')
    n = 0
    for fi in cls.methods.values():
        def is_map(e):
            return (alias_dotted(fi.node, e) or dotted(e) or '') == 'self._neighbors'
        for st in ast.walk(fi.node):
            what = None
            if isinstance(st, ast.Assign):
                for t in st.targets:
                    if dotted(t) == 'self._neighbors' and fi.name != '__init__':
                        what = 'the neighbour map is re-bound'
                    if dotted(t) == 'self._nodes' and fi.name != '__init__':
                        n += 1
                        what = ('the node set is re-bound (aliases taken earlier -- bound methods such as '
                                'self._nodes.intersection, locals -- keep referring to the old, now stale set)')
                    if isinstance(t, ast.Subscript) and is_map(t.value):
                        # the key must be known to be absent here
                        key = norm(t.slice)
                        lits = guard_literals(ctx, fi, st)
                        la = local_assignments(fi.node)
                        absent = False
                        for e, pos in lits:
                            ee = e
                            # nbs is None, with nbs = self._neighbors.get(k)
                            if isinstance(ee, ast.Compare) and len(ee.ops) == 1 and isinstance(ee.left, ast.Name) \
                                    and isinstance(ee.comparators[0], ast.Constant) and ee.comparators[0].value is None:
                                from .common import reaching_defs, node_of
                                g_ = ctx.cfg(fi)
                                nid_ = node_of(g_, st)
                                vals = [v for v in (reaching_defs(g_, nid_, ee.left.id) if nid_ is not None else [])]
                                if len(vals) == 1 and isinstance(vals[0], ast.expr):
                                    import copy
                                    ee = copy.copy(ee)
                                    ee.left = vals[0]
                            if isinstance(ee, ast.Compare) and len(ee.ops) == 1 and \
                                    isinstance(ee.left, ast.Call) and isinstance(ee.left.func, ast.Attribute) and \
                                    ee.left.func.attr == 'get' and is_map(ee.left.func.value) and \
                                    norm(ee.left.args[0]) == key and len(ee.left.args) == 1 and \
                                    isinstance(ee.comparators[0], ast.Constant) and ee.comparators[0].value is None:
                                if (isinstance(ee.ops[0], (ast.Is, ast.Eq)) and pos) or \
                                        (isinstance(ee.ops[0], (ast.IsNot, ast.NotEq)) and not pos):
                                    absent = True
                            if isinstance(ee, ast.Compare) and len(ee.ops) == 1 and norm(ee.left) == key and \
                                    is_map(ee.comparators[0]):
                                if (isinstance(ee.ops[0], ast.NotIn) and pos) or (isinstance(ee.ops[0], ast.In) and not pos):
                                    absent = True
                        # try: map[k] ... except KeyError: map[k] = v
                        h = st
                        while getattr(h, '_parent', None) is not None and not isinstance(h, ast.ExceptHandler):
                            h = h._parent
                            if isinstance(h, (ast.FunctionDef, ast.For, ast.While)):
                                break
                        if isinstance(h, ast.ExceptHandler) and dotted(h.type) == 'KeyError' and \
                                isinstance(getattr(h, '_parent', None), ast.Try):
                            for x in h._parent.body:
                                for y in ast.walk(x):
                                    if isinstance(y, ast.Subscript) and isinstance(y.ctx, ast.Load) and \
                                            is_map(y.value) and norm(y.slice) == key:
                                        absent = True
                        n += 1
                        if not absent and fi.name != '__init__':
                            what = 'the entry of %s is assigned although the node may already have neighbours' % key
            elif isinstance(st, ast.Delete):
                for t in st.targets:
                    if (isinstance(t, ast.Subscript) and is_map(t.value)) or is_map(t):
                        what = 'entries are deleted (%s)' % norm(st)
            elif isinstance(st, ast.Call) and isinstance(st.func, ast.Attribute) and is_map(st.func.value) and \
                    st.func.attr in ('pop', 'popitem', 'clear', 'update', '__delitem__', '__setitem__'):
                n += 1
                what = 'map.%s(...) %s' % (st.func.attr, 'overwrites the sets of known nodes' if
                                           st.func.attr in ('update', '__setitem__') else 'removes entries')
            elif isinstance(st, ast.AugAssign) and isinstance(st.target, ast.Subscript) and is_map(st.target.value):
                n += 1
                if not isinstance(st.op, ast.BitOr):
                    what = 'the neighbour set is changed with %s' % type(st.op).__name__
            if what:
                rep.check(False, R, '%s: %s' % (fi.qualname, norm(st)[:70]),
                          '%s in %s: edges recorded earlier are dropped, and the components are those '
                          'of another graph' % (what, fi.qualname), key='edges-kept:%s:%s' % (fi.qualname, norm(st)[:50]),
                          func=fi.qualname, where=ctx.where(fi, st))
    rep.ok(R, 'every write to the neighbour map of DiGraph adds (%d sites)' % n)
    rep.floor(R, n, 1, 'writes to the neighbour map')


CONSUMERS = ('set', 'list', 'tuple', 'frozenset', 'sorted', 'map', 'filter', 'iter', 'sum', 'any', 'all', 'enumerate',
             'zip', 'dict.fromkeys', 'max', 'min', 'len')
CONSUMING_METHODS = ('update', 'extend', 'union', 'intersection', 'difference', 'issubset', 'issuperset',
                     'difference_update', 'intersection_update')


def r8_iterables_consumed_once(ctx, rep, R='C20.R8'):
    """'for every directed graph' includes how it is handed over: the docstrings say *nodes* /
    *neighbors* are iterators.  A one-shot iterator (generator, map object, iter(...)) is empty on
    the second pass, so a function of digraph.py that walks such a parameter twice -- once to
    register the nodes, once to build the returned key set -- silently drops nodes or edges."""
    rep.rule(R, 'nodes and neighbours may be one-shot iterators: in digraph.py no parameter is consumed '
             '(for loop / comprehension / set() list() map() sorted() ... / .update() .extend()) at two '
             'sites one of which is reachable from the other, unless it was materialised first '
             '(p = list(p) / tuple(p) / set(p))')
    from sa.cfg import build_cfg
    mod = ctx.model.modules.get('digraph')
    n = 0
    for fn in [x for x in ast.walk(mod.tree) if isinstance(x, (ast.FunctionDef, ast.Lambda))]:
        if isinstance(fn, ast.Lambda):
            continue
        ps = [a.arg for a in fn.args.posonlyargs + fn.args.args + fn.args.kwonlyargs if a.arg not in ('self', 'cls')]
        if not ps:
            continue
        own = [x for x in ast.walk(fn) if x is not fn and isinstance(x, ast.FunctionDef)]
        inner = {id(y) for o in own for y in ast.walk(o)}

        def sites(p):
            out = []
            for x in ast.walk(fn):
                if id(x) in inner:
                    continue
                if isinstance(x, (ast.For, ast.comprehension)) and isinstance(x.iter, ast.Name) and x.iter.id == p:
                    out.append(x)
                elif isinstance(x, ast.Call):
                    d = dotted(x.func) or ''
                    if d in CONSUMERS and any(isinstance(a, ast.Name) and a.id == p for a in x.args):
                        if d == 'len':
                            continue
                        out.append(x)
                    elif isinstance(x.func, ast.Attribute) and x.func.attr in CONSUMING_METHODS and \
                            any(isinstance(a, ast.Name) and a.id == p for a in x.args):
                        out.append(x)
            return out
        for p in ps:
            ss = sites(p)
            if not ss:
                continue
            n += 1
            # materialised first?
            mat = any(isinstance(x, ast.Assign) and any(is_name(t, p) for t in x.targets) and
                      isinstance(x.value, ast.Call) and dotted(x.value.func) in ('list', 'tuple', 'set', 'frozenset', 'sorted')
                      for x in ast.walk(fn) if id(x) not in inner)
            if mat or len(ss) < 2:
                rep.ok(R, '%s: parameter %s is consumed at %d site(s)%s' % (
                    fn.name, p, len(ss), ' after being materialised' if mat else ''))
                continue
            g = build_cfg(fn, ctx.hier, None, mod, name='digraph.' + fn.name)
            from .common import node_of
            ids = []
            for x in ss:
                nid = node_of(g, x.iter if isinstance(x, (ast.For, ast.comprehension)) else x)
                ids.append(nid)
            seq = [(a, b) for i, a in enumerate(ids) for j, b in enumerate(ids)
                   if i != j and a is not None and b is not None and (a == b or b in g.reach([a]))]
            rep.check(not seq, R, '%s: the iterable %s is walked once' % (fn.name, p),
                      '%s walks its parameter %s at %d sites in sequence (%s): a one-shot iterator is empty on '
                      'the second pass, so nodes / edges handed over as a generator are silently dropped' % (
                          fn.name, p, len(ss), '; '.join(norm(x)[:40] for x in ss[:2])),
                      key='twice:%s:%s' % (fn.name, p), func='digraph.' + fn.name,
                      where='%s:%d' % (mod.path, ss[-1].lineno if hasattr(ss[-1], 'lineno') else fn.lineno))
    rep.floor(R, n, 1, 'iterable parameters consumed in digraph.py')
