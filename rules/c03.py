"""C03 -- exactly the selected tests run, once each, and every mode agrees on them (structure)."""
import ast

from .common import (alias_dotted, Ctx, call_name, calls_in, dotted, is_name, kw, local_assignments, node_calls,
                     nodes_calling, norm, own_calls, params, hook_calls, iterates_in_order, element_target)

P = 'C03'
STATE = 'tests_by_layer_name'


def run(model, rep, tier):
    ctx = Ctx(model)
    r1_single_selection_state(ctx, rep)
    r2_single_ordering_source(ctx, rep)
    r3_listing_runs_nothing(ctx, rep)
    r4_once_per_iteration(ctx, rep)
    r5_one_process_per_layer(ctx, rep)
    r6_child_arguments(ctx, rep)
    from . import c11
    c11.r3_feature_order(ctx, rep, R='C03.R7')
    rep.rule('C03.R8', 'every selected test is found: the flattening walk over nested suites visits '
             'every member of every suite unconditionally (no pruning by the suite\'s own level or '
             'layer -- those are decided per leaf test)')
    from . import c09
    c09.visits_every_member(ctx, rep, 'C03.R8')
    rep.rule('C03.R9', 'no test module is loaded twice: between the walk over the (possibly overlapping) '
             'search directories and the loading of the files there is a de-duplication keyed by the path')
    from . import c14
    c14.r2_once(ctx, rep, R='C03.R9')
    r10_positional_filters(ctx, rep)
    r11_child_working_directory(ctx, rep)
    # "--list-tests lists ... in precisely the order a run executes" with --shuffle-seed N: both
    # invocations must use the seed N itself (shared with C11.R8)
    c11.r8_given_seed_is_used(ctx, rep, 'C03.R12')
    from . import lifetime
    rep.rule('C03.R13', "each run sees only its own inputs (rules/lifetime.py): no function of the package is memoised across runs (functools.lru_cache / cache), module-level containers that functions add to are emptied at the start of a run, no mutable class attribute is shared through instances (mutated in place or handed out without being re-bound per instance), and no option with a mutable argparse default is mutated in place after parsing -- a second run in the same process (other layer objects under the same names, other outcomes, other filters) must not inherit the first run's state")
    lifetime.check(ctx, rep, 'C03.R13')
    rep.rule('C03.R14', 'the set of tests found is the set the walk was told to visit: walk_with_symlinks '
             'walks every symlinked sub-directory that is left after the ignore pruning and after the '
             "caller's in-place pruning of the yielded list (no snapshot taken before the yield, no other "
             'guard than the islink test on the recursion)')
    c14.symlinked_directories_followed(ctx, rep, 'C03.R14')
    # 'exactly the selected tests': the predicate every filter goes through applies each pattern on its
    # own (shared with C08.R1; patterns joined into one alternation share flags and group numbers)
    from . import c08
    c08.r1_polarity(ctx, rep, R='C03.R15')
    from . import robust
    robust.asserts_have_no_effects(ctx, rep, 'C03.R20', 'C03')
    rep.units['cfg'] = ctx.cfg_stats


MUTATORS = ('pop', 'update', 'clear', 'setdefault', 'popitem', '__setitem__', '__delitem__')


def _state_writers(ctx):
    """{function qualname: [(kind, node)]} for every mutation of Runner.tests_by_layer_name,
    directly or through a local alias"""
    out = {}
    for fi in ctx.model.all_functions():
        aliases = set()
        for n in ast.walk(fi.node):
            if isinstance(n, ast.Assign) and (dotted(n.value) or '').endswith('.' + STATE):
                for t in n.targets:
                    if isinstance(t, ast.Name):
                        aliases.add(t.id)

        def is_state(e):
            d = dotted(e) or ''
            return d.endswith('.' + STATE) or d in aliases
        for n in ast.walk(fi.node):
            kind = None
            if isinstance(n, ast.Assign):
                for t in n.targets:
                    if isinstance(t, ast.Attribute) and t.attr == STATE:
                        kind = 'rebind'
                    if isinstance(t, ast.Subscript) and is_state(t.value):
                        kind = 'setitem'
            elif isinstance(n, ast.Delete):
                for t in n.targets:
                    if isinstance(t, ast.Subscript) and is_state(t.value):
                        kind = 'delitem'
            elif isinstance(n, ast.Call) and isinstance(n.func, ast.Attribute) and \
                    n.func.attr in MUTATORS and is_state(n.func.value):
                kind = n.func.attr
            if kind:
                out.setdefault(fi.qualname, []).append((kind, n))
    return out


def r1_single_selection_state(ctx, rep, R='C03.R1'):
    rep.rule(R, 'single selection state: Runner.tests_by_layer_name is written only by '
             'Runner.__init__ (empty), Runner.register_tests (what Find found), '
             'Shuffle.global_setup (same key, value rebuilt from the same suite) and '
             'Filter.global_setup (removal of whole layers only)')
    allowed = {'runner.Runner.__init__': {'rebind'}, 'runner.Runner.register_tests': {'update'},
               'shuffle.Shuffle.global_setup': {'setitem'}, 'filter.Filter.global_setup': {'remove-one'}}
    # what the write does, not how it is spelled: layers.pop(name) and del layers[name] both remove
    # one whole layer
    CLASS = {'pop': 'remove-one', 'delitem': 'remove-one'}
    w = _state_writers(ctx)
    n = 0
    for q, items in sorted(w.items()):
        fi = ctx.model.func(q)
        for kind, node in items:
            n += 1
            kind = CLASS.get(kind, kind)
            rep.check(q in allowed and kind in allowed[q], R, '%s: %s' % (q, kind),
                      'the selection state is modified (%s) in %s: %s' % (kind, q, norm(node)[:80]),
                      key='%s:%s' % (q, kind), func=q, where=ctx.where(fi, node))
    rep.floor(R, n, 4, 'writes to the selection state')
    # register_tests is called once, by Find, with what find_tests returned (minus layer None)
    callers = []
    for fi in ctx.model.all_functions():
        for c in own_calls(fi.node):
            if isinstance(c.func, ast.Attribute) and c.func.attr == 'register_tests':
                callers.append(fi.qualname)
    rep.check(callers == ['find.Find.global_setup'], R, 'register_tests is called by Find.global_setup only',
              'register_tests callers: %s' % callers, key='register_tests:callers',
              func='runner.Runner.register_tests')
    registers_everything(ctx, rep, R)


def registers_everything(ctx, rep, R):
    """Find registers every discovered layer in every process (only the import-failure pseudo
    layer None is taken out): listing, shuffling and children all start from the same state"""
    fg = ctx.model.func('find.Find.global_setup')
    regs = [c for c in own_calls(fg.node) if isinstance(c.func, ast.Attribute) and
            c.func.attr == 'register_tests']
    ok = len(regs) == 1 and len(regs[0].args) == 1 and isinstance(regs[0].args[0], ast.Name)
    why = 'register_tests is not given a plain local'
    if ok:
        v = regs[0].args[0].id
        assigns = [n for n in ast.walk(fg.node) if isinstance(n, (ast.Assign, ast.AugAssign)) and
                   any(is_name(t, v) for t in (n.targets if isinstance(n, ast.Assign) else [n.target]))]
        src_ok = len(assigns) == 1 and isinstance(assigns[0], ast.Assign) and \
            isinstance(assigns[0].value, ast.Call) and call_name(assigns[0].value) == 'find_tests'
        muts = []
        for n in ast.walk(fg.node):
            if isinstance(n, ast.Call) and isinstance(n.func, ast.Attribute) and is_name(n.func.value, v) \
                    and n.func.attr in ('pop', 'clear', 'popitem', 'update', 'setdefault', '__delitem__'):
                if not (n.func.attr == 'pop' and n.args and isinstance(n.args[0], ast.Constant) and
                        n.args[0].value is None):
                    muts.append(norm(n))
            if isinstance(n, ast.Delete) and any(isinstance(t, ast.Subscript) and is_name(t.value, v)
                                                 for t in n.targets):
                muts.append(norm(n))
            if isinstance(n, ast.Assign) and any(isinstance(t, ast.Subscript) and is_name(t.value, v)
                                                 for t in n.targets):
                muts.append(norm(n))
        from sa.variance import path_literals
        cond = [norm(e) for e, pos in path_literals(regs[0], fg.node)]
        ok = src_ok and not muts and not cond
        why = 'the registered mapping is %s' % ('re-assigned / filtered' if not src_ok else
                                                 'modified by %s' % muts if muts else
                                                 'registered only under %s' % cond)
    rep.check(ok, R, 'Find.global_setup registers exactly what find_tests returned (minus layer None)',
              'not every discovered layer is registered in every process (%s): a child or a filtered '
              'run would shuffle / order from a different state than the listing' % why,
              key='register:everything', func=fg.qualname, where=ctx.where(fg, fg.node))


def r2_single_ordering_source(ctx, rep, R='C03.R2'):
    rep.rule(R, 'single ordering source: the run loop and --list-tests both take their sequence from '
             'Runner.ordered_layers() and consume it in order (FIFO [0] / pop(0) in the run loop, '
             'plain iteration in the listing and in resume_tests); ordered_layers yields the suite '
             'stored under the layer\'s own name')
    m = ctx.model
    fr = m.func('runner.Runner.run_tests')
    q = None
    for n in ast.walk(fr.node):
        if isinstance(n, ast.Assign) and isinstance(n.targets[0], ast.Name) and \
                'ordered_layers()' in norm(n.value):
            q = n.targets[0].id
            qv = n.value
    ok = q is not None and norm(qv) in ('list(self.ordered_layers())',)
    rep.check(ok, R, 'Runner.run_tests: queue = list(self.ordered_layers())',
              'the run queue is %s' % (norm(qv) if q else 'not built from ordered_layers()'),
              key='queue:source', func=fr.qualname, where=ctx.where(fr, fr.node))
    if q:
        bad = []
        for c in own_calls(fr.node):
            if isinstance(c.func, ast.Attribute) and is_name(c.func.value, q):
                if c.func.attr == 'pop':
                    if not (len(c.args) == 1 and isinstance(c.args[0], ast.Constant) and c.args[0].value == 0):
                        bad.append(norm(c))
                elif c.func.attr in ('sort', 'reverse', 'insert', 'append', 'extend', 'remove', 'clear'):
                    bad.append(norm(c))
        for n in ast.walk(fr.node):
            if isinstance(n, ast.Subscript) and is_name(n.value, q) and isinstance(n.ctx, ast.Del):
                if not (isinstance(n.slice, ast.Constant) and n.slice.value == 0):
                    bad.append('del ' + norm(n))
            if isinstance(n, ast.Subscript) and is_name(n.value, q) and isinstance(n.ctx, ast.Load):
                if not (isinstance(n.slice, ast.Constant) and n.slice.value == 0):
                    bad.append(norm(n))
            if isinstance(n, ast.Assign) and any(is_name(t, q) for t in n.targets) and n.value is not qv:
                bad.append(norm(n))
        rep.check(not bad, R, 'Runner.run_tests consumes the queue first-in first-out',
                  'the queue is reordered or indexed out of order: %s' % bad, key='queue:fifo',
                  func=fr.qualname, where=ctx.where(fr, fr.node))
        rt = [c for c in own_calls(fr.node) if call_name(c) == 'resume_tests']
        okq = bool(rt) and all(any(is_name(a, q) for a in c.args) for c in rt)
        rep.check(okq, R, 'resume_tests is handed the remaining queue', 'resume_tests does not get '
                  'the remaining layers', key='queue:resume', func=fr.qualname, where=ctx.where(fr, fr.node))
    fl = m.func('listing.Listing.report')
    loops = [n for n in ast.walk(fl.node) if isinstance(n, ast.For)]
    okl = len(loops) == 1 and isinstance(loops[0].iter, ast.Call) and not loops[0].iter.args and \
        alias_dotted(fl.node, loops[0].iter.func) == 'self.runner.ordered_layers' and \
        isinstance(loops[0].target, ast.Tuple) and len(loops[0].target.elts) == 3
    if okl:
        nm, _unused, tests = [e.id if isinstance(e, ast.Name) else None for e in loops[0].target.elts]
        cs = [c for c in ast.walk(loops[0]) if isinstance(c, ast.Call) and
              isinstance(c.func, ast.Attribute) and c.func.attr == 'list_of_tests']
        a_tests = (cs[0].args[0] if cs and len(cs[0].args) > 0 else kw(cs[0], 'tests')) if cs else None
        a_name = (cs[0].args[1] if cs and len(cs[0].args) > 1 else kw(cs[0], 'layer_name')) if cs else None
        okl = len(cs) == 1 and a_tests is not None and a_name is not None and \
            is_name(a_tests, tests) and is_name(a_name, nm) and \
            not any(isinstance(x, (ast.If, ast.Break, ast.Continue, ast.Return)) for x in ast.walk(loops[0]))
    rep.check(okl, R, 'Listing.report lists every (tests, layer_name) of ordered_layers(), unfiltered',
              'the listing does not iterate ordered_layers() unfiltered', key='listing:source',
              func=fl.qualname, where=ctx.where(fl, fl.node))
    fo = m.func('runner.Runner.ordered_layers')
    ys = [n for n in ast.walk(fo.node) if isinstance(n, ast.Yield) and isinstance(n.value, ast.Tuple)]
    main = [y for y in ys if len(y.value.elts) == 3 and isinstance(y.value.elts[2], ast.Subscript)]
    oky = len(main) == 1 and (dotted(main[0].value.elts[2].value) or '').endswith(STATE) and \
        norm(main[0].value.elts[2].slice) == norm(main[0].value.elts[0])
    loops = [n for n in ast.walk(fo.node) if isinstance(n, ast.For) and
             isinstance(n.iter, ast.Call) and call_name(n.iter) == 'order_by_bases']
    rep.check(oky and len(loops) == 1, R, 'ordered_layers: for layer in order_by_bases(...): yield '
              'name, layer, tests_by_layer_name[name]', 'ordered_layers does not yield the suite '
              'registered under the layer name in order_by_bases order', key='ordered_layers:yield',
              func=fo.qualname, where=ctx.where(fo, fo.node))
    frt = m.func('runner.resume_tests')
    lp = [n for n in ast.walk(frt.node) if isinstance(n, ast.For) and iterates_in_order(n.iter, 'layers')]
    rep.check(len(lp) == 1, R, 'resume_tests iterates its layers in order',
              'resume_tests does not iterate the layer list directly', key='resume_tests:iter',
              func=frt.qualname, where=ctx.where(frt, frt.node))


def r3_listing_runs_nothing(ctx, rep, R='C03.R3'):
    rep.rule(R, '--list-tests runs nothing: the Listing feature clears do_run_tests; no layer hook '
             'and no test execution is reachable in the call graph from Listing.report or from any '
             'formatter\'s list_of_tests')
    m = ctx.model
    fg = m.func('listing.Listing.global_setup')
    clears = [n for n in ast.walk(fg.node) if isinstance(n, ast.Assign) and any(
        alias_dotted(fg.node, t) == 'self.runner.do_run_tests' for t in n.targets) and
        isinstance(n.value, ast.Constant) and n.value.value is False]
    rep.check(len(clears) == 1, R, 'Listing.global_setup: self.runner.do_run_tests = False',
              'the listing feature does not switch running off', key='listing:switch',
              func=fg.qualname, where=ctx.where(fg, fg.node))
    roots = [m.func('listing.Listing.report')]
    for c in ctx.cg.formatter_classes():
        f = m.find_method(c, 'list_of_tests')
        if f is not None:
            roots.append(f)
    reach = ctx.cg.reachable_funcs(roots)
    bad = []
    for q, fi in reach.items():
        if hook_calls(ctx, fi, ('setUp', 'tearDown', 'testSetUp', 'testTearDown')):
            bad.append(q + ': layer hook')
        for c in own_calls(fi.node):
            if call_name(c) in ('run_layer', 'run_tests', 'setup_layer', 'resume_tests') or \
                    (isinstance(c.func, ast.Attribute) and c.func.attr in ('debug',) and not c.args
                     and is_name(c.func.value, 'test')):
                bad.append(q + ': ' + norm(c)[:40])
            if isinstance(c.func, ast.Name) and c.func.id == 'test' and c.args:
                bad.append(q + ': ' + norm(c)[:40])
    rep.check(not bad, R, 'no layer hook / test execution reachable from the listing (%d functions '
              'in the call-graph closure)' % len(reach), 'reachable from the listing: %s' % bad,
              key='listing:reach', func='listing.Listing.report')
    rep.floor(R, len(reach), 5, 'functions reachable from the listing')


def r4_once_per_iteration(ctx, rep, R='C03.R4'):
    rep.rule(R, 'function run_tests: each branch (normal / post-mortem) has one loop over the tests '
             'parameter, nested in the loop over range(options.repeat or 1), and executes each test '
             'exactly once per iteration on every path that does not leave the loop')
    from .c16 import exec_nodes
    fi = ctx.model.func('runner.run_tests')
    g = ctx.cfg(fi)
    X, loops = exec_nodes(ctx, fi, g)
    rep.check(len(loops) == 2, R, 'run_tests: two test loops (normal, post-mortem)',
              'found %d loops over the tests parameter' % len(loops), key='loops', func=fi.qualname,
              where=ctx.where(fi, fi.node))
    outer = [n for n in g.nodes if n.kind == 'for' and any(
        lp.id in g.reach([d for d, k in g.succ[n.id] if k == 'true'], avoid={n.id}, include_start=True)
        for lp in loops) and n not in loops]
    assigns = local_assignments(fi.node)
    rng_ok = False
    if outer:
        from .common import sources_of
        src = sources_of(outer[0].ast, assigns)
        rng_ok = 'options.repeat' in src and 'range' in src
    rep.check(bool(outer) and rng_ok, R, 'the test loops are nested in the loop over range(repeat), '
              'repeat = options.repeat or 1', 'no enclosing repeat loop derived from options.repeat',
              key='repeat-loop', func=fi.qualname, where=ctx.where(fi, fi.node))
    for e in (assigns.get('repeat') or []):
        if isinstance(e, ast.AST):
            okr = isinstance(e, ast.BoolOp) and isinstance(e.op, ast.Or) and \
                dotted(e.values[0]) == 'options.repeat' and isinstance(e.values[1], ast.Constant) \
                and e.values[1].value == 1
            rep.check(okr, R, 'repeat = options.repeat or 1', 'repeat is %s' % norm(e),
                      key='repeat-default', func=fi.qualname, where=ctx.where(fi, e))
    for lp in loops:
        body = [d for d, k in g.succ[lp.id] if k == 'true']
        inloop = g.loop_nodes(lp.id)
        outside = {n.id for n in g.nodes} - inloop - {lp.id}
        xs = [x for x in X if x in inloop]
        # every completed iteration executed the test ...
        r = g.reach(body, avoid=set(xs) | outside, include_start=True,
                    edge_ok=lambda s, d, k: k != 'exc')
        okp = lp.id not in r
        # ... once
        twice = any(y in g.reach([x], avoid={lp.id} | outside) for x in xs for y in xs)
        plain = dotted(lp.ast) == 'tests' or dotted(lp.ast) in params(fi)
        rep.check(bool(xs) and okp and not twice and plain, R,
                  'loop "%s": exactly one execution per completed iteration, over the unmodified '
                  'tests parameter' % norm(lp.stmt.iter),
                  'an iteration can complete without executing its test, or executes it twice, or '
                  'the loop does not iterate the tests parameter itself', key='once:' + str(loops.index(lp)),
                  func=fi.qualname, where=ctx.where(fi, lp.stmt))
    rep.floor(R, len(X), 2, 'test execution sites')


def r5_one_process_per_layer(ctx, rep, R='C03.R5'):
    rep.rule(R, 'exactly one process per layer: a layer that run_layer completed is popped exactly '
             'once; resume_tests creates one thread per queued layer and starts each exactly once; '
             'the empty first layer is inserted iff processes > 1 and not in a child, so in a -j N '
             'parent every real layer goes to a child; a child keeps exactly the layer named by '
             '--resume-layer')
    from .common import child_keeps_only_own_layer
    child_keeps_only_own_layer(ctx, rep, R)
    m = ctx.model
    fi = m.func('runner.Runner.run_tests')
    g = ctx.cfg(fi)
    rl = nodes_calling(g, lambda c: call_name(c) == 'run_layer')
    from .common import removal_nodes, queue_name
    pops = removal_nodes(g, queue_name(fi) or 'layers_to_run', front_only=True)
    heads = [n.id for n in g.nodes if n.kind == 'test' and isinstance(n.stmt, ast.While)]
    ok = bool(rl) and bool(pops) and bool(heads)
    if ok:
        normal = lambda s, d, k: k != 'exc'   # noqa: E731
        okp, _ = g.every_path_passes(rl, [heads[0], g.exit], set(pops), edge_ok=normal)
        twice = any(y in g.reach([x], avoid={heads[0]}) for x in pops for y in pops)
        # the pop happens only after run_layer (not before)
        early = any(r in g.reach([x], avoid={heads[0]}) for x in pops for r in rl)
        ok = okp and not twice and not early
    rep.check(ok, R, 'Runner.run_tests: pop(0) exactly once after a completed run_layer',
              'a completed layer is not removed from the queue exactly once (it would run again in a '
              'subprocess, or a queued layer would be dropped)', key='pop-once', func=fi.qualname,
              where=ctx.where(fi, fi.node))
    fr = m.func('runner.resume_tests')
    gr = ctx.cfg(fr)
    threads = [c for c in own_calls(fr.node) if (m.resolve_dotted(fr.module, dotted(c.func)) or '')
               == 'threading.Thread' and dotted(kw(c, 'target')) == 'spawn_layer_in_subprocess']
    lp = [n for n in gr.nodes if n.kind == 'for' and iterates_in_order(n.ast, 'layers')]
    ok = len(threads) == 1 and len(lp) == 1
    ready = None
    if ok:
        tn = nodes_calling(gr, lambda c: c is threads[0])
        body = [d for d, k in gr.succ[lp[0].id] if k == 'true']
        okp, _ = gr.every_path_passes(body, [lp[0].id], set(tn), include_start=True)
        ok = okp and not any(y in gr.reach([x], avoid={lp[0].id}) for x in tn for y in tn)
        for c in own_calls(fr.node):
            if isinstance(c.func, ast.Attribute) and c.func.attr == 'append' and c.args and \
                    c.args[0] is threads[0]:
                ready = dotted(c.func.value)
        # the layer of the thread is the loop's own layer
        a = kw(threads[0], 'args')
        et = element_target(lp[0].stmt)
        tv = [e.id for e in et.elts if isinstance(e, ast.Name)] if isinstance(et, ast.Tuple) else []
        ok = ok and ready is not None and isinstance(a, ast.Tuple) and \
            all(any(is_name(x, v) for x in a.elts) for v in tv[:2])
    rep.check(ok, R, 'resume_tests: one Thread(target=spawn_layer_in_subprocess) per queued layer',
              'resume_tests does not create exactly one subprocess thread per layer',
              key='thread-per-layer', func=fr.qualname, where=ctx.where(fr, fr.node))
    starts = nodes_calling(gr, lambda c: isinstance(c.func, ast.Attribute) and c.func.attr == 'start')
    oks = len(starts) == 1 and ready is not None
    if oks:
        st = gr.node(starts[0])
        recv = [dotted(c.func.value) for c in calls_in(st.ast) if isinstance(c.func, ast.Attribute)
                and c.func.attr == 'start'][0]
        from .common import reaching_defs
        src = reaching_defs(gr, starts[0], recv)
        oks = len(src) == 1 and isinstance(src[0], ast.Call) and \
            isinstance(src[0].func, ast.Attribute) and src[0].func.attr in ('pop', 'popleft') and \
            dotted(src[0].func.value) == ready
    rep.check(oks, R, 'resume_tests: each thread is started once (popped from the ready list, then '
              'started)', 'threads are not started exactly once each', key='start-once',
              func=fr.qualname, where=ctx.where(fr, fr.node))
    fo = m.func('runner.Runner.ordered_layers')
    ys = [n for n in ast.walk(fo.node) if isinstance(n, ast.Yield) and 'EmptyLayer' in norm(n)]
    oke = len(ys) == 1
    if oke:
        from sa.variance import path_literals
        lits = path_literals(ys[0]._parent, fo.node)
        got = sorted((norm(e), pos) for e, pos in lits)
        oke = got == [('self.options.processes > 1', True), ('self.options.resume_layer', False)]
    rep.check(oke, R, 'ordered_layers: empty first layer iff processes > 1 and not resume_layer',
              'the empty first layer is yielded under %s' % (got if ys else 'no condition'),
              key='empty-layer', func=fo.qualname, where=ctx.where(fo, fo.node))
    # after the first (empty) layer a -j N parent hands everything to resume_tests
    from .common import eval_bool

    def atom(e):
        s = norm(e)
        if 'processes' in s and isinstance(e, ast.Compare):
            return True
        return None
    g2 = ctx.cfg(fi, branch_oracle=lambda t: eval_bool(t, atom))
    rl2 = nodes_calling(g2, lambda c: call_name(c) == 'run_layer')
    again = rl2 and rl2[0] in g2.reach(rl2, edge_ok=lambda s, d, k: k != 'exc')
    rep.check(bool(rl2) and not again, R, 'with processes > 1 the parent runs one (the empty) layer '
              'in-process and no second one', 'with -j N the parent runs more than the first layer '
              'in-process', key='parallel:first-only', func=fi.qualname, where=ctx.where(fi, fi.node))


def r6_child_arguments(ctx, rep, R='C03.R6'):
    rep.rule(R, 'the child sees the same selection: spawn_layer_in_subprocess emits --resume-layer '
             'NAME NUMBER, then --default D for every runner default, then all original arguments '
             'after argv[0]; Runner.configure consumes exactly this grammar in this order and '
             'records defaults and original arguments for the next level')
    m = ctx.model
    fi = m.func('runner.spawn_layer_in_subprocess')
    gram = arg_grammar(fi, cmdline_list_name(fi))
    flat = [t for t in gram if t[0] != 'cond']
    want_head = [('const', '--resume-layer'), ('expr', 'layer_name'), ('expr', 'str(resume_number)')]
    i_res = next((i for i in range(len(flat)) if flat[i:i + 3] == want_head), None)
    i_def = next((i for i, t in enumerate(flat) if t[0] == 'star' and
                  t[1] == 'options.testrunner_defaults' and len(t[2]) == 2 and
                  t[2][0] == ('const', '--default') and t[2][1][0] == 'loopvar'), None)
    i_orig = next((i for i, t in enumerate(flat) if t == ('splice', 'options.original_testrunner_args[1:]')),
                  None)
    ok = None not in (i_res, i_def, i_orig) and i_res + 2 < i_def < i_orig and \
        sum(1 for t in flat if t == ('const', '--resume-layer')) == 1 and \
        sum(1 for t in flat if t[0] == 'splice' and 'original_testrunner_args' in t[1]) == 1
    rep.check(ok, R, 'spawn: --resume-layer NAME N, (--default D)*, original args[1:] in this order',
              'the child command line is not built as resume triple, all defaults, all original '
              'arguments (built: %s)' % (gram,), key='child-args:writer', func=fi.qualname,
              where=ctx.where(fi, fi.node))
    fc = m.func('runner.Runner.configure')
    gc_ = ctx.cfg(fc)
    tests = [n for n in gc_.nodes if n.kind == 'test' and '--resume-layer' in norm(n.ast)]
    pops = [n.id for n in gc_.nodes if n.kind == 'stmt' and any(
        isinstance(c.func, ast.Attribute) and c.func.attr == 'pop' and
        (alias_dotted(fc.node, c.func.value) or dotted(c.func.value)) == 'self.args' and len(c.args) == 1 and
        isinstance(c.args[0], ast.Constant) and c.args[0].value == 1 for c in calls_in(n.ast))]
    wl = [n for n in gc_.nodes if n.kind == 'test' and isinstance(n.stmt, ast.While) and
          '--default' in norm(n.ast)]
    ok = len(tests) == 1 and len(wl) == 1 and len(pops) == 5
    if ok:
        before = [p for p in pops if p not in gc_.reach([wl[0].id])]
        inloop = [p for p in pops if p in gc_.reach([d for d, k in gc_.succ[wl[0].id] if k == 'true'],
                                                     avoid={wl[0].id}, include_start=True)]
        ok = len(before) == 3 and len(inloop) == 2
    rep.check(ok, R, 'configure: pops flag, layer, number; then (flag, default)* while args[1] is '
              '--default', 'Runner.configure does not consume the resume grammar (3 pops, then 2 per '
              'default)', key='child-args:reader', func=fc.qualname, where=ctx.where(fc, fc.node))
    st_def = [n for n in ast.walk(fc.node) if isinstance(n, ast.Assign) and any(
        dotted(t) == 'options.testrunner_defaults' for t in n.targets) and
        dotted(n.value) == 'self.defaults']
    go = m.func('options.get_options')
    st_orig = [n for n in ast.walk(go.node) if isinstance(n, ast.Assign) and any(
        dotted(t) == 'options.original_testrunner_args' for t in n.targets) and is_name(n.value, 'args')]
    rep.check(len(st_def) == 1 and len(st_orig) == 1, R,
              'defaults and original arguments are recorded on the options for re-invocation',
              'options.testrunner_defaults / original_testrunner_args are not recorded',
              key='child-args:recorded', func=fc.qualname, where=ctx.where(fc, fc.node))


def default_dot_stores(ctx, fo, T):
    """statements of get_options that store the match-everything default in *T* (``options.test`` /
    ``options.module``): ``T = T or ['.']``, or ``T = ['.']`` under a guard that says T is empty
    (``if not T:``, also through a flag local such as ``module_set = bool(T)``)"""
    from .common import expander, guard_literals
    exp = expander(fo.node, only=lambda v: dotted(v) is not None or isinstance(v, ast.Constant) or (
        isinstance(v, ast.Call) and dotted(v.func) == 'bool'))
    out = []
    for n in ast.walk(fo.node):
        if not (isinstance(n, ast.Assign) and any(norm(t) == T for t in n.targets)):
            continue
        v = n.value

        def is_dot(e):
            return isinstance(e, (ast.List, ast.Tuple)) and len(e.elts) == 1 and \
                isinstance(e.elts[0], ast.Constant) and e.elts[0].value == '.'
        if isinstance(v, ast.BoolOp) and isinstance(v.op, ast.Or) and norm(v.values[0]) == T and is_dot(v.values[-1]):
            out.append(n)
        elif is_dot(v):
            for e, pos in guard_literals(ctx, fo, n, expand_bools=False):
                t = norm(exp(e))
                if (t == T and not pos) or (t == 'bool(%s)' % T and not pos) or \
                        (t in ('not %s' % T, 'not bool(%s)' % T) and pos):
                    out.append(n)
                    break
    return out


def cmdline_list_name(fi, handed='args'):
    """the local in which the child command line is built: the list handed to Popen (role name
    ``args``), or -- when that name is only an alias / a rendering of another list on every path
    (``args = built`` on one platform, ``args = <string made from built>`` on the other) -- the
    list it is made from"""
    def grows(nm):
        for n in ast.walk(fi.node):
            if isinstance(n, ast.Call) and isinstance(n.func, ast.Attribute) and \
                    n.func.attr in ('append', 'extend') and is_name(n.func.value, nm):
                return True
            if isinstance(n, ast.AugAssign) and is_name(n.target, nm):
                return True
        return False
    if grows(handed):
        return handed
    defs = [n.value for n in ast.walk(fi.node) if isinstance(n, ast.Assign) and
            any(is_name(t, handed) for t in n.targets)]
    srcs = {d.id for d in defs if isinstance(d, ast.Name)}
    if len(srcs) == 1:
        src = srcs.pop()
        if grows(src) and all(any(is_name(x, src) or is_name(x, handed) for x in ast.walk(d)) for d in defs):
            return src
    return handed


def arg_grammar(fi, lst):
    """what a function appends to the list *lst*, in order, as a small grammar:
    ('const', v) ('expr', text) ('splice', text) ('star', iterable text, [items per element])
    ('cond', condition text, [items]) -- from the statements of the function body in order"""
    def items_of(e, loopvar=None):
        if isinstance(e, ast.Starred):
            return [('splice', norm(e.value))]        # [a, *rest]
        if isinstance(e, ast.Constant):
            return [('const', e.value)]
        if loopvar and isinstance(e, ast.Name) and e.id == loopvar:
            return [('loopvar', e.id)]
        return [('expr', norm(e))]

    def seq(stmts, loopvar=None):
        out = []
        for st in stmts:
            if isinstance(st, ast.Assign) and any(is_name(t, lst) for t in st.targets):
                if isinstance(st.value, (ast.List, ast.Tuple)):
                    out[:] = []
                    for el in st.value.elts:
                        out += items_of(el, loopvar)
                continue
            if isinstance(st, ast.Expr) and isinstance(st.value, ast.Call) and \
                    isinstance(st.value.func, ast.Attribute) and is_name(st.value.func.value, lst):
                c = st.value
                if c.func.attr == 'append' and c.args:
                    out += items_of(c.args[0], loopvar)
                elif c.func.attr == 'extend' and c.args:
                    a = c.args[0]
                    if isinstance(a, (ast.List, ast.Tuple)):
                        for el in a.elts:
                            out += items_of(el, loopvar)
                    elif isinstance(a, (ast.GeneratorExp, ast.ListComp)) and len(a.generators) == 2 and \
                            not a.generators[0].ifs and not a.generators[1].ifs and \
                            isinstance(a.generators[0].target, ast.Name) and \
                            isinstance(a.generators[1].target, ast.Name) and \
                            isinstance(a.generators[1].iter, (ast.Tuple, ast.List)) and \
                            is_name(a.elt, a.generators[1].target.id):
                        # extend(x for d in D for x in (c1, d)) == for d in D: extend([c1, d])
                        inner = []
                        for el in a.generators[1].iter.elts:
                            inner += items_of(el, a.generators[0].target.id)
                        out.append(('star', norm(a.generators[0].iter), inner))
                    else:
                        out.append(('splice', norm(a)))
                continue
            if isinstance(st, ast.AugAssign) and is_name(st.target, lst) and isinstance(st.op, ast.Add):
                a = st.value
                if isinstance(a, (ast.List, ast.Tuple)):
                    for el in a.elts:
                        out += items_of(el, loopvar)
                else:
                    out.append(('splice', norm(a)))
                continue
            if isinstance(st, ast.For) and isinstance(st.target, ast.Name):
                inner = seq(st.body, st.target.id)
                if inner:
                    out.append(('star', norm(st.iter), inner))
                continue
            if isinstance(st, ast.If):
                inner = seq(st.body, loopvar)
                if inner:
                    out.append(('cond', norm(st.test), inner))
                continue
            if isinstance(st, (ast.Try, ast.With)):
                out += seq(st.body, loopvar)
        return out
    return seq(fi.node.body)


# ---------------------------------------------------------------------------------------------
# R10 -- the positional filters of the command line reach the pattern lists

POSITIONALS = (('legacy_module_filter', 'module'), ('legacy_test_filter', 'test'))


def r10_positional_filters(ctx, rep, R='C03.R10'):
    rep.rule(R, 'the positional filters reach the pattern lists ("no other test is executed"): in '
             'get_options the positional module filter is added to options.module whenever it is given '
             'and is not ".", and the positional test filter is added to options.test whenever it is '
             'given -- decided by evaluating the branch conditions that dominate each adding site '
             '(locals resolved through reaching definitions) over the finite domain '
             'module filter in {absent, ".", other} x test filter in {absent, given} x '
             '--module / --test given or not; a case in which a given filter is added nowhere runs '
             'tests the command line excluded')
    from sa.srcmodel import AnalysisError
    from sa.variance import UNKNOWN, eval_guard
    from .common import reaching_defs
    fo = ctx.model.func('options.get_options')
    mod = fo.module
    dests = set()
    for n in ast.walk(mod.tree):
        if isinstance(n, ast.Call) and isinstance(n.func, ast.Attribute) and n.func.attr == 'add_argument' \
                and n.args and isinstance(n.args[0], ast.Constant) and isinstance(n.args[0].value, str) \
                and not n.args[0].value.startswith('-'):
            dests.add(n.args[0].value)
    for src_, _t in POSITIONALS:
        if src_ not in dests:
            raise AnalysisError('anchor vanished: positional argument %s of the option parser' % src_)
    g = ctx.cfg(fo)

    def resolve(e, nid, depth=0):
        """normalised text of *e* with locals replaced by their (unique) reaching definition"""
        if isinstance(e, ast.Name) and depth < 4:
            ds = reaching_defs(g, nid, e.id)
            if len(ds) == 1 and isinstance(ds[0], ast.expr):
                return resolve(ds[0], nid, depth + 1)
        return norm(e)

    def contains_src(v, nid, want):
        """the value expression puts the source into a new list: [X], L + [X], [*L, X]"""
        if isinstance(v, ast.List):
            return any(resolve(x, nid) == want for x in v.elts)
        if isinstance(v, ast.BinOp) and isinstance(v.op, ast.Add):
            return contains_src(v.left, nid, want) or contains_src(v.right, nid, want)
        if isinstance(v, ast.IfExp):
            return contains_src(v.body, nid, want) and contains_src(v.orelse, nid, want)
        if isinstance(v, ast.BoolOp) and isinstance(v.op, ast.Or):
            return False
        return False
    total = 0
    for src_, tgt in POSITIONALS:
        S, T = 'options.' + src_, 'options.' + tgt
        sites = []
        for nd in g.nodes:
            if nd.kind != 'stmt':
                continue
            a = nd.ast
            for c in ast.walk(a):
                if isinstance(c, ast.Call) and isinstance(c.func, ast.Attribute) and \
                        c.func.attr == 'append' and len(c.args) == 1 and \
                        resolve(c.func.value, nd.id) == T and resolve(c.args[0], nd.id) == S:
                    sites.append(nd)
            if isinstance(a, ast.Assign) and any(norm(t) == T for t in a.targets) and \
                    contains_src(a.value, nd.id, S):
                sites.append(nd)
            if isinstance(a, ast.AugAssign) and norm(a.target) == T and isinstance(a.op, ast.Add) and \
                    contains_src(a.value, nd.id, S):
                sites.append(nd)
        if not sites:
            rep.bad(R, '%s is added to %s' % (S, T), 'no statement of get_options adds the positional '
                    '%s to %s: the filter given on the command line selects nothing' % (src_, T),
                    key='no-site:' + src_, func=fo.qualname, where=ctx.where(fo, fo.node))
            continue
        total += len(sites)

        def expand_at(nid):
            class Sub(ast.NodeTransformer):
                def visit_Name(self, n):
                    if isinstance(n.ctx, ast.Load):
                        ds = reaching_defs(g, nid, n.id)
                        if len(ds) == 1 and isinstance(ds[0], ast.expr) and \
                                not any(isinstance(x, ast.Call) for x in ast.walk(ds[0])):
                            import copy
                            return Sub().visit(copy.deepcopy(ds[0]))
                    return n
            import copy
            return lambda e: ast.fix_missing_locations(Sub().visit(copy.deepcopy(e)))
        guards = {nd.id: g.dominating_literals(nd.id, expand=expand_at(nd.id)) for nd in sites}
        undecided = False
        for lmf in (None, '.', 'M'):
            for ltf in ((None,) if lmf is None else (None, 'T')):
                for m0 in (None, ['m0']):
                    for t0 in (None, ['t0']):
                        env = {'options.legacy_module_filter': lmf, 'options.legacy_test_filter': ltf,
                               'options.module': m0, 'options.test': t0}
                        given = {'legacy_module_filter': lmf not in (None, '.'),
                                 'legacy_test_filter': ltf is not None}[src_]
                        ran = []
                        for nd in sites:
                            vals = []
                            for e, pos in guards[nd.id]:
                                v = eval_guard(e, env)
                                vals.append(UNKNOWN if v is UNKNOWN else (bool(v) == pos))
                            if any(v is False for v in vals):
                                continue
                            if any(v is UNKNOWN for v in vals):
                                undecided = True
                            ran.append(nd)
                        case = 'module filter %r, test filter %r, --module %s, --test %s' % (
                            lmf, ltf, 'given' if m0 else 'absent', 'given' if t0 else 'absent')
                        if given and not ran:
                            rep.bad(R, '%s reaches %s in every case' % (S, T),
                                    'with %s no statement adds the positional %s to %s (adding sites: '
                                    '%s): tests the command line excluded are run'
                                    % (case, src_, T, '; '.join(
                                        'L%s under %s' % (x.lineno, ' and '.join(
                                            ('(%s)' if p_ else 'not (%s)') % norm(e_) for e_, p_ in guards[x.id]) or 'true')
                                        for x in sites)),
                                    key='dropped:%s' % src_, func=fo.qualname,
                                    where=ctx.where(fo, sites[0].ast))
                        elif not given and src_ == 'legacy_module_filter' and lmf == '.' and ran and \
                                not undecided:
                            pass        # adding "." selects everything: harmless
        # the "select everything" default (options.<list> = options.<list> or ['.']) is applied after
        # the positional filter was merged in: a pattern added to a list that already holds '.'
        # restricts nothing ('.' matches every name), so everything the filter excludes is selected
        dstmts = default_dot_stores(ctx, fo, T)
        dflt = [nd for nd in g.nodes if nd.kind == 'stmt' and any(nd.ast is d_ for d_ in dstmts)]
        late = [x for d_ in dflt for x in sites if x.id in g.reach([d_.id], edge_ok=lambda s_, d2, k_: k_ != 'exc')]
        rep.check(not late, R, 'the match-everything default of %s is applied after the positional filter was merged' % T,
                  'the positional %s is added to %s after the default [\'.\'] was stored there (L%s): the '
                  'list then contains ".", which matches every name, and the filter excludes nothing -- '
                  'modules / tests the command line excluded are imported and run' % (
                      src_, T, late[0].lineno if late else '?'), key='default-before-merge:' + src_,
                  func=fo.qualname, where=ctx.where(fo, late[0].ast if late else fo.node))
        if undecided:
            rep.assume('%s: some branch condition on the way to an adding site of %s is outside the '
                       'finite domain; those cases are counted as "added"' % (R, src_))
        rep.ok(R, '%s reaches %s whenever given (%d adding site(s), 20 cases)' % (S, T, len(sites)))
    rep.floor(R, total, 2, 'statements adding a positional filter to a pattern list')


# ---------------------------------------------------------------------------------------------
# R11 -- a child resolves the (possibly relative) arguments where the parent did

def r11_child_working_directory(ctx, rep, R='C03.R11'):
    rep.rule(R, 'a layer subprocess is started in the directory the run was started in: the cwd= of '
             'the Popen call is the reader\'s cwd parameter, which resume_tests receives from '
             'Runner.run_tests (self.cwd = the constructor\'s cwd), and every construction of a Runner '
             'hands over a working directory that was fixed before any test ran (os.getcwd() when the '
             'caller gave none).  The child re-parses the original, possibly relative, --path / '
             '--test-path arguments; a test or layer that changes the directory must not change what '
             'the child discovers')
    from .c02 import _bind_positional
    from .common import node_of
    m = ctx.model
    sp = m.func('runner.spawn_layer_in_subprocess')
    pop = [c for c in own_calls(sp.node) if (m.resolve_dotted(sp.module, dotted(c.func)) or '') == 'subprocess.Popen']
    ok = len(pop) == 1 and kw(pop[0], 'cwd') is not None and is_name(kw(pop[0], 'cwd'), 'cwd') and \
        'cwd' in [a.arg for a in sp.node.args.args] and 'cwd' not in local_assignments(sp.node)
    rep.check(ok, R, 'spawn_layer_in_subprocess: Popen(..., cwd=<its cwd parameter>)',
              'the layer subprocess is not started in the directory handed down by the caller',
              key='cwd:popen', func=sp.qualname, where=ctx.where(sp, pop[0] if pop else sp.node))
    rt = m.func('runner.resume_tests')
    th = [c for c in own_calls(rt.node) if (m.resolve_dotted(rt.module, dotted(c.func)) or '') == 'threading.Thread'
          and dotted(kw(c, 'target')) == 'spawn_layer_in_subprocess' and isinstance(kw(c, 'args'), ast.Tuple)]
    ok = False
    if len(th) == 1:
        bound, _ar = _bind_positional(sp, list(kw(th[0], 'args').elts))
        ok = 'cwd' in bound and is_name(bound['cwd'], 'cwd') and 'cwd' not in local_assignments(rt.node)
    rep.check(ok, R, 'resume_tests passes its cwd parameter to every subprocess thread',
              'resume_tests does not hand its working directory to the subprocess threads',
              key='cwd:thread', func=rt.qualname, where=ctx.where(rt, th[0] if th else rt.node))
    fr = m.func('runner.Runner.run_tests')
    rc = [c for c in own_calls(fr.node) if call_name(c) == 'resume_tests']
    ok = bool(rc)
    for c in rc:
        bound, _ar = _bind_positional(rt, list(c.args), list(c.keywords))
        ok = ok and 'cwd' in bound and dotted(bound['cwd']) == 'self.cwd'
    rep.check(ok, R, 'Runner.run_tests: resume_tests(..., self.cwd)',
              'the layers resumed in subprocesses are not started in the Runner\'s working directory',
              key='cwd:run_tests', func=fr.qualname, where=ctx.where(fr, rc[0] if rc else fr.node))
    init = m.func('runner.Runner.__init__')
    stores = [n for n in ast.walk(init.node) if isinstance(n, ast.Assign) and
              any(dotted(t) == 'self.cwd' for t in n.targets)]
    others = [fi.qualname for fi in m.all_functions() if fi is not init and fi.module.name != 'tests'
              for n in ast.walk(fi.node) if isinstance(n, (ast.Assign, ast.AugAssign)) and
              any((dotted(t) or '').endswith('.cwd') and (dotted(t) or '').split('.')[0] in ('self', 'runner')
                  for t in (n.targets if isinstance(n, ast.Assign) else [n.target]))]
    init_fixes = any(any((m.resolve_dotted(init.module, dotted(c.func)) or '') == 'os.getcwd'
                         for c in ast.walk(n.value) if isinstance(c, ast.Call) and dotted(c.func))
                     for n in stores) or any(
        (m.resolve_dotted(init.module, dotted(c.func)) or '') == 'os.getcwd'
        for v in local_assignments(init.node).get('cwd', []) if isinstance(v, ast.AST)
        for c in ast.walk(v) if isinstance(c, ast.Call) and dotted(c.func))
    ok = len(stores) == 1 and (is_name(stores[0].value, 'cwd') or init_fixes) and not others
    rep.check(ok, R, 'Runner.__init__: self.cwd = cwd, assigned nowhere else',
              'Runner.cwd is not the constructor argument (other stores: %s)' % others,
              key='cwd:init', func=init.qualname, where=ctx.where(init, stores[0] if stores else init.node))
    # every construction of a Runner outside the tests
    n = 0
    for fi in m.all_functions():
        if fi.module.name.startswith('tests'):
            continue
        for c in own_calls(fi.node):
            r = ctx.cg.resolve_call(c, fi)
            if not (isinstance(r, list) and len(r) == 1 and r[0] is init):
                continue
            n += 1
            bound, _ar = _bind_positional(init, list(c.args), list(c.keywords))
            a = bound.get('cwd')
            ok = init_fixes
            why = 'no cwd argument'
            if not ok and a is not None:
                if isinstance(a, ast.Call) and (m.resolve_dotted(fi.module, dotted(a.func)) or '') == 'os.getcwd':
                    ok = True
                elif isinstance(a, ast.Name):
                    g = ctx.cfg(fi)
                    X = a.id
                    fix = [x.id for x in g.nodes if x.kind == 'stmt' and isinstance(x.ast, ast.Assign) and
                           any(is_name(t, X) for t in x.ast.targets) and any(
                               (m.resolve_dotted(fi.module, dotted(cc.func)) or '') == 'os.getcwd'
                               for cc in ast.walk(x.ast.value) if isinstance(cc, ast.Call) and dotted(cc.func))]

                    def edge_ok(s_, d_, k_):
                        nd = g.node(s_)
                        if nd.kind == 'test' and isinstance(nd.ast, ast.Compare) and is_name(nd.ast.left, X) and \
                                len(nd.ast.ops) == 1 and isinstance(nd.ast.comparators[0], ast.Constant) and \
                                nd.ast.comparators[0].value is None:
                            # the edge on which X is known not to be None is a fixed directory too
                            if isinstance(nd.ast.ops[0], ast.Is) and k_ == 'false':
                                return False
                            if isinstance(nd.ast.ops[0], ast.IsNot) and k_ == 'true':
                                return False
                        return k_ != 'exc'
                    cn = node_of(g, c)
                    ok = bool(fix) and cn is not None and \
                        cn not in g.reach([g.entry], avoid=set(fix), include_start=True, edge_ok=edge_ok)
                    why = '%s can still be None when the Runner is created' % X
            rep.check(ok, R, '%s: Runner(..., cwd=<fixed at start-up>)' % fi.qualname,
                      '%s creates the Runner without pinning the working directory (%s): Popen(cwd=None) '
                      'starts a layer subprocess wherever the parent happens to be by then -- after a test '
                      'or layer changed the directory the child resolves relative search paths elsewhere '
                      'and finds other tests (or none)' % (fi.qualname, why),
                      key='cwd:create:' + fi.qualname, func=fi.qualname, where=ctx.where(fi, c))
    rep.floor(R, n, 1, 'constructions of a Runner')
