"""C12 -- reported counts and failure lists equal what happened (argument roles, accumulators)."""
import ast
import re

from . import tsrules
from .common import (alias_dotted, Ctx, call_name, dotted, is_name, kw, local_assignments, norm, own_calls,
                     params)

P = 'C12'


def run(model, rep, tier):
    ctx = Ctx(model)
    r1_summary_roles(ctx, rep)
    from . import c02
    c02.result_transfers(ctx, rep, 'C12.R1')
    r2_lists(ctx, rep)
    r3_accumulators(ctx, rep)
    rep.rule('C12.R4', 'testsRun grows by exactly countTestCases() per test on every protocol word '
             '(startTest path and the addSkip-without-startTest path)')
    tsrules.tests_run_counter(ctx, rep, 'C12.R4')
    tsrules.record_units(rep, tsrules.exploration(ctx))
    from . import c07
    c07.r1_r2_wire(ctx, rep, R1='C12.R5', R2='C12.R5')
    r6_labels(ctx, rep)
    r7_entry_shapes(ctx, rep)
    entry_info_is_opaque(ctx, rep, 'C12.R7')
    r8_per_object_state(ctx, rep)
    c02.accumulators_never_discarded(ctx, rep, 'C12.R9')
    c02.accumulator_roles_through_calls(ctx, rep, 'C12.R3')
    from . import lifetime
    rep.rule('C12.R10', "each run sees only its own inputs (rules/lifetime.py): no function of the package is memoised across runs (functools.lru_cache / cache), module-level containers that functions add to are emptied at the start of a run, no mutable class attribute is shared through instances (mutated in place or handed out without being re-bound per instance), and no option with a mutable argparse default is mutated in place after parsing -- a second run in the same process (other layer objects under the same names, other outcomes, other filters) must not inherit the first run's state")
    lifetime.check(ctx, rep, 'C12.R10')
    # one lost child = one entry: shared with C07.R8
    c07.r8_noise_tolerance(ctx, rep, R='C12.R12')
    rep.rule('C12.R11', 'nothing is counted twice across the processes of a run: a child started for '
             '--resume-layer NAME keeps exactly the layer whose name equals NAME (the parent starts one child '
             'per remaining layer; a child that also keeps layers whose names merely contain NAME runs and '
             'reports their tests a second time)')
    from .common import child_keeps_only_own_layer
    child_keeps_only_own_layer(ctx, rep, 'C12.R11')
    from . import robust
    robust.asserts_have_no_effects(ctx, rep, 'C12.R20', 'C12')
    rep.units['cfg'] = ctx.cfg_stats


# ---- linear "sum of lengths" terms ---------------------------------------------------------

def terms(expr, fnode, depth=0, cut=None):
    """multiset (list) of source atoms of an integer expression that is a sum of len(x) / plain
    attributes; locals are expanded through their single Assign plus ``+=`` updates.
    An unrecognised construct yields an atom '?<text>'."""
    if depth > 6:
        return ['?deep']
    if isinstance(expr, ast.BinOp) and isinstance(expr.op, ast.Add):
        return terms(expr.left, fnode, depth, cut) + terms(expr.right, fnode, depth, cut)
    from .common import alias_dotted
    if isinstance(expr, ast.Call) and dotted(expr.func) == 'len' and len(expr.args) == 1 and \
            dotted(expr.args[0]):
        return ['len(%s)' % alias_dotted(fnode, expr.args[0])]
    if isinstance(expr, ast.Attribute) and dotted(expr):
        return [alias_dotted(fnode, expr)]
    if isinstance(expr, ast.Name):
        out = []
        found = False
        for n in ast.walk(fnode):
            if cut is not None and getattr(n, 'lineno', 0) > cut:
                continue
            if isinstance(n, ast.Assign) and len(n.targets) == 1 and is_name(n.targets[0], expr.id):
                if found and not (isinstance(n.value, ast.Constant)):
                    pass
                if isinstance(n.value, ast.Constant) and n.value.value == 0:
                    found = True
                    continue
                out += terms(n.value, fnode, depth + 1, cut)
                found = True
            elif isinstance(n, ast.AugAssign) and is_name(n.target, expr.id):
                if isinstance(n.op, ast.Add):
                    out += terms(n.value, fnode, depth + 1, cut)
                else:
                    out.append('?' + norm(n))
                found = True
        return out if found else [expr.id]
    return ['?' + norm(expr)]


def r1_summary_roles(ctx, rep, R='C12.R1'):
    rep.rule(R, 'argument roles: the per-layer summary gets n_tests from result.testsRun, n_failures '
             'from result.failures + result.unexpectedSuccesses, n_errors from result.errors (+ '
             'import errors), n_skipped from result.skipped; the totals get the Runner '
             'accumulators ran / failures / errors(+import_errors) / skipped; function run_tests '
             'returns testsRun and Runner.run_tests adds what run_layer / resume_tests return to '
             'self.ran')
    m = ctx.model
    fi = m.func('runner.run_tests')
    res = _result_name(fi)
    calls = [c for c in own_calls(fi.node) if isinstance(c.func, ast.Attribute) and
             c.func.attr == 'summary' and ctx.cg.is_formatter_receiver(c.func.value, fi)]
    rep.check(len(calls) == 1 and res is not None, R, 'run_tests: one output.summary(...) call',
              'found %d summary calls' % len(calls), key='summary:site', func=fi.qualname,
              where=ctx.where(fi, fi.node))
    want = {'n_tests': ['%s.testsRun'], 'n_failures': ['len(%s.failures)', 'len(%s.unexpectedSuccesses)'],
            'n_errors': ['len(%s.errors)', 'len(import_errors)'], 'n_skipped': ['len(%s.skipped)']}
    n = 0
    for c in calls:
        for k, w in sorted(want.items()):
            n += 1
            e = kw(c, k)
            got = sorted(terms(e, fi.node, cut=c.lineno)) if e is not None else ['<missing>']
            exp = sorted(x % res if '%s' in x else x for x in w)
            rep.check(got == exp, R, 'summary %s = %s' % (k, ' + '.join(exp)),
                      'summary argument %s is computed from %s, expected %s' % (k, got, exp),
                      key='summary:' + k, func=fi.qualname, where=ctx.where(fi, c))
    # one result object per iteration: counts and lists of an iteration are those of that iteration
    from .common import repeat_loop
    g = ctx.cfg(fi)
    rl = repeat_loop(ctx, fi, g)
    mk = [n.id for n in g.nodes if n.kind == 'stmt' and isinstance(n.ast, ast.Assign) and
          isinstance(n.ast.value, ast.Call) and (dotted(n.ast.value.func) or '').endswith('TestResult')]
    fresh = rl is not None and len(mk) == 1 and mk[0] in g.loop_nodes(rl.id)
    if fresh:
        body = [d for d, k in g.succ[rl.id] if k == 'true']
        r = g.reach(body, avoid=set(mk), include_start=True)
        fresh = rl.id not in r and not any(
            x in r for x in g.loop_nodes(rl.id) if g.node(x).kind == 'for')
    rep.check(fresh, R, 'run_tests: a fresh TestResult is created in every --repeat iteration, before the '
              'test loops', 'the TestResult is created outside the --repeat loop (or not on every path '
              'of an iteration): failures, errors, skips and testsRun of earlier iterations are '
              'counted and listed again', key='result:per-iteration', func=fi.qualname,
              where=ctx.where(fi, fi.node))
    rets = [x for x in ast.walk(fi.node) if isinstance(x, ast.Return) and x.value is not None]
    ok = bool(rets) and all(terms(x.value, fi.node) and
                            set(terms(x.value, fi.node)) == {'%s.testsRun' % res} for x in rets)
    rep.check(ok, R, 'run_tests returns %s.testsRun' % res,
              'function run_tests returns %s' % [sorted(set(terms(x.value, fi.node))) for x in rets],
              key='run_tests:return', func=fi.qualname, where=ctx.where(fi, fi.node))
    # totals
    st = m.func('statistics.Statistics.report')
    tcalls = [c for c in own_calls(st.node) if isinstance(c.func, ast.Attribute) and c.func.attr == 'totals']
    wt = {'n_tests': ['self.runner.ran'], 'n_failures': ['len(self.runner.failures)'],
          'n_errors': ['len(self.runner.errors)', 'len(self.runner.import_errors)'],
          'n_skipped': ['len(self.runner.skipped)']}
    rep.check(len(tcalls) == 1, R, 'Statistics.report: one output.totals(...) call',
              'found %d totals calls' % len(tcalls), key='totals:site', func=st.qualname,
              where=ctx.where(st, st.node))
    for c in tcalls:
        for k, w in sorted(wt.items()):
            n += 1
            e = kw(c, k)
            got = sorted(terms(e, st.node)) if e is not None else ['<missing>']
            rep.check(got == sorted(w), R, 'totals %s = %s' % (k, ' + '.join(sorted(w))),
                      'totals argument %s is computed from %s, expected %s' % (k, got, sorted(w)),
                      key='totals:' + k, func=st.qualname, where=ctx.where(st, c))
    rep.floor(R, n, 8, 'summary/totals arguments')
    # Runner.run_tests: self.ran += run_layer(...) / resume_tests(...)
    fr = m.func('runner.Runner.run_tests')
    adds = [x for x in ast.walk(fr.node) if isinstance(x, ast.AugAssign) and
            dotted(x.target) == 'self.ran' and isinstance(x.op, ast.Add) and
            isinstance(x.value, ast.Call)]
    got = sorted(call_name(x.value) for x in adds)
    others = [x for x in ast.walk(fr.node) if isinstance(x, (ast.Assign, ast.AugAssign)) and
              any(dotted(t) == 'self.ran' for t in (x.targets if isinstance(x, ast.Assign)
                                                   else [x.target])) and x not in adds]
    rep.check(got == ['resume_tests', 'run_layer'] and not others, R,
              'Runner.run_tests: self.ran += run_layer(...) and += resume_tests(...), nothing else',
              'self.ran is updated by %s (other stores: %d)' % (got, len(others)),
              key='ran:accumulate', func=fr.qualname, where=ctx.where(fr, fr.node))
    # name-preserving forwarding of the accumulators down the call chain
    for caller, callee in (('runner.Runner.run_tests', 'runner.run_layer'),
                           ('runner.Runner.run_tests', 'runner.resume_tests'),
                           ('runner.run_layer', 'runner.run_tests'),
                           ('runner.resume_tests', 'runner.spawn_layer_in_subprocess')):
        fc, fe = m.func(caller), m.func(callee)
        cps = params(fe)
        sites = [c for c in ast.walk(fc.node) if isinstance(c, ast.Call) and
                 call_name(c) == fe.name]
        # thread target form: Thread(target=f, args=(...))
        targs = []
        for c in ast.walk(fc.node):
            if isinstance(c, ast.Call) and kw(c, 'target') is not None and \
                    dotted(kw(c, 'target')) == fe.name and isinstance(kw(c, 'args'), ast.Tuple):
                targs.append(kw(c, 'args').elts)
        arglists = [list(c.args) for c in sites] + targs
        bad = []
        for args in arglists:
            for i, a in enumerate(args):
                d = (dotted(a) or '').split('.')[-1]
                if d in ('failures', 'errors', 'skipped', 'import_errors') and d in cps and \
                        (i >= len(cps) or cps[i] != d):
                    bad.append('%s passed as %s' % (norm(a), cps[i] if i < len(cps) else '?'))
        rep.check(bool(arglists) and not bad, R, '%s -> %s: accumulators forwarded to the parameters '
                  'of the same name' % (caller, callee), 'crossed accumulators: %s' % bad,
                  key='forward:%s->%s' % (caller, callee), func=fc.qualname,
                  where=ctx.where(fc, fc.node))


def _result_name(fi):
    for n in ast.walk(fi.node):
        if isinstance(n, ast.Assign) and isinstance(n.value, ast.Call) and \
                (dotted(n.value.func) or '').endswith('TestResult') and \
                isinstance(n.targets[0], ast.Name):
            return n.targets[0].id
    return None


def r2_lists(ctx, rep, R='C12.R2'):
    rep.rule(R, '"Tests with errors" lists Runner.errors and "Tests with failures" lists '
             'Runner.failures (not crossed); every formatter prints each entry of the list it is given')
    fi = ctx.model.func('filter.Filter.report')
    n = 0
    for meth, acc in (('tests_with_errors', 'errors'), ('tests_with_failures', 'failures')):
        cs = [c for c in own_calls(fi.node) if isinstance(c.func, ast.Attribute) and c.func.attr == meth]
        ok = len(cs) == 1 and len(cs[0].args) == 1 and alias_dotted(fi.node, cs[0].args[0]) == 'self.runner.' + acc
        n += len(cs)
        rep.check(ok, R, 'Filter.report: output.%s(self.runner.%s)' % (meth, acc),
                  '%s is given %s' % (meth, [norm(c.args[0]) for c in cs if c.args]),
                  key='lists:' + meth, func=fi.qualname, where=ctx.where(fi, fi.node))
        for cls in ctx.cg.formatter_classes():
            f2 = cls.methods.get(meth)
            if f2 is None:
                continue
            if all(isinstance(x, ast.Pass) or (isinstance(x, ast.Expr) and
                                               isinstance(x.value, ast.Constant)) or
                   (isinstance(x, ast.Return) and (x.value is None or (
                       isinstance(x.value, ast.Constant) and x.value.value is None)))
                   for x in f2.node.body):
                continue        # a stream formatter (subunit) that has no listing by design
            p = params(f2)[1]
            loops = [x for x in ast.walk(f2.node) if isinstance(x, ast.For) and is_name(x.iter, p)]
            emits = False
            for lp in loops:
                tv = {y.id for y in ast.walk(lp.target) if isinstance(y, ast.Name)}
                for c in ast.walk(lp):
                    if isinstance(c, ast.Call) and any(isinstance(y, ast.Name) and y.id in tv
                                                       for a in c.args for y in ast.walk(a)):
                        emits = True
                if any(isinstance(y, (ast.Break, ast.Return)) for y in ast.walk(lp)):
                    emits = False
            rep.check(emits, R, '%s.%s emits every entry of its list' % (cls.name, meth),
                      'the formatter does not iterate and emit its whole argument',
                      key='lists:%s.%s' % (cls.name, meth), func=f2.qualname,
                      where=ctx.where(f2, f2.node))
    rep.floor(R, n, 2, 'list report calls')


def _mutated_params(fi, names):
    out = set()
    for c in own_calls(fi.node):
        if isinstance(c.func, ast.Attribute) and c.func.attr in ('append', 'extend') and \
                isinstance(c.func.value, ast.Name) and c.func.value.id in names:
            out.add(c.func.value.id)
    return out


def r3_accumulators(ctx, rep, R='C12.R3'):
    rep.rule(R, 'the in-process path (function run_tests) and the subprocess path '
             '(spawn_layer_in_subprocess) update the same accumulators: every list parameter the '
             'in-process path fills is also filled by the subprocess reader')
    m = ctx.model
    a = m.func('runner.run_tests')
    b = m.func('runner.spawn_layer_in_subprocess')
    shared = [p for p in params(a) if p in params(b) and p in ('failures', 'errors', 'skipped')]
    ma = _mutated_params(a, shared)
    mb = _mutated_params(b, shared)
    # accumulators filled through an alias (``for count, tests in ((nfail, failures), ...)``)
    from . import c07
    gb = ctx.cfg(b)
    mb |= {c.acc for c in c07._consumer_loops(ctx, b, gb) if c.acc in shared}
    rep.floor(R, len(ma), 3, 'accumulators filled in-process')
    for p in sorted(ma):
        rep.check(p in mb, R, 'accumulator %r is filled on both paths' % p,
                  'function run_tests fills %r but spawn_layer_in_subprocess never touches its %r '
                  'parameter: the value is lost for layers run in a subprocess (-j N, resumed layers)'
                  % (p, p), key='accumulator:' + p, func=b.qualname, where=ctx.where(b, b.node))


LABELS = {'n_tests': 'tests', 'n_failures': 'failures', 'n_errors': 'errors', 'n_skipped': 'skipped'}


_CTX = []


def r6_labels(ctx, rep, R='C12.R6'):
    _CTX[:] = [ctx]
    rep.rule(R, 'in the summary / totals line of every formatter each number is followed by its own '
             'label (the n_failures value is printed before "failures", ...)')
    n = 0
    for cls in ctx.cg.formatter_classes():
        for meth in ('summary', 'totals'):
            fi = cls.methods.get(meth)
            if fi is None:
                continue
            seq = _token_sequence(fi)
            if seq is None:
                continue
            n += 1
            bad = []
            for i, (kind, val) in enumerate(seq):
                if kind == 'param' and val in LABELS:
                    nxt = next((v for k, v in seq[i + 1:] if k == 'text' and v.strip()), '')
                    if not nxt.strip().startswith(LABELS[val]):
                        bad.append('%s is followed by %r' % (val, nxt.strip()[:20]))
            present = {v for k, v in seq if k == 'param'}
            missing = sorted(set(LABELS) - present)
            rep.check(not bad and not missing, R, '%s.%s: numbers and labels agree' % (cls.name, meth),
                      'mislabelled numbers: %s; missing: %s' % (bad, missing),
                      key='labels:%s.%s' % (cls.name, meth), func=fi.qualname,
                      where=ctx.where(fi, fi.node))
    rep.floor(R, n, 4, 'summary/totals renderers')


def _token_sequence(fi):
    """[(kind, value)] of what the method prints, in order; None if it prints nothing"""
    from .common import expander, inlined
    ps = set(params(fi))
    node = inlined(_CTX[0], fi) if _CTX else fi.node
    expand = expander(node, lambda v: isinstance(v, (ast.Tuple, ast.Constant, ast.BinOp, ast.JoinedStr)))
    calls = [c for c in ast.walk(node) if isinstance(c, ast.Call)]
    for c in calls:
        if dotted(c.func) == 'print' and c.args and isinstance(c.args[0], ast.Call) and \
                isinstance(c.args[0].func, ast.Attribute) and c.args[0].func.attr == 'format' and \
                isinstance(c.args[0].func.value, ast.Constant):
            fmt = c.args[0].func.value.value
            args = c.args[0].args
            pieces = re.split(r'\{[^{}]*\}', fmt)
            seq = [('text', pieces[0])]
            for a, piece in zip(args, pieces[1:]):
                nm = [x.id for x in ast.walk(a) if isinstance(x, ast.Name) and x.id in ps]
                seq.append(('param', nm[0]) if nm else ('other', norm(a)))
                seq.append(('text', piece))
            return seq
    for c in calls:
        a0 = expand(c.args[0]) if c.args else None
        if dotted(c.func) == 'print' and a0 is not None and isinstance(a0, ast.BinOp) and \
                isinstance(a0.op, ast.Mod) and isinstance(a0.left, ast.Constant):
            fmt = a0.left.value
            right = a0.right
            args = right.elts if isinstance(right, ast.Tuple) else [right]
            pieces = re.split(r'%[-#0 +]*\d*(?:\.\d+)?[sdifr]', fmt)
            seq = [('text', pieces[0])]
            for a, piece in zip(args, pieces[1:]):
                nm = [x.id for x in ast.walk(a) if isinstance(x, ast.Name) and x.id in ps]
                seq.append(('param', nm[0]) if nm else ('other', norm(a)))
                seq.append(('text', piece))
            return seq
        if isinstance(c.func, ast.Attribute) and c.func.attr in ('writelines', 'write') and c.args \
                and isinstance(c.args[0], (ast.List, ast.Tuple)):
            seq = []
            for e in c.args[0].elts:
                if isinstance(e, ast.Constant) and isinstance(e.value, str):
                    seq.append(('text', e.value))
                elif isinstance(e, ast.Call) and dotted(e.func) == 'str' and e.args and \
                        isinstance(e.args[0], ast.Name) and e.args[0].id in ps:
                    seq.append(('param', e.args[0].id))
                else:
                    seq.append(('other', norm(e)))
            return seq
    return None


# element shapes of the lists of unittest.TestResult (cross-checked against the stdlib source in
# the thorough tier): pairs (test, text) or bare test objects
RESULT_LIST_SHAPE = {'failures': 'pair', 'errors': 'pair', 'skipped': 'pair',
                     'expectedFailures': 'pair', 'unexpectedSuccesses': 'bare'}


def _shape(e, loopshapes=None):
    """shape of the elements an expression contributes: 'pair' / 'bare' / None (unknown)"""
    loopshapes = loopshapes or {}
    if isinstance(e, ast.Attribute) and e.attr in RESULT_LIST_SHAPE:
        return RESULT_LIST_SHAPE[e.attr]
    if isinstance(e, (ast.GeneratorExp, ast.ListComp)) and len(e.generators) == 1:
        g = e.generators[0]
        src = _shape(g.iter, loopshapes)
        if isinstance(e.elt, ast.Tuple):
            return 'pair' if len(e.elt.elts) == 2 else 'other'
        if isinstance(e.elt, ast.Name) and isinstance(g.target, ast.Name) and e.elt.id == g.target.id:
            return src
        return None
    if isinstance(e, (ast.List, ast.Tuple)) and e.elts:
        shapes = {('pair' if isinstance(x, ast.Tuple) and len(x.elts) == 2 else None) for x in e.elts}
        return shapes.pop() if len(shapes) == 1 else None
    return None


def r7_entry_shapes(ctx, rep, R='C12.R7'):
    rep.rule(R, 'entry shapes agree: every entry added to an accumulator that the listing / the '
             'subprocess report unpacks as a (test, info) pair is such a pair -- unittest keeps bare '
             'test objects in unexpectedSuccesses, pairs in failures / errors / skipped')
    m = ctx.model
    # readers that unpack pairs
    pair_readers = set()
    for fi in m.all_functions():
        for n in ast.walk(fi.node):
            if isinstance(n, ast.For) and isinstance(n.target, ast.Tuple) and len(n.target.elts) == 2:
                d = (dotted(n.iter) or '').split('.')[-1]
                if d in ('failures', 'errors', 'skipped'):
                    pair_readers.add(d)
    n_sites = 0
    for q in ('runner.run_tests', 'runner.spawn_layer_in_subprocess', 'runner.handle_layer_failure',
              'filter.Filter.global_setup'):
        fi = m.func(q)
        for c in own_calls(fi.node):
            if not (isinstance(c.func, ast.Attribute) and c.func.attr in ('append', 'extend') and c.args):
                continue
            acc = (dotted(c.func.value) or '').split('.')[-1]
            if acc not in pair_readers:
                continue
            n_sites += 1
            if c.func.attr == 'append':
                sh = 'pair' if isinstance(c.args[0], ast.Tuple) and len(c.args[0].elts) == 2 else None
            else:
                sh = _shape(c.args[0])
            rep.check(sh == 'pair', R, '%s: %s' % (q, norm(c)[:70]),
                      'entries of shape %r are added to %r, which is read by unpacking (test, info) '
                      'pairs (Tests with failures/errors listing, subprocess report): the report '
                      'phase would raise TypeError' % (sh or 'unknown', acc),
                      key='shape:%s:%s' % (q, norm(c)[:70]), func=fi.qualname, where=ctx.where(fi, c))
    rep.floor(R, n_sites, 6, 'accumulator writes')
    rep.floor(R, len(pair_readers), 2, 'accumulators read by pair unpacking')


def r8_per_object_state(ctx, rep, R='C12.R8'):
    """Counts and lists are kept per object (one result per layer, one record per suite ...).  A
    mutable value bound at CLASS level is one object shared by all instances; if instances add to it
    in place, every instance sees (and reports) everybody's entries."""
    rep.rule(R, 'per-object accumulators are per object: no list / dict / set bound at class level is '
             'mutated in place through an instance (unless __init__ gives every instance its own)')
    MUT = ('append', 'extend', 'insert', 'add', 'update', 'setdefault', 'pop', 'remove', 'clear', 'popitem')
    m = ctx.model

    def mutable(v):
        if isinstance(v, (ast.List, ast.Dict, ast.Set, ast.ListComp, ast.DictComp, ast.SetComp)):
            return True
        return isinstance(v, ast.Call) and not v.args and not v.keywords and \
            (dotted(v.func) or '').split('.')[-1] in ('list', 'dict', 'set', 'deque', 'defaultdict', 'OrderedDict')
    n = 0
    for ci in m.all_classes():
        shared = {}
        for st in ci.node.body:
            if isinstance(st, ast.Assign) and len(st.targets) == 1 and isinstance(st.targets[0], ast.Name) \
                    and mutable(st.value):
                shared[st.targets[0].id] = st
        if not shared:
            continue
        # attributes every instance gets for itself in __init__ (this class or a subclass ...)
        own = set()
        for cj in m.all_classes():
            if cj is ci or ci in m.mro(cj):
                init = cj.methods.get('__init__')
                if init is not None:
                    for x in ast.walk(init.node):
                        if isinstance(x, ast.Assign):
                            for t in x.targets:
                                if isinstance(t, ast.Attribute) and is_name(t.value, 'self'):
                                    own.add(t.attr)
        family = {cj.qualname for cj in m.all_classes() if cj is ci or ci in m.mro(cj)}

        def classes_named(e, fi):
            d = dotted(e)
            r = m.lookup(m.resolve_dotted(fi.module, d)) if d else None
            return {r.qualname} if r is not None and hasattr(r, 'methods') else set()

        def local_types(fi, name, depth=0):
            out = set()
            for v in local_assignments(fi.node).get(name, []):
                if isinstance(v, ast.Call):
                    out |= classes_named(v.func, fi)
                    if isinstance(v.func, ast.Name) and depth < 2:      # result_factory(...)
                        for w in local_assignments(fi.node).get(v.func.id, []):
                            if isinstance(w, ast.AST):
                                out |= classes_named(w, fi)
            ps = [a.arg for a in fi.node.args.posonlyargs + fi.node.args.args]
            if name in ps and depth < 2:
                i = ps.index(name)
                for fj in m.all_functions():
                    for c in own_calls(fj.node):
                        args = None
                        if call_name(c) == fi.name:
                            args = c.args
                        elif (dotted(c.func) or '').endswith('Thread') and kw(c, 'target') is not None and \
                                dotted(kw(c, 'target')) == fi.name and isinstance(kw(c, 'args'), ast.Tuple):
                            args = kw(c, 'args').elts
                        if args is not None and i < len(args) and isinstance(args[i], ast.Name):
                            out |= local_types(fj, args[i].id, depth + 1)
            return out

        def is_instance(recv, fi):
            if is_name(recv, 'self'):
                return fi.cls is not None and fi.cls.qualname in family
            if isinstance(recv, ast.Name):
                return bool(local_types(fi, recv.id) & family)
            return False
        for attr, st in shared.items():
            n += 1
            if attr in own:
                rep.ok(R, '%s.%s: class-level default, but __init__ binds a fresh one per instance' % (ci.qualname, attr))
                continue
            sites = []
            for fi in m.all_functions():
                for x in ast.walk(fi.node):
                    tgt = None
                    if isinstance(x, ast.Call) and isinstance(x.func, ast.Attribute) and x.func.attr in MUT and \
                            isinstance(x.func.value, ast.Attribute) and x.func.value.attr == attr:
                        tgt = x.func.value.value
                    elif isinstance(x, ast.AugAssign) and isinstance(x.target, ast.Attribute) and \
                            x.target.attr == attr:
                        tgt = x.target.value
                    elif isinstance(x, ast.Subscript) and isinstance(x.ctx, (ast.Store, ast.Del)) and \
                            isinstance(x.value, ast.Attribute) and x.value.attr == attr:
                        tgt = x.value.value
                    if tgt is not None and is_instance(tgt, fi):
                        sites.append((fi, x))
            rep.check(not sites, R, '%s.%s: class-level %s is never mutated through an instance' % (
                ci.qualname, attr, norm(st.value)),
                'the mutable class attribute %s.%s = %s is shared by all instances, and %s adds to it in '
                'place (%s): every instance -- e.g. the result object of every layer -- holds and reports '
                'the entries of all of them' % (ci.qualname, attr, norm(st.value),
                                                 sites[0][0].qualname if sites else '',
                                                 norm(sites[0][1])[:80] if sites else ''),
                key='shared:%s.%s' % (ci.qualname, attr), func=ci.qualname,
                where='%s:%s' % (ci.module.path, st.lineno))
    rep.sample('class-level mutable defaults examined: %d' % n)


# ---------------------------------------------------------------------------------------------
# the second component of an accumulator entry is opaque

def entry_info_is_opaque(ctx, rep, R):
    """the entries of the Runner's failures / errors lists are (test, info) pairs whose second
    component is heterogeneous by construction: traceback text from unittest, the exc_info triple of a
    layer failure, None for everything a layer subprocess reported and for unexpected successes.
    Every reader may ignore it, pass it on, or test it (is None / isinstance); using it as one
    particular type (a string method, indexing) fails for the other producers -- inside a report
    hook, i.e. the summary is cut short and run_internal raises instead of returning the verdict"""
    from .common import guard_literals, local_assignments, sources_of
    m = ctx.model
    n = 0
    for fi in m.all_functions():
        if fi.module.name.startswith('tests'):
            continue
        assigns = local_assignments(fi.node)
        ps = [a.arg for a in fi.node.args.args]

        def from_acc(e):
            src = sources_of(e, assigns)
            for d in src:
                last = d.split('.')[-1]
                if last in ('failures', 'errors') and ('runner' in d or d.startswith('self.') and
                                                       fi.cls is not None and fi.cls.qualname == 'runner.Runner'):
                    return True
                if d in ps and d in ('failures', 'errors') and fi.name in ('tests_with_errors', 'tests_with_failures'):
                    return True
            return False
        infos = []
        for x in ast.walk(fi.node):
            if isinstance(x, (ast.For, ast.comprehension)) and isinstance(x.target, ast.Tuple) and \
                    len(x.target.elts) == 2 and isinstance(x.target.elts[1], ast.Name) and from_acc(x.iter):
                infos.append((x.target.elts[1].id, x))
            if isinstance(x, ast.Assign) and len(x.targets) == 1 and isinstance(x.targets[0], ast.Tuple) and \
                    len(x.targets[0].elts) == 2 and isinstance(x.targets[0].elts[1], ast.Name) and \
                    isinstance(x.value, ast.Subscript) and from_acc(x.value.value):
                infos.append((x.targets[0].elts[1].id, x))
        for name, site in infos:
            n += 1
            bad = []
            for y in ast.walk(fi.node):
                if not (isinstance(y, ast.Name) and y.id == name and isinstance(y.ctx, ast.Load)):
                    continue
                par = getattr(y, '_parent', None)
                use = None
                if isinstance(par, ast.Attribute) and par.value is y:
                    use = 'attribute %s' % norm(par)
                elif isinstance(par, ast.Subscript) and par.value is y:
                    use = 'indexed %s' % norm(par)
                elif isinstance(par, ast.BinOp):
                    use = 'operand of %s' % norm(par)[:40]
                elif isinstance(par, (ast.For, ast.comprehension)) and par.iter is y:
                    use = 'iterated'
                elif isinstance(par, ast.Starred):
                    use = 'unpacked'
                if use is None:
                    continue
                lits = guard_literals(ctx, fi, y)
                if any(isinstance(e, ast.Call) and dotted(e.func) == 'isinstance' and e.args and
                       dotted(e.args[0]) == name and pos for e, pos in lits):
                    continue
                bad.append(use)
            rep.check(not bad, R, '%s reads (test, %s) entries without assuming a type for %s' % (fi.qualname, name, name),
                      '%s takes the second component of a failures / errors entry for one particular type (%s); '
                      'it is traceback text for test failures, an exc_info triple for layer failures and None '
                      'for entries reported by a layer subprocess -- for the other producers this raises inside '
                      'the report phase: no totals line, no verdict' % (fi.qualname, '; '.join(sorted(set(bad))[:3])),
                      key='entry-info:%s' % fi.qualname, func=fi.qualname, where=ctx.where(fi, site if isinstance(site, ast.stmt) else fi.node))
    rep.floor(R, n, 3, 'readers that unpack (test, info) entries of the accumulators')
