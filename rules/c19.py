"""C19 -- threads left behind by a test are reported precisely (snapshot/diff structure)."""
import ast

from sa.variance import path_literals
from . import tsrules
from .common import Ctx, dotted, is_name, norm, own_calls

P = 'C19'


def run(model, rep, tier):
    ctx = Ctx(model)
    rep.rule('C19.R1', 'on every protocol word the thread snapshot that stopTest compares against was '
             'taken at the start of the same test (startTest, or the addSkip fallback), with '
             'threadsupport.enumerate on both sides, and a leak is reported with the test that '
             'just ended')
    tsrules.snapshot_rules(ctx, rep, 'C19.R1')
    tsrules.record_units(rep, tsrules.exploration(ctx))
    r3_report_condition(ctx, rep)
    r4_enumerator(ctx, rep)
    r5_formatter_reports_what_it_was_given(ctx, rep)
    from . import robust
    robust.asserts_have_no_effects(ctx, rep, 'C19.R20', 'C19')
    rep.units['cfg'] = ctx.cfg_stats


def r3_report_condition(ctx, rep, R='C19.R3'):
    rep.rule(R, 'a thread is reported exactly under: it is alive (+), it is not in the snapshot (-), '
             'no --ignore-new-thread pattern matches its name with re.match (-); no other condition '
             'filters the report, every such thread is collected and the list is passed whole to '
             'output.test_threads')
    m = ctx.model
    fi = m.find_method(m.cls('runner.TestResult'), 'stopTest')
    calls = [c for c in own_calls(fi.node) if isinstance(c.func, ast.Attribute) and
             c.func.attr == 'test_threads']
    rep.check(len(calls) == 1 and len(calls[0].args) == 2 and isinstance(calls[0].args[1], ast.Name),
              R, 'stopTest: one output.test_threads(test, <list>) call',
              'found %d test_threads calls' % len(calls), key='test_threads:site', func=fi.qualname,
              where=ctx.where(fi, fi.node))
    if len(calls) != 1 or not isinstance(calls[0].args[1], ast.Name):
        return
    lst = calls[0].args[1].id
    # the report call is guarded by the truthiness of the list only
    lits = path_literals(calls[0], fi.node)
    ok = all(is_name(e, lst) and pos for e, pos in lits) and len(lits) <= 1
    rep.check(ok, R, 'test_threads is called whenever the list is non-empty',
              'the report is additionally guarded by %s' % [norm(e) for e, pos in lits
                                                            if not is_name(e, lst)],
              key='test_threads:guard', func=fi.qualname, where=ctx.where(fi, calls[0]))
    # collection: append inside a loop over the enumeration, or a comprehension
    apps = [c for c in own_calls(fi.node) if isinstance(c.func, ast.Attribute) and
            c.func.attr == 'append' and is_name(c.func.value, lst)]
    comps = [n.value for n in ast.walk(fi.node) if isinstance(n, ast.Assign) and
             is_name(n.targets[0], lst) and isinstance(n.value, ast.ListComp)]
    conds, var, loop = None, None, None
    if len(apps) == 1:
        a = apps[0]
        loop = next((p for p in _parents(a, fi.node) if isinstance(p, ast.For)), None)
        if loop is not None and isinstance(loop.target, ast.Name) and len(a.args) == 1 and \
                is_name(a.args[0], loop.target.id):
            var = loop.target.id
            conds = [(e, pos) for e, pos in path_literals(a, fi.node)]
            inner = _parents(a, loop)
            if any(isinstance(x, (ast.For, ast.While)) for x in inner):
                conds = None
    elif len(comps) == 1 and len(comps[0].generators) == 1 and \
            isinstance(comps[0].generators[0].target, ast.Name) and \
            is_name(comps[0].elt, comps[0].generators[0].target.id):
        from sa.variance import split_literals
        var = comps[0].generators[0].target.id
        conds = []
        for c in comps[0].generators[0].ifs:
            conds += split_literals(c, True)
        loop = comps[0].generators[0]
    if conds is None or var is None:
        rep.undecide(R, 'stopTest: collection of new threads', 'the list passed to test_threads is '
                     'not built by one append in one loop over the enumeration, nor by one list '
                     'comprehension')
        return
    roles = {}
    extra = []
    for e, pos in conds:
        role = _classify(ctx, fi, e, var)
        if role is None:
            extra.append(('%s%s' % ('' if pos else 'not ', norm(e))))
        else:
            roles.setdefault(role[0], []).append((pos, role[1]))
    want = {'alive': True, 'in-snapshot': False, 'ignored': False}
    for r, pos in want.items():
        got = roles.get(r, [])
        rep.check(len(got) == 1 and got[0][0] is pos, R,
                  'report condition: %s%s' % ('' if pos else 'not ', r),
                  'the condition %r occurs %s in the guard of the leak report (expected once, %s)'
                  % (r, [('+' if p else '-') for p, _ in got] or 'never', '+' if pos else '-'),
                  key='cond:' + r, func=fi.qualname, where=ctx.where(fi, fi.node))
    rep.check(not extra, R, 'no other condition filters the leak report',
              'additional filter(s): %s' % extra, key='cond:extra', func=fi.qualname,
              where=ctx.where(fi, fi.node))
    ig = roles.get('ignored', [])
    if ig:
        mode = ig[0][1]
        rep.check(mode == 're.match', R, 'ignore patterns are applied with re.match to the thread name',
                  'ignore patterns are applied with %s' % mode, key='cond:match-mode',
                  func=fi.qualname, where=ctx.where(fi, fi.node))
    brk = [x for x in ast.walk(loop) if isinstance(x, (ast.Break, ast.Return))] \
        if isinstance(loop, ast.For) else []
    rep.check(not brk, R, 'every enumerated thread is examined', 'break/return inside the loop',
              key='loop:complete', func=fi.qualname, where=ctx.where(fi, fi.node))
    rep.floor(R, len(conds), 3, 'guard literals')


def _parents(node, stop):
    out = []
    while getattr(node, '_parent', None) is not None and node._parent is not stop:
        node = node._parent
        out.append(node)
    return out


def _classify(ctx, fi, e, var):
    if isinstance(e, ast.Call) and isinstance(e.func, ast.Attribute) and e.func.attr == 'is_alive' \
            and is_name(e.func.value, var) and not e.args:
        return ('alive', None)
    if isinstance(e, ast.Compare) and len(e.ops) == 1 and isinstance(e.ops[0], ast.In) and \
            is_name(e.left, var) and (dotted(e.comparators[0]) or '').startswith('self.'):
        return ('in-snapshot', dotted(e.comparators[0]))
    if isinstance(e, ast.Call) and dotted(e.func) == 'any' and len(e.args) == 1 and \
            isinstance(e.args[0], (ast.ListComp, ast.GeneratorExp)):
        comp = e.args[0]
        if len(comp.generators) == 1 and not comp.generators[0].ifs and \
                'ignore_new_threads' in norm(comp.generators[0].iter) and \
                isinstance(comp.elt, ast.Call):
            c = comp.elt
            d = ctx.model.resolve_dotted(fi.module, dotted(c.func))
            pv = comp.generators[0].target
            if d in ('re.match', 're.search', 're.fullmatch') and len(c.args) == 2 and \
                    isinstance(pv, ast.Name) and is_name(c.args[0], pv.id) and \
                    dotted(c.args[1]) == var + '.name':
                return ('ignored', d)
    return None


def r4_enumerator(ctx, rep, R='C19.R4'):
    rep.rule(R, 'threadsupport.enumerate returns one proxy for every identifier of '
             'sys._current_frames() (so threads started through _thread are seen); ThreadProxy '
             'equality is by ident; an unknown thread counts as alive')
    m = ctx.model
    mod = m.module('threadsupport')
    fi = mod.functions.get('enumerate')
    ok = False
    why = 'threadsupport.enumerate not found'
    if fi is not None:
        from .common import sources_of, local_assignments, nodes_calling, yields_call_of
        assigns = local_assignments(fi.node)
        rets = [n for n in ast.walk(fi.node) if isinstance(n, ast.Return) and n.value is not None]
        why = 'the result does not hold one ThreadProxy per identifier of current_frames()'
        if len(rets) == 1 and isinstance(rets[0].value, ast.ListComp):
            comp = rets[0].value
            g0 = comp.generators[0]
            src = sources_of(g0.iter, assigns)
            ok = 'current_frames' in src and not g0.ifs and len(comp.generators) == 1 and \
                yields_call_of(ctx, mod, comp.elt, 'ThreadProxy')
        elif len(rets) == 1 and isinstance(rets[0].value, ast.Name):
            res = rets[0].value.id
            g = ctx.cfg(fi)
            loops = [n for n in g.nodes if n.kind == 'for' and
                     'current_frames' in sources_of(n.ast, assigns)]
            apps = nodes_calling(g, lambda c: isinstance(c.func, ast.Attribute) and
                                 c.func.attr == 'append' and is_name(c.func.value, res) and c.args and
                                 yields_call_of(ctx, mod, c.args[0], 'ThreadProxy'))
            if len(loops) == 1 and apps:
                body = [d for d, k in g.succ[loops[0].id] if k == 'true']
                r = g.reach(body, avoid=set(apps), include_start=True)
                ok = loops[0].id not in r and g.exit not in r
    cf = mod.constants.get('current_frames')
    ok = ok and cf is not None and '_current_frames' in norm(cf)
    rep.check(ok, R, 'enumerate(): one ThreadProxy for every ident in sys._current_frames()', why,
              key='enumerate:shape', func='threadsupport.enumerate',
              where=ctx.where(fi, fi.node) if fi else 'threadsupport')
    # the ident -> Thread table is a picture of THIS moment: thread idents are re-used by the OS,
    # so a table that outlives the call can hand out the finished Thread object of an earlier
    # thread for a running one (is_alive() False: the leak is never reported)
    if fi is not None:
        stored = {n.id for n in ast.walk(fi.node) if isinstance(n, ast.Name) and
                  isinstance(n.ctx, (ast.Store, ast.Del))}
        glob = {nm for n in ast.walk(fi.node) if isinstance(n, (ast.Global, ast.Nonlocal)) for nm in n.names}
        lookups = []
        for n in ast.walk(fi.node):
            # tables subscripted / .get() / "in"-tested with a plain key inside enumerate()
            if isinstance(n, ast.Subscript) and isinstance(n.ctx, ast.Load) and isinstance(n.value, (ast.Name, ast.Attribute)):
                lookups.append(n.value)
            if isinstance(n, ast.Call) and isinstance(n.func, ast.Attribute) and n.func.attr in ('get', 'setdefault', 'update') \
                    and isinstance(n.func.value, (ast.Name, ast.Attribute)):
                lookups.append(n.func.value)
        stale = []
        for t in lookups:
            root = t
            while isinstance(root, ast.Attribute):
                root = root.value
            if not isinstance(root, ast.Name):
                continue
            if isinstance(t, ast.Name) and t.id in stored and t.id not in glob:
                continue                      # a local of this call
            if isinstance(t, ast.Name) and t.id in ('sys', 'threading'):
                continue
            # module-level constant tables that are never mutated are fine; a mutable one is a cache
            mutated = any(isinstance(c, ast.Call) and isinstance(c.func, ast.Attribute) and
                          norm(c.func.value) == norm(t) and
                          c.func.attr in ('update', 'setdefault', '__setitem__', 'pop', 'clear')
                          for c in ast.walk(fi.node)) or any(
                isinstance(x, ast.Subscript) and isinstance(x.ctx, (ast.Store, ast.Del)) and
                norm(x.value) == norm(t) for x in ast.walk(fi.node))
            if mutated or isinstance(root, ast.Name) and root.id in ('self', 'enumerate'):
                stale.append(norm(t))
        rep.check(not stale, R, 'enumerate(): the ident -> Thread table is built afresh in every call',
                  'enumerate() looks threads up in %s, a table that lives longer than the call and is '
                  'only ever added to: when the OS re-uses the ident of a finished thread, the old '
                  '(dead) Thread object is returned for the running one and the leak is not reported'
                  % sorted(set(stale)), key='enumerate:fresh-table', func='threadsupport.enumerate',
                  where=ctx.where(fi, fi.node))
    tp = m.cls('threadsupport.ThreadProxy')
    eq = tp.methods.get('__eq__')
    okeq = False
    if eq is not None:
        rets = [n for n in ast.walk(eq.node) if isinstance(n, ast.Return)]
        from .common import expander
        rv = expander(eq.node)(rets[0].value) if len(rets) == 1 and rets[0].value is not None else None
        okeq = rv is not None and isinstance(rv, ast.Compare) and \
            isinstance(rv.ops[0], ast.Eq) and \
            norm(rv.left).endswith('.ident') and \
            norm(rv.comparators[0]).endswith('.ident')
    # the fallback to a DummyThread is decided by "is this ident known to threading" (membership /
    # is None), never by the truth value of the Thread object: user Thread subclasses may define
    # __len__ / __bool__ (a worker that is "empty" while idle)
    truthy = []
    funcs_ = [f for f in [fi, tp.methods.get('__init__')] if f is not None]
    for f in funcs_:
        ps_ = {a.arg for a in f.node.args.args[1:]} if f.cls is not None else set()
        tbl = {x.targets[0].id for x in ast.walk(f.node) if isinstance(x, ast.Assign) and
               len(x.targets) == 1 and isinstance(x.targets[0], ast.Name) and
               isinstance(x.value, ast.Call) and isinstance(x.value.func, ast.Attribute) and
               x.value.func.attr == 'get'}

        def is_thread_value(e):
            return (isinstance(e, ast.Name) and (e.id in ps_ and e.id.startswith('thr') or e.id in tbl)) or (
                isinstance(e, ast.Call) and isinstance(e.func, ast.Attribute) and e.func.attr == 'get')
        for x in ast.walk(f.node):
            if isinstance(x, ast.BoolOp) and any(is_thread_value(v) for v in x.values[:-1]):
                truthy.append((f, x))
            elif isinstance(x, (ast.IfExp, ast.If, ast.While)):
                t = x.test
                while isinstance(t, ast.UnaryOp) and isinstance(t.op, ast.Not):
                    t = t.operand
                if is_thread_value(t):
                    truthy.append((f, x))
    rep.check(not truthy, R, 'a Thread object is never tested for truth (membership / is None decide the DummyThread fallback)',
              'the thread object is tested for truth (%s): a threading.Thread subclass that defines __len__ / '
              '__bool__ and is falsy is replaced by a DummyThread -- its name is lost, so the '
              '--ignore-new-thread patterns are matched against "Dummy-<ident>" and the report shows the '
              'wrong thread' % '; '.join(norm(x)[:50] for _f, x in truthy[:2]), key='enumerate:truthiness',
              func=truthy[0][0].qualname if truthy else 'threadsupport.enumerate',
              where=ctx.where(truthy[0][0], truthy[0][1]) if truthy else 'threadsupport')
    rep.check(okeq, R, 'ThreadProxy.__eq__ compares ident', 'ThreadProxy.__eq__ does not compare '
              'thread identifiers', key='proxy:eq', func='threadsupport.ThreadProxy.__eq__')
    # hash/eq agreement: membership tests in hashed containers use __hash__ first
    hs = tp.methods.get('__hash__')
    ex = tsrules.exploration(ctx)
    hashed = any(e[0] == 'snapshot-hashed' for tr in ex.transitions for e in tr.events)
    if hs is not None:
        rets = [n for n in ast.walk(hs.node) if isinstance(n, ast.Return) and n.value is not None]
        okh = len(rets) == 1 and isinstance(rets[0].value, ast.Call) and \
            dotted(rets[0].value.func) == 'hash' and norm(rets[0].value.args[0]).endswith('.ident')
        rep.check(okh, R, 'ThreadProxy.__hash__ hashes what __eq__ compares (ident)',
                  'ThreadProxy.__hash__ returns %s while __eq__ compares idents: two proxies of the '
                  'same thread (a fresh DummyThread per enumeration for _thread threads) are equal but '
                  'hash differently, so set/dict membership misses them'
                  % (norm(rets[0].value) if rets else '?'), key='proxy:hash',
                  func='threadsupport.ThreadProxy.__hash__', where=ctx.where(hs, hs.node))
    rep.check(not hashed or hs is not None, R,
              'the snapshot is compared by equality (list membership) or ThreadProxy is hashable '
              'consistently', 'the thread snapshot is kept in a set/frozenset but ThreadProxy defines '
              '__eq__ without __hash__', key='proxy:hashed-container', func='runner.TestResult.startTest')
    dt = m.cls('threadsupport.DummyThread')
    al = dt.methods.get('is_alive')
    okal = al is not None and any(isinstance(n, ast.Return) and isinstance(n.value, ast.Constant)
                                  and n.value.value is True for n in ast.walk(al.node))
    rep.check(okal, R, 'DummyThread.is_alive() is True', 'a thread unknown to threading is not '
              'considered alive', key='dummy:alive', func='threadsupport.DummyThread.is_alive')


# ---------------------------------------------------------------------------------------------
# R5 -- the formatter shows the list of threads it was given

LOSSLESS = ('str', 'repr', 'list', 'tuple', 'sorted', 'reversed', 'iter', 'text_content', 'format', 'len')


def r5_formatter_reports_what_it_was_given(ctx, rep, R='C19.R5'):
    rep.rule(R, 'exactly the threads found are shown: in every formatter\'s test_threads(test, new_threads) '
             'the value that reaches the output derives from the new_threads parameter only through '
             'element-preserving operations (str / repr / list / sorted / %-formatting / iteration over '
             'all elements); re-keying the threads in a dict / set (by name, by ident) or slicing drops '
             'threads that share the key, and a filter drops threads altogether')
    m = ctx.model
    n = 0
    for c in ctx.cg.formatter_classes():
        fi = c.methods.get('test_threads')
        if fi is None:
            continue
        ps = [a.arg for a in fi.node.args.args]
        if len(ps) < 3:
            continue
        P = ps[2]
        n += 1
        bad = []
        for x in ast.walk(fi.node):
            if not (isinstance(x, ast.Name) and x.id == P and isinstance(x.ctx, ast.Load)):
                continue
            cur = x
            while True:
                par = getattr(cur, '_parent', None)
                if par is None or isinstance(par, ast.stmt):
                    break
                if isinstance(par, ast.Call) and (cur in par.args or any(k.value is cur for k in par.keywords)):
                    d = (dotted(par.func) or '').split('.')[-1]
                    if d in ('dict', 'set', 'frozenset', 'zip', 'filter', 'map', 'islice', 'groupby') or \
                            (d and d[0] == '_' and d not in LOSSLESS) or \
                            (d and d[0].isupper() and d.lower().endswith(('dict', 'set', 'map'))):
                        bad.append(par)
                        break
                    if isinstance(par.func, ast.Attribute) and par.func.attr in ('join',):
                        pass
                elif isinstance(par, (ast.DictComp, ast.SetComp)):
                    bad.append(par)
                    break
                elif isinstance(par, ast.comprehension):
                    comp = par._parent
                    if par.ifs or isinstance(comp, (ast.DictComp, ast.SetComp)):
                        bad.append(comp)
                        break
                    g_par = getattr(comp, '_parent', None)
                    if isinstance(comp, ast.GeneratorExp) and isinstance(g_par, ast.Call) and \
                            (dotted(g_par.func) or '').split('.')[-1] not in LOSSLESS + ('join', 'print', 'any'):
                        bad.append(g_par)
                        break
                    cur = comp
                    continue
                elif isinstance(par, ast.Subscript) and par.value is cur and isinstance(par.slice, ast.Slice):
                    bad.append(par)
                    break
                cur = par
        rep.check(not bad, R, '%s.test_threads shows new_threads as given' % c.name,
                  '%s.test_threads passes the list of leaked threads through %s before showing it: '
                  'threads that share a key (e.g. pool workers with one name) or fall outside the slice '
                  '/ filter are not reported' % (c.name, '; '.join(norm(b)[:70] for b in bad[:2])),
                  key='threads:shown:' + c.name, func=fi.qualname, where=ctx.where(fi, bad[0] if bad else fi.node))
    rep.floor(R, n, 2, 'formatter implementations of test_threads')
