"""C06 -- -j N: at most N alive, output ordered per layer and contiguous (structure)."""
import ast

from sa.variance import path_literals
from .common import (Ctx, call_name, calls_in, dotted, is_name, kw, local_assignments, node_calls,
                     nodes_calling, norm, own_calls, params, iterates_in_order)

P = 'C06'
FN = 'runner.resume_tests'


def run(model, rep, tier):
    ctx = Ctx(model)
    rep.assume('scheduling, completion order and liveness are not modelled; the rules bound what the '
               'code can do on any schedule')
    r1_bounded_start(ctx, rep)
    from . import c07, c03
    c07.r6_bookkeeping(ctx, rep, R='C06.R2')
    r3_in_order_flush(ctx, rep)
    r4_deferral(ctx, rep)
    c03.r5_one_process_per_layer(ctx, rep, R='C06.R5')
    rep.rule('C06.R6', 'the outcome of a layer run in a child reaches the parent unchanged in kind and number: wire '
             'agreement of the report (header roles, block order, as many entries as announced)')
    c07.r1_r2_wire(ctx, rep, R1='C06.R6', R2='C06.R6')
    from . import robust
    rep.rule('C06.R7', "'up to N': the N of the start guard (R1) is the N the user gave -- options.processes is "
             'stored by the parser only; nothing in the package overwrites it after parsing (a cap to the CPU '
             'count, a default for children, ...)')
    robust.option_is_what_was_given(ctx, rep, 'C06.R7', 'processes', 'the number of layers that may run at the same time')
    robust.asserts_have_no_effects(ctx, rep, 'C06.R20', 'C06')
    rep.units['cfg'] = ctx.cfg_stats


def _expanded(fi, expr):
    """*expr* with single-assignment locals of plain expressions substituted"""
    import copy
    from .common import local_assignments
    assigns = local_assignments(fi.node)

    class T(ast.NodeTransformer):
        def visit_Name(self, n):
            vals = [v for v in assigns.get(n.id, []) if isinstance(v, ast.AST)]
            if isinstance(n.ctx, ast.Load) and len(assigns.get(n.id, [])) == 1 and len(vals) == 1 and \
                    not isinstance(vals[0], (ast.List, ast.ListComp, ast.Dict, ast.Set)) and \
                    not (isinstance(vals[0], ast.Call) and dotted(vals[0].func) in
                         ('list', 'deque', 'collections.deque', 'iter')):
                return T().visit(copy.deepcopy(vals[0]))
            return n
    return T().visit(copy.deepcopy(expr))


def _running_and_ready(ctx, fi, g, s, tvar):
    """(list the started thread is appended to, list it was taken from)"""
    from .common import reaching_defs, node_of
    running = ready = None
    for c in own_calls(fi.node):
        if isinstance(c.func, ast.Attribute) and c.func.attr == 'append' and c.args and \
                is_name(c.args[0], tvar) and dotted(c.func.value):
            sn = node_of(g, s)
            an = node_of(g, c)
            if sn is not None and an is not None and an in g.reach([sn]):
                running = dotted(c.func.value)
    nid = node_of(g, s)
    if nid is not None and tvar:
        for d in reaching_defs(g, nid, tvar):
            if isinstance(d, ast.Call) and isinstance(d.func, ast.Attribute) and \
                    d.func.attr in ('pop', 'popleft') and dotted(d.func.value):
                ready = dotted(d.func.value)
    return running, ready


def _start_guard_table(fi, lits, running, ready):
    """evaluate the conjunction of the guards of the start site over running r in 0..3,
    N in 1..3, queued q in 0..3; returns (bound violations, empty-queue violations, idle slots) as
    lists of example valuations, or None when an atom is outside the vocabulary"""
    class Unknown(Exception):
        pass

    def ev(e, r, N, q):
        d = dotted(e)
        if d == 'options.processes':
            return N
        if d == running:
            return [0] * r
        if d == ready:
            return [0] * q
        if isinstance(e, ast.Constant) and isinstance(e.value, (int, bool)):
            return e.value
        if isinstance(e, ast.Call) and dotted(e.func) in ('len', 'min', 'max', 'bool', 'int') and not e.keywords:
            args = [ev(a, r, N, q) for a in e.args]
            return {'len': len, 'min': min, 'max': max, 'bool': bool, 'int': int}[dotted(e.func)](*args)
        if isinstance(e, ast.BinOp) and isinstance(e.op, (ast.Add, ast.Sub)):
            a, b = ev(e.left, r, N, q), ev(e.right, r, N, q)
            return a + b if isinstance(e.op, ast.Add) else a - b
        if isinstance(e, ast.UnaryOp) and isinstance(e.op, ast.Not):
            return not ev(e.operand, r, N, q)
        if isinstance(e, ast.BoolOp):
            vals = [ev(v, r, N, q) for v in e.values]
            return all(vals) if isinstance(e.op, ast.And) else any(vals)
        if isinstance(e, ast.Compare) and len(e.ops) == 1:
            a, b = ev(e.left, r, N, q), ev(e.comparators[0], r, N, q)
            op = e.ops[0]
            table = {ast.Lt: a < b, ast.LtE: a <= b, ast.Gt: a > b, ast.GtE: a >= b,
                     ast.Eq: a == b, ast.NotEq: a != b} if not isinstance(a, list) and not isinstance(b, list) \
                else {ast.Eq: a == b, ast.NotEq: a != b}
            if type(op) in table:
                return table[type(op)]
        raise Unknown(norm(e))
    over, empty, idle = [], [], []
    xl = [(_expanded(fi, e), pos) for e, pos in lits]
    try:
        for r in range(4):
            for N in range(1, 4):
                for q in range(4):
                    if r == 0 and q == 0:
                        continue        # the main loop has ended
                    val = all(bool(ev(e, r, N, q)) == pos for e, pos in xl)
                    want = r < N and q > 0
                    point = 'running=%d, N=%d, queued=%d' % (r, N, q)
                    if val and r >= N:
                        over.append(point)
                    elif val and q == 0:
                        empty.append(point)
                    elif want and not val:
                        idle.append(point)
    except (Unknown, TypeError, ValueError):
        return None
    return over[:1], empty[:1], idle[:1]


def r1_bounded_start(ctx, rep, R='C06.R1'):
    rep.rule(R, 'bounded start: the only start() of a subprocess thread happens while '
             'len(running) < options.processes; the started thread is added to running on every '
             'path before the bound is tested again; a thread leaves running only when it is no '
             'longer alive; the start site is in a while loop (up to N per round); the main loop '
             'runs until no thread is ready or running')
    fi = ctx.model.func(FN)
    g = ctx.cfg(fi)
    starts = [c for c in own_calls(fi.node) if isinstance(c.func, ast.Attribute) and
              c.func.attr == 'start' and not c.args]
    rep.check(len(starts) == 1, R, 'resume_tests: exactly one thread.start() site',
              'found %d start() sites' % len(starts), key='start:site', func=fi.qualname,
              where=ctx.where(fi, fi.node))
    if len(starts) != 1:
        return
    s = starts[0]
    tvar = dotted(s.func.value)
    lits = path_literals(s, fi.node)
    running, ready = _running_and_ready(ctx, fi, g, s, tvar)
    verdict = _start_guard_table(fi, lits, running, ready) if running and ready else None
    if verdict is not None:
        over, empty, idle = verdict
        rep.check(not over, R, 'start() only while len(%s) < options.processes (all (running, N, queued) '
                  'in 0..3 x 1..3 x 0..3)' % running,
                  'thread.start() is reachable with %s: more than N layer subprocesses alive' % over,
                  key='start:bound', func=fi.qualname, where=ctx.where(fi, s))
        rep.check(not empty, R, 'start() only while a layer is queued',
                  'thread.start() is reachable with %s: nothing to start' % empty,
                  key='start:queued', func=fi.qualname, where=ctx.where(fi, s))
        rep.check(not idle, R, 'a queued layer is started whenever fewer than N are running',
                  'with %s no thread is started although a slot is free and a layer is queued: fewer '
                  'than N layers make progress at the same time' % idle,
                  key='start:progress', func=fi.qualname, where=ctx.where(fi, s))
        bound_ok = not over
    else:
        running = None
        bound_ok = False
        for e, pos in lits:
            if pos and isinstance(e, ast.Compare) and len(e.ops) == 1 and isinstance(e.ops[0], ast.Lt) \
                    and isinstance(e.left, ast.Call) and dotted(e.left.func) == 'len' and \
                    dotted(e.comparators[0]) == 'options.processes':
                running = dotted(e.left.args[0])
                bound_ok = True
            if pos and isinstance(e, ast.Compare) and len(e.ops) == 1 and isinstance(e.ops[0], ast.Gt) \
                    and dotted(e.left) == 'options.processes' and isinstance(e.comparators[0], ast.Call) \
                    and dotted(e.comparators[0].func) == 'len':
                running = dotted(e.comparators[0].args[0])
                bound_ok = True
        rep.check(bound_ok, R, 'start() guarded by len(%s) < options.processes' % running,
                  'thread.start() is not guarded by the process bound (guards: %s)'
                  % [norm(e) for e, p in lits], key='start:bound', func=fi.qualname, where=ctx.where(fi, s))
    if not bound_ok:
        return
    # in a while loop that re-tests the bound after every start
    wl = None
    node = s
    while getattr(node, '_parent', None) is not None and node._parent is not fi.node:
        node = node._parent
        if isinstance(node, (ast.For, ast.While)):
            if isinstance(node, ast.While) and any(
                    isinstance(x, ast.Name) and x.id == running for x in ast.walk(_expanded(fi, node.test))):
                wl = node
            break
    rep.check(wl is not None, R, 'the start site is in a while loop over the bound',
              'threads are started at most one per polling round (if instead of while): fewer than N '
              'layers make progress', key='start:while', func=fi.qualname, where=ctx.where(fi, s))
    sn = nodes_calling(g, lambda c: c is s)
    apps = nodes_calling(g, lambda c: isinstance(c.func, ast.Attribute) and c.func.attr == 'append'
                         and dotted(c.func.value) == running and c.args and is_name(c.args[0], tvar))
    heads = [n.id for n in g.nodes if n.kind == 'test' and n.stmt is wl] if wl is not None else []
    ok = bool(apps) and bool(heads)
    if ok:
        okp, _ = g.every_path_passes(sn, heads + [g.exit], set(apps))
        ok = okp
    rep.check(ok, R, 'started thread appended to %s before the bound is re-tested' % running,
              'a started thread is not recorded in %s on every path: more than N children could be '
              'alive' % running, key='start:append', func=fi.qualname, where=ctx.where(fi, s))
    # the thread that is started comes out of the ready list (is not started twice)
    # removals
    rem = []
    for n in ast.walk(fi.node):
        if isinstance(n, ast.Delete):
            for t in n.targets:
                if isinstance(t, ast.Subscript) and dotted(t.value) == running:
                    rem.append(n)
        if isinstance(n, ast.Call) and isinstance(n.func, ast.Attribute) and \
                dotted(n.func.value) == running and n.func.attr in ('remove', 'pop', 'popleft', 'clear'):
            rem.append(n)
        if isinstance(n, ast.Assign) and any(dotted(t) == running for t in n.targets) and \
                not _empty_container(n.value):
            rem.append(n)
    okr = bool(rem)
    from .common import guard_literals
    for r in rem:
        lits = guard_literals(ctx, fi, r)
        alive = [(e, pos) for e, pos in lits if isinstance(e, ast.Call) and
                 isinstance(e.func, ast.Attribute) and e.func.attr == 'is_alive']
        if not (len(alive) == 1 and alive[0][1] is False):
            okr = False
        if isinstance(r, ast.Assign):
            # running = [t for t in running if t.is_alive()]
            v = r.value
            okr = isinstance(v, ast.ListComp) and len(v.generators) == 1 and \
                dotted(v.generators[0].iter) == running and len(v.generators[0].ifs) == 1 and \
                norm(v.generators[0].ifs[0]).endswith('.is_alive()')
    rep.check(okr, R, 'a thread leaves %s only when not is_alive()' % running,
              'a thread can be dropped from %s while it may still be alive (its child would not '
              'count against the bound)' % running, key='running:removal', func=fi.qualname,
              where=ctx.where(fi, rem[0] if rem else fi.node))
    # ... every finished thread is reaped in a polling round ("up to N layers make progress")
    for r in rem:
        verdict, why = _reaps_every_dead_thread(fi, r, running)
        if verdict is None:
            rep.undecide(R, 'running:reap-all', 'cannot tell whether every element of %s is examined (%s)'
                         % (running, why))
            continue
        rep.check(verdict, R, 'every finished thread is removed from %s in a polling round' % running,
                  '%s: a finished thread behind a live one keeps its slot, no queued layer is started '
                  'and fewer than N layers make progress' % why, key='running:reap-all',
                  func=fi.qualname, where=ctx.where(fi, r))
    # ... and the element that leaves is the one that was tested
    for r in rem:
        verdict, why = _removed_is_tested(fi, r, running)
        if verdict is None:
            rep.undecide(R, 'running:removal-target', 'cannot relate the element removed by %s to the '
                         'thread whose is_alive() was tested (%s)' % (norm(r), why))
            continue
        rep.check(verdict, R, 'the thread removed from %s is the one found not alive' % running,
                  '%s -- a thread that is still running (whose layer has not reported yet) can be '
                  'dropped, or the wrong index deleted' % why, key='running:removal-target',
                  func=fi.qualname, where=ctx.where(fi, r))
    # main loop condition
    outer = None
    node = wl
    while node is not None and getattr(node, '_parent', None) is not None and node._parent is not fi.node:
        node = node._parent
        if isinstance(node, ast.While):
            outer = node
    ready = None
    for v in local_assignments(fi.node).get(tvar, []):
        if isinstance(v, ast.Call) and isinstance(v.func, ast.Attribute) and v.func.attr in ('pop', 'popleft'):
            ready = dotted(v.func.value)
    okm = outer is not None and isinstance(outer.test, ast.BoolOp) and isinstance(outer.test.op, ast.Or) \
        and sorted(norm(v) for v in outer.test.values) == sorted([str(ready), str(running)])
    rep.check(okm, R, 'main loop: while %s or %s' % (ready, running),
              'the polling loop can end while threads are still ready or running',
              key='main-loop', func=fi.qualname, where=ctx.where(fi, outer or fi.node))


def _empty_container(v):
    """[] / list() / deque() / collections.deque(): the initial binding of a work list"""
    if isinstance(v, (ast.List, ast.Tuple)) and not v.elts:
        return True
    return isinstance(v, ast.Call) and not v.args and not v.keywords and \
        (dotted(v.func) or '').split('.')[-1] in ('list', 'deque')


def _reaps_every_dead_thread(fi, r, running):
    """(True/False/None, why): does the construct around removal *r* look at EVERY element of the
    running list in one polling round?  A loop over the list (or a copy, enumerate, index range) and a
    rebuild by comprehension do; ``while running and not running[0].is_alive(): running.popleft()``
    only ever looks at the oldest thread -- a finished thread behind a live one keeps its slot, so
    fewer than N layers make progress."""
    from .common import iter_source
    if isinstance(r, ast.Assign):
        return True, 'rebuilt from all elements'
    for p in _parents(r, fi.node):
        if isinstance(p, ast.For):
            it = p.iter
            while isinstance(it, ast.Call) and isinstance(it.func, ast.Name) and \
                    it.func.id in ('list', 'tuple', 'reversed', 'enumerate', 'sorted') and it.args:
                it = it.args[0]
            if isinstance(it, ast.Subscript) and isinstance(it.slice, ast.Slice):
                it = it.value
            if isinstance(it, ast.Call) and isinstance(it.func, ast.Attribute) and it.func.attr == 'copy':
                it = it.func.value
            if dotted(it) == running or (isinstance(it, ast.Call) and is_name(it.func, 'range') and
                                         running in norm(it)):
                return True, 'loop over all elements'
            return None, 'loop over %s' % norm(p.iter)
        if isinstance(p, ast.While):
            t = norm(p.test)
            if ('%s[0]' % running) in t or ('%s[-1]' % running) in t:
                return False, 'only %s[0] is examined in a round (%s)' % (running, t)
            return None, 'while %s' % t
    return None, 'removal outside a loop'


def _removed_is_tested(fi, r, running):
    """(True/False/None, reason): does the removal *r* from the list *running* take out exactly the
    element whose is_alive() guards it?  Index-based removal inside a loop over the same list is
    only right when later indices are not used after a deletion (descending order, or the loop is
    left at once)."""
    from .common import iter_source
    if isinstance(r, ast.Assign):
        return True, 'rebuilt by filtering'
    lits = path_literals(r, fi.node)
    alive = [e for e, pos in lits if isinstance(e, ast.Call) and isinstance(e.func, ast.Attribute)
             and e.func.attr == 'is_alive' and pos is False]
    if len(alive) != 1:
        # the guard may be (part of) the test of an enclosing while loop
        for p in _parents(r, fi.node):
            if isinstance(p, ast.While):
                from sa.variance import split_literals
                alive = [e for e, pos in split_literals(p.test, True) if isinstance(e, ast.Call) and
                         isinstance(e.func, ast.Attribute) and e.func.attr == 'is_alive' and pos is False]
                break
    if len(alive) != 1:
        return None, 'no single is_alive() guard'
    tested = alive[0].func.value
    loop = None
    for p in _parents(r, fi.node):
        if isinstance(p, (ast.For, ast.While)):
            loop = p
            break
    if isinstance(r, ast.Call) and r.func.attr == 'remove':
        ok = bool(r.args) and norm(r.args[0]) == norm(tested)
        return ok, 'removes %s, tested %s' % (norm(r.args[0]) if r.args else '?', norm(tested))
    if isinstance(r, ast.Call) and r.func.attr == 'clear':
        return False, 'clears the whole list'
    if isinstance(r, ast.Call) and (r.func.attr == 'popleft' or (
            r.func.attr == 'pop' and len(r.args) == 1 and isinstance(r.args[0], ast.Constant) and
            r.args[0].value == 0)):
        ok = norm(tested) == '%s[0]' % running
        return ok, 'removes the first element, tested %s' % norm(tested)
    idx = r.targets[0].slice if isinstance(r, ast.Delete) else (r.args[0] if r.args else None)
    if idx is None:
        return False, 'pop() without index removes the last element, not the tested one'
    if not isinstance(loop, ast.For):
        return None, 'index removal outside a for loop'
    # the loop must pair idx with the tested element: enumerate over the list (or a copy of it)
    it = loop.iter
    descending = False
    while isinstance(it, ast.Call) and isinstance(it.func, ast.Name) and it.func.id in ('list', 'tuple', 'reversed') \
            and len(it.args) == 1 and not it.keywords:
        if it.func.id == 'reversed':
            descending = not descending
        it = it.args[0]
    tgt = loop.target
    if isinstance(it, ast.Call) and isinstance(it.func, ast.Name) and it.func.id == 'enumerate' and \
            it.args and isinstance(tgt, ast.Tuple) and len(tgt.elts) == 2:
        src = it.args[0]
        while isinstance(src, ast.Call) and isinstance(src.func, ast.Name) and \
                src.func.id in ('list', 'tuple') and len(src.args) == 1:
            src = src.args[0]
        if isinstance(src, ast.Subscript) and isinstance(src.slice, ast.Slice) and \
                src.slice.lower is None and src.slice.upper is None and src.slice.step is None:
            src = src.value
        if isinstance(src, ast.Call) and isinstance(src.func, ast.Attribute) and src.func.attr == 'copy':
            src = src.func.value
        if dotted(src) != running:
            return None, 'the loop does not enumerate %s' % running
        if norm(tgt.elts[0]) != norm(idx) or norm(tgt.elts[1]) != norm(tested):
            return False, 'the deleted index %s / tested element %s are not the pair of the loop ' \
                'target %s' % (norm(idx), norm(tested), norm(tgt))
        if descending:
            return True, 'descending indices'
        # ascending: fine only if the loop is left right after the deletion
        body = _enclosing_block(r, loop)
        if body is not None:
            i = [k for k, st in enumerate(body) if any(x is r for x in ast.walk(st))][0]
            if i + 1 < len(body) and isinstance(body[i + 1], ast.Break):
                return True, 'loop left after the deletion'
        return False, 'indices are enumerated in ascending order over %s while elements are ' \
            'deleted from it: after the first deletion every later index is off by one' % running
    # for idx in range(len(L) - 1, -1, -1) / reversed(range(len(L))) / range(len(L))
    rng = it
    if isinstance(rng, ast.Call) and is_name(rng.func, 'range') and isinstance(tgt, ast.Name) and \
            norm(tgt) == norm(idx):
        a = [norm(x) for x in rng.args]
        ln = 'len(%s)' % running
        desc_form = a == [ln + ' - 1', '-1', '-1']
        asc_form = a in ([ln], ['0', ln])
        if not (desc_form or asc_form):
            return None, 'unrecognised index range %s' % norm(rng)
        is_desc = desc_form != descending if desc_form else descending
        # the tested element is L[idx] (directly or through a local bound to it in the loop)
        t = tested
        if isinstance(t, ast.Name):
            defs = [x.value for x in ast.walk(loop) if isinstance(x, ast.Assign) and
                    any(is_name(y, t.id) for y in x.targets)]
            t = defs[0] if len(defs) == 1 else t
        if not (isinstance(t, ast.Subscript) and dotted(t.value) == running and norm(t.slice) == norm(idx)):
            return False, 'the element tested (%s) is not %s[%s], the one deleted' % (
                norm(tested), running, norm(idx))
        if is_desc:
            return True, 'descending indices'
        return False, 'indices run upwards over %s while elements are deleted from it: after the ' \
            'first deletion every later index is off by one (or out of range)' % running
    return None, 'unrecognised iteration %s' % norm(loop.iter)


def _enclosing_block(node, loop):
    for p in ast.walk(loop):
        for fld in ('body', 'orelse'):
            blk = getattr(p, fld, None)
            if isinstance(blk, list) and any(st is node or (isinstance(st, ast.Expr) and st.value is node)
                                             for st in blk):
                return blk
    return None


def r3_in_order_flush(ctx, rep, R='C06.R3'):
    rep.rule(R, 'in-order contiguous flush: a layer\'s captured output is written by one statement, '
             'whole, only when that result is done, and the cursor then advances through the '
             'results in the order of the layers; finished threads are reaped before the flush in '
             'each round, so the last layer is flushed before the loop ends')
    fi = ctx.model.func(FN)
    g = ctx.cfg(fi)
    writes = [c for c in own_calls(fi.node) if isinstance(c.func, ast.Attribute) and
              c.func.attr in ('writelines', 'write') and c.args and
              isinstance(c.args[0], ast.Attribute) and c.args[0].attr == 'stdout']
    rep.check(len(writes) == 1, R, 'one statement writes a result\'s captured stdout',
              'found %d statements writing <result>.stdout' % len(writes), key='flush:site',
              func=fi.qualname, where=ctx.where(fi, fi.node))
    if len(writes) != 1:
        return
    w = writes[0]
    cur = dotted(w.args[0].value)
    lits = path_literals(w, fi.node)
    done = [(e, pos) for e, pos in lits if dotted(e) == cur + '.done']
    extra = [norm(e) for e, pos in lits if dotted(e) not in (cur + '.done', cur) and
             'ready' not in norm(e) and 'running' not in norm(e)]
    rep.check(len(done) == 1 and done[0][1] and not extra and w.func.attr == 'writelines', R,
              'flush guarded by %s.done only, whole list written' % cur,
              'the output of a layer can be written before the layer is done, partially, or under '
              'an extra condition %s' % extra, key='flush:guard', func=fi.qualname, where=ctx.where(fi, w))
    # cursor: iterator over results, results built in layer order
    assigns = local_assignments(fi.node)
    nxt = [v for v in assigns.get(cur, []) if isinstance(v, ast.Call) and dotted(v.func) == 'next']
    it = dotted(nxt[0].args[0]) if nxt else None
    itsrc = [v for v in assigns.get(it, [])] if it else []
    res = None
    if len(itsrc) == 1 and isinstance(itsrc[0], ast.Call) and dotted(itsrc[0].func) == 'iter':
        res = dotted(itsrc[0].args[0])
    okc = res is not None and all(dotted(v.args[0]) == it for v in nxt)
    # results.append(result) in the loop over layers; nothing else mutates it
    muts = [c for c in own_calls(fi.node) if isinstance(c.func, ast.Attribute) and
            dotted(c.func.value) == res and c.func.attr in
            ('append', 'insert', 'sort', 'reverse', 'pop', 'remove', 'extend')]
    okc = okc and len(muts) == 1 and muts[0].func.attr == 'append'
    if okc:
        lp = [p for p in _parents(muts[0], fi.node) if isinstance(p, ast.For)]
        okc = bool(lp) and iterates_in_order(lp[0].iter, 'layers')
        from .common import param_untouched
        touched = param_untouched(fi.node, 'layers')
        rep.check(not okc or touched is None, R, 'the layers handed to resume_tests are used in the order given',
                  'the list of layers handed to resume_tests is re-bound or re-ordered (%s) before the '
                  'results are created from it: the output blocks no longer appear in the sequential '
                  'layer order' % (norm(getattr(touched, '_parent', touched)) if touched is not None else ''),
                  key='flush:layer-order', func=fi.qualname,
                  where=ctx.where(fi, touched if touched is not None else fi.node))
    # "there is a current result" is tested by truth (``while current_result and current_result.done``):
    # the result objects must be truthy whatever they hold -- a __len__ / __bool__ on the result
    # classes makes a result without output lines look like "no result", and the display stalls
    m_ = ctx.model
    res_classes = [c for c in m_.all_classes() if c.module.name == 'runner' and c.name.endswith('SubprocessResult')]
    truth_tested = any(
        (isinstance(x, (ast.While, ast.If)) and (
            is_name(x.test, cur) or (isinstance(x.test, ast.BoolOp) and any(is_name(v, cur) for v in x.test.values))))
        for x in ast.walk(fi.node))
    falsy = []
    if truth_tested:
        for c in res_classes:
            for k in m_.mro(c):
                for nm in ('__len__', '__bool__'):
                    if nm in k.methods:
                        falsy.append('%s.%s' % (k.name, nm))
    rep.check(not falsy, R, 'the result objects tested for truth in the flush loop are always truthy',
              'resume_tests tests "%s" for truth to mean "there is a result", but %s makes a result that '
              'has collected no output falsy: the ordered display stops at a layer whose child printed '
              'nothing (crashed at start-up) and the blocks of all later layers are never shown' % (
                  cur, sorted(set(falsy))), key='flush:truthy', func=fi.qualname, where=ctx.where(fi, w))
    rep.check(okc, R, 'cursor = next(iter(results)); results appended in the order of the layers',
              'the flush cursor does not walk the results in layer order', key='flush:cursor',
              func=fi.qualname, where=ctx.where(fi, w))
    # after a flush the cursor advances before the next flush (no block printed twice)
    wn = nodes_calling(g, lambda c: c is w)
    adv = [n.id for n in g.nodes if n.kind == 'stmt' and isinstance(n.ast, ast.Assign) and
           any(is_name(t, cur) for t in n.ast.targets)]
    okn = bool(wn) and bool(adv)
    if okn:
        r = g.reach(wn, avoid=set(adv))
        okn = wn[0] not in r
    rep.check(okn, R, 'cursor advances after every flush', 'a result could be flushed twice',
              key='flush:advance', func=fi.qualname, where=ctx.where(fi, w))
    # reap before flush in each round
    dels = [n.id for n in g.nodes if n.kind == 'stmt' and isinstance(n.ast, ast.Delete)]
    dels += nodes_calling(g, lambda c: isinstance(c.func, ast.Attribute) and
                          c.func.attr == 'is_alive')
    outer = [n for n in g.nodes if n.kind == 'test' and isinstance(n.stmt, ast.While) and
             isinstance(n.ast, ast.BoolOp)]
    okd = bool(outer) and bool(dels) and bool(wn)
    if okd:
        body = [d for d, k in g.succ[outer[0].id] if k == 'true']
        # from the reaping code the flush loop is reachable without passing the main loop head
        okd = any(wn[0] in g.reach([d], avoid={outer[0].id}) for d in dels)
    rep.check(okd, R, 'finished threads are reaped before the flush in the same round',
              'the flush precedes the reaping: the output of the last finished layer can be lost '
              'when the loop ends', key='flush:after-reap', func=fi.qualname, where=ctx.where(fi, w))


def _parents(node, stop):
    out = []
    while getattr(node, '_parent', None) is not None and node._parent is not stop:
        node = node._parent
        out.append(node)
    return out


STREAM_CALLS = ('write', 'writelines', 'flush', 'print')


def r4_deferral(ctx, rep, R='C06.R4'):
    rep.rule(R, 'deferral: the result collectors selectable when processes > 1 never write to a '
             'stream in write() (they only append to their list or put a keep-alive mark on the '
             'queue, and keep every non-dot line); the collector that writes through immediately '
             'is selected only when processes == 1')
    m = ctx.model
    fi = m.func(FN)
    sel = {}
    for n in ast.walk(fi.node):
        if isinstance(n, ast.Assign) and is_name(n.targets[0], 'result_factory'):
            cls = dotted(n.value)
            lits = path_literals(n, fi.node)
            sel[cls] = lits
    rep.check(len(sel) >= 2, R, 'result collector selection found: %s' % sorted(sel),
              'result_factory assignments not found', key='factory', func=fi.qualname,
              where=ctx.where(fi, fi.node))
    n = 0
    for cls, lits in sorted(sel.items()):
        ci = m.resolve_class(fi.module, cls)
        if ci is None:
            rep.undecide(R, cls, 'unknown result class')
            continue
        wr = m.find_method(ci, 'write')
        direct = []
        for c in own_calls(wr.node) if wr else []:
            if isinstance(c.func, ast.Attribute) and c.func.attr in STREAM_CALLS and \
                    not (dotted(c.func.value) or '').endswith('.queue'):
                direct.append(norm(c))
            if dotted(c.func) == 'print':
                direct.append(norm(c))
        seq = [e for e, pos in lits if pos and isinstance(e, ast.Compare) and
               norm(e) == 'options.processes == 1']
        n += 1
        if direct:
            rep.check(bool(seq), R, '%s writes through; selected only under processes == 1' % cls,
                      '%s.write() writes to a stream (%s) but can be selected for a parallel run: '
                      'the layers\' output would interleave' % (cls, direct), key='immediate:' + cls,
                      func=wr.qualname, where=ctx.where(wr, wr.node))
        else:
            keeps = [c for c in own_calls(wr.node) if isinstance(c.func, ast.Attribute) and
                     c.func.attr == 'append' and dotted(c.func.value) == 'self.stdout'] if wr else []
            ok = len(keeps) == 1
            if ok:
                kl = path_literals(keeps[0], wr.node)
                ok = all(isinstance(e, ast.Call) and dotted(e.func) == '_is_dots' and not pos
                         for e, pos in kl)
            rep.check(ok, R, '%s.write keeps every non-keep-alive line for the ordered flush' % cls,
                      '%s.write() drops or filters lines other than the dot keep-alive' % cls,
                      key='deferred:' + cls, func=wr.qualname if wr else cls,
                      where=ctx.where(wr, wr.node) if wr else cls)
    rep.floor(R, n, 3, 'result collector classes')
