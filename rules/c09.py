"""C09 -- nearest layer/level declaration wins; level and unit switches as documented."""
import ast
import itertools

from sa.variance import UNKNOWN, eval_guard, path_literals
from .common import Ctx, call_name, dotted, is_name, kw, local_assignments, norm, own_calls, params

P = 'C09'
FN = 'find.tests_from_suite'


def run(model, rep, tier):
    ctx = Ctx(model)
    r1_nearest_wins(ctx, rep)
    r2_level_predicate(ctx, rep)
    r3_unit_switches(ctx, rep)
    from . import robust
    robust.asserts_have_no_effects(ctx, rep, 'C09.R20', 'C09')
    rep.units['cfg'] = ctx.cfg_stats


def _getattr_local(fi, attr):
    """(local name, default expr) for ``x = getattr(suite, '<attr>', default)``"""
    for n in ast.walk(fi.node):
        if isinstance(n, ast.Assign) and isinstance(n.targets[0], ast.Name) and \
                isinstance(n.value, ast.Call) and dotted(n.value.func) == 'getattr' and \
                len(n.value.args) == 3 and isinstance(n.value.args[1], ast.Constant) and \
                n.value.args[1].value == attr and is_name(n.value.args[0], params(fi)[0]):
            return n.targets[0].id, n.value.args[2]
    return None, None


def _defaults(fi):
    a = fi.node.args
    names = [x.arg for x in a.args]
    out = {}
    for nm, d in zip(names[len(names) - len(a.defaults):], a.defaults):
        out[nm] = d
    return out


def r1_nearest_wins(ctx, rep, R='C09.R1'):
    rep.rule(R, 'nearest declaration wins: level / layer of a (sub)suite are getattr(suite, "level" / '
             '"layer", <what the enclosing suite passed down>); the recursion passes exactly these '
             'locals down; the outermost defaults are level 1 and the unit-test layer; the layer '
             'yielded with a test is that local')
    fi = ctx.model.func(FN)
    defs = _defaults(fi)
    ok_all = True
    locs = {}
    for attr, want in (('level', lambda d: isinstance(d, ast.Constant) and d.value == 1),
                       ('layer', lambda d: (dotted(d) or '').endswith('layer.UnitTests'))):
        loc, dflt = _getattr_local(fi, attr)
        pname = dotted(dflt) if dflt is not None else None
        ok = loc is not None and pname in defs and want(defs[pname])
        locs[attr] = (loc, pname)
        rep.check(ok, R, '%s = getattr(suite, %r, %s); outermost default %s' % (
            loc, attr, pname, norm(defs[pname]) if pname in defs else '?'),
            'the %s of a suite is not inherited via getattr(suite, %r, <inherited default>) with '
            'the documented outermost default' % (attr, attr), key='inherit:' + attr,
            func=fi.qualname, where=ctx.where(fi, fi.node))
        ok_all = ok_all and ok
    if not ok_all:
        return
    ps = params(fi)
    rec = [c for c in own_calls(fi.node) if call_name(c) == fi.name]
    rep.check(len(rec) == 1, R, 'one recursive call for nested suites', 'found %d recursive calls'
              % len(rec), key='recursion', func=fi.qualname, where=ctx.where(fi, fi.node))
    for c in rec:
        for attr in ('level', 'layer'):
            loc, pname = locs[attr]
            idx = ps.index(pname)
            a = c.args[idx] if idx < len(c.args) else kw(c, pname)
            rep.check(a is not None and is_name(a, loc), R,
                      'recursion passes the local %s as %s' % (loc, pname),
                      'the recursive call passes %s as %s: an inner suite would not inherit the '
                      'nearest enclosing declaration' % (norm(a) if a is not None else 'nothing', pname),
                      key='pass-down:' + attr, func=fi.qualname, where=ctx.where(fi, c))
    visits_every_member(ctx, rep, R)
    # the getattr on the suite object itself is the ONLY definition of the two locals (a second
    # definition on some path -- a per-class cache, a look-up on type(suite) -- is a declaration
    # that is not the nearest one: attributes set on the test object itself would be ignored)
    for attr in ('level', 'layer'):
        loc = locs[attr][0]
        others = []
        for n in ast.walk(fi.node):
            if isinstance(n, ast.Name) and n.id == loc and isinstance(n.ctx, (ast.Store, ast.Del)):
                st = n
                while not isinstance(st, ast.stmt):
                    st = st._parent
                v = getattr(st, 'value', None)
                plain = isinstance(st, ast.Assign) and len(st.targets) == 1 and st.targets[0] is n
                if plain and isinstance(v, ast.Call) and dotted(v.func) == 'getattr' and \
                        len(v.args) == 3 and is_name(v.args[0], ps[0]) and \
                        isinstance(v.args[1], ast.Constant) and v.args[1].value == attr and \
                        is_name(v.args[2], locs[attr][1]):
                    continue
                if plain and attr == 'layer' and isinstance(v, ast.Call) and \
                        call_name(v) == 'name_from_layer' and is_name(v.args[0], loc):
                    continue
                others.append(st)
        rep.check(not others, R, 'the %s local has no other definition than getattr(%s, %r, %s)' % (
            loc, ps[0], attr, locs[attr][1]),
            'the %s of a test can also come from %s: a declaration on the test object itself (the '
            'nearest one) would not win on that path' % (attr, [norm(o)[:80] for o in others]),
            key='single-def:' + attr, func=fi.qualname,
            where=ctx.where(fi, others[0] if others else fi.node))
    # re-assignments of the layer local only normalise it to a name
    layer_loc = locs['layer'][0]
    for n in ast.walk(fi.node):
        if isinstance(n, ast.Assign) and is_name(n.targets[0], layer_loc) and \
                not (isinstance(n.value, ast.Call) and dotted(n.value.func) == 'getattr'):
            ok = isinstance(n.value, ast.Call) and call_name(n.value) == 'name_from_layer' and \
                is_name(n.value.args[0], layer_loc)
            rep.check(ok, R, 'the layer local is only normalised to its name',
                      'the layer of a suite is overwritten by %s' % norm(n.value), key='layer:rewrite',
                      func=fi.qualname, where=ctx.where(fi, n))
    ys = [n for n in ast.walk(fi.node) if isinstance(n, ast.Yield) and isinstance(n.value, ast.Tuple)
          and len(n.value.elts) == 2 and not isinstance(n.value.elts[1], ast.Constant)]
    rep.check(bool(ys) and all(is_name(y.value.elts[1], layer_loc) and
                               is_name(y.value.elts[0], ps[0]) for y in ys), R,
              'a leaf test is yielded with the local layer (%d yield sites)' % len(ys),
              'a test is yielded with %s' % [norm(y.value) for y in ys], key='yield:layer',
              func=fi.qualname, where=ctx.where(fi, fi.node))
    rep.floor(R, len(ys), 1, 'leaf yield sites')


def visits_every_member(ctx, rep, R):
    """every member of a suite is visited, whatever the suite's own level is: the nearest
    declaration of an inner test can only win -- and a selected test can only run (C03) -- if the
    walk reaches it"""
    fi = ctx.model.func(FN)
    ps = params(fi)
    rec = [c for c in own_calls(fi.node) if call_name(c) == fi.name]
    g = ctx.cfg(fi)
    from .common import nodes_calling, guard_literals
    for c in rec:
        lits = guard_literals(ctx, fi, c)
        txt = [(norm(e), pos) for e, pos in lits]
        rn = nodes_calling(g, lambda x: x is c)
        # the test that decides "this is a suite" and the edge on which it holds
        branch = []
        for n in g.nodes:
            if n.kind == 'test' and 'isinstance' in norm(n.ast) and 'TestSuite' in norm(n.ast):
                e, pos = n.ast, True
                while isinstance(e, ast.UnaryOp) and isinstance(e.op, ast.Not):
                    e, pos = e.operand, not pos
                if isinstance(e, ast.Call):
                    branch.append((n, 'true' if pos else 'false'))
        loops = [n for n in g.nodes if n.kind == 'for' and is_name(n.ast, ps[0]) and
                 any(r in g.loop_nodes(n.id) for r in rn)]
        ok = txt == [('isinstance(%s, unittest.TestSuite)' % ps[0], True)] and len(branch) == 1 and bool(loops)
        if ok:
            start = [d for d, k in g.succ[branch[0][0].id] if k == branch[0][1]]
            okp, _ = g.every_path_passes(start, [g.exit], {loops[0].id}, include_start=True)
            body = [d for d, k in g.succ[loops[0].id] if k == 'true']
            r = g.reach(body, avoid=set(rn), include_start=True)
            ok = okp and loops[0].id not in r and g.exit not in r
        rep.check(ok, R, 'every member of a TestSuite is visited unconditionally',
                  'the walk into a suite is conditional (%s) or can be left early: an inner test '
                  'with its own (nearer) level/layer declaration would never be looked at' % txt,
                  key='visit-all', func=fi.qualname, where=ctx.where(fi, c))


def r2_level_predicate(ctx, rep, R='C09.R2'):
    rep.rule(R, 'level predicate: over every ordering of (level, at_level, 0) and every relation of '
             'only_level to level, a leaf test is yielded iff (only_level is None and (at_level <= 0 '
             'or level <= at_level)) or (only_level is not None and level == only_level), given '
             'the --test predicate accepts it; --all sets at_level to sys.maxsize')
    fi = ctx.model.func(FN)
    level_loc, _ = _getattr_local(fi, 'level')
    ys = [n for n in ast.walk(fi.node) if isinstance(n, ast.Yield) and isinstance(n.value, ast.Tuple)
          and len(n.value.elts) == 2 and not isinstance(n.value.elts[1], ast.Constant)]
    from .common import guard_literals
    guards = []
    for y in ys:
        lits = guard_literals(ctx, fi, y)
        guards.append(lits)
    vocab_ok = True
    for lits in guards:
        for e, pos in lits:
            names = {norm(x) for x in ast.walk(e) if isinstance(x, (ast.Name, ast.Attribute))
                     and not isinstance(getattr(x, '_parent', None), ast.Attribute)}
            for nm in names:
                if nm not in (level_loc, 'options.at_level', 'options.only_level', 'accept', 'suite',
                              'str', 'isinstance', 'unittest.TestSuite', 'StartUpFailure',
                              'options.require_unique_ids', 'suite_id', 'seen_test_ids'):
                    vocab_ok = False
                    rep.undecide(R, 'guard atom %s' % nm, 'the guard of a yield mentions an atom '
                                 'outside the level vocabulary')
    if not vocab_ok or not guards:
        if not guards:
            rep.bad(R, 'no leaf yield', 'tests_from_suite yields no leaf test', key='no-yield',
                    func=fi.qualname)
        return
    vals = (-2, -1, 0, 1, 2, 3)
    n = 0
    bad = None
    for level, at, only in itertools.product(vals, vals, (None,) + vals):
        n += 1
        env = {level_loc: level, 'options.at_level': at, 'options.only_level': only,
               "isinstance(suite, unittest.TestSuite)": False,
               "isinstance(suite, StartUpFailure)": False,
               'accept is None': False, 'accept(str(suite))': True,
               'options.require_unique_ids': False}
        got = False
        for lits in guards:
            taken = True
            for e, pos in lits:          # nested ifs: evaluated outermost first, short-circuit
                v = eval_guard(e, env)
                if v is UNKNOWN:
                    rep.undecide(R, 'guard %s' % norm(e), 'cannot evaluate on the finite domain')
                    return
                if (bool(v) if pos else not v) is False:
                    taken = False
                    break
            got = got or taken
        want = (only is None and (at <= 0 or level <= at)) or (only is not None and level == only)
        if got != want and bad is None:
            bad = (level, at, only, got, want)
    rep.check(bad is None, R, 'level predicate agrees with the specification on all %d points of the '
              'finite domain (all order types of level, at_level, 0, only_level)' % n,
              'level=%s at_level=%s only_level=%s: test %s but the specification says %s' % (
                  bad[0], bad[1], bad[2], 'yielded' if bad[3] else 'dropped',
                  'eligible' if bad[4] else 'not eligible') if bad else '',
              key='level-predicate', func=fi.qualname, where=ctx.where(fi, fi.node))
    rep.floor(R, n, 200, 'domain points')
    # the accept conjunct is on every yield
    for lits in guards:
        acc = [e for e, pos in lits if 'accept' in norm(e) and pos]
        rep.check(len(acc) == 1, R, 'each leaf yield is also guarded by the --test predicate',
                  'a yield is not guarded by accept', key='level:accept', func=fi.qualname,
                  where=ctx.where(fi, fi.node))
    go = ctx.model.func('options.get_options')
    ok = False
    for n_ in ast.walk(go.node):
        if isinstance(n_, ast.If) and norm(n_.test) == 'options.all':
            for s in n_.body:
                if isinstance(s, ast.Assign) and dotted(s.targets[0]) == 'options.at_level' and \
                        ctx.model.resolve_dotted(go.module, dotted(s.value)) in ('sys.maxsize',):
                    ok = True
    rep.check(ok, R, 'get_options: --all sets options.at_level = sys.maxsize',
              '--all does not lift the level bound', key='all', func=go.qualname,
              where=ctx.where(go, go.node))


def r3_unit_switches(ctx, rep, R='C09.R3'):
    rep.rule(R, 'unit switches: -u and -f together cancel each other before -u forces the unit '
             'layer; the unit-test layer is kept iff not --non-unit and (no --layer given or the '
             '--layer predicate accepts it)')
    go = ctx.model.func('options.get_options')
    class _Undecided(Exception):
        pass

    def relevant(node):
        return any(dotted(x) in ('options.unit', 'options.non_unit') for x in ast.walk(node))

    def exec_block(stmts, env, state):
        for st in stmts:
            if isinstance(st, ast.If) and relevant(st):
                v = eval_guard(st.test, env)
                if v is UNKNOWN:
                    raise _Undecided(norm(st.test))
                exec_block(st.body if v else st.orelse, env, state)
            elif isinstance(st, ast.Assign):
                for t in st.targets:
                    d = dotted(t)
                    if d in env:
                        if isinstance(st.value, ast.Constant):
                            env[d] = st.value.value
                        else:
                            v = eval_guard(st.value, env)
                            if v is UNKNOWN:
                                raise _Undecided(norm(st))
                            env[d] = v
                    if d == 'options.layer' and 'UnitTests' in norm(st.value):
                        state['forced'] = True
    table = {}
    for unit, non in itertools.product((False, True), repeat=2):
        env = {'options.unit': unit, 'options.non_unit': non}
        state = {'forced': False}
        try:
            exec_block([st for st in go.node.body if (isinstance(st, ast.If) and relevant(st)) or
                        (isinstance(st, ast.Assign) and any(dotted(t) in env for t in st.targets))], env, state)
        except _Undecided as e:
            rep.undecide(R, str(e), 'cannot evaluate the unit switch condition')
            return
        table[(unit, non)] = (env['options.unit'], env['options.non_unit'], state['forced'])
    want = {(False, False): (False, False, False), (True, False): (True, False, True),
            (False, True): (False, True, False), (True, True): (False, False, False)}
    rep.check(table == want, R, 'get_options: (-u, -f) decision table', 'the unit/non-unit switches '
              'resolve to %s, expected %s' % (table, want), key='switches', func=go.qualname,
              where=ctx.where(go, go.node))
    # Filter.global_setup: the condition under which the unit-test layer is removed from the
    # registry, read off the branch literals that hold at the removal (flag locals expanded), is
    # evaluated on all 8 combinations of (--non-unit, --layer given, --layer accepts the unit layer)
    ff = ctx.model.func('filter.Filter.global_setup')
    from .common import alias_dotted, guard_literals
    rem = []
    for n in ast.walk(ff.node):
        if isinstance(n, ast.Call) and isinstance(n.func, ast.Attribute) and n.func.attr == 'pop' and \
                n.args and is_name(n.args[0], 'UNITTEST_LAYER'):
            rem.append(n)
        if isinstance(n, ast.Delete) and any(isinstance(t, ast.Subscript) and
                                             is_name(t.slice, 'UNITTEST_LAYER') for t in n.targets):
            rem.append(n)
    if len(rem) != 1:
        rep.undecide(R, 'Filter.global_setup', 'expected one site removing UNITTEST_LAYER from the '
                     'registry, found %d' % len(rem))
        return
    blk = rem[0]
    from .common import expander, node_of
    gff = ctx.cfg(ff)
    nid = node_of(gff, rem[0])
    lits = gff.dominating_literals(nid, expand=expander(ff.node)) if nid is not None else \
        guard_literals(ctx, ff, rem[0])
    # a flag local that survives the expansion (initial value conditionally overwritten ...) is
    # replaced by its symbolic value at the test that reads it
    from .common import symbolic_value
    from sa.variance import split_literals
    lits2 = []
    for e, pos in lits:
        flags = [x.id for x in ast.walk(e) if isinstance(x, ast.Name) and isinstance(x.ctx, ast.Load) and
                 len([v for v in local_assignments(ff.node).get(x.id, [])]) > 1]
        def reader_of(fl):
            # the innermost if statement around the removal whose test reads the flag
            node_ = rem[0]
            while getattr(node_, '_parent', None) is not None and node_ is not ff.node:
                node_ = node_._parent
                if isinstance(node_, ast.If) and any(is_name(y, fl) for y in ast.walk(node_.test)):
                    return node_
            return None
        tests = [reader_of(fl) for fl in flags]
        if flags and all(t is not None for t in tests):
            new = e
            for fl, at in zip(flags, tests):
                v = symbolic_value(ff.node, at, fl)
                if v is not None:
                    class _S(ast.NodeTransformer):
                        def visit_Name(self, n_):
                            return v if n_.id == fl and isinstance(n_.ctx, ast.Load) else n_
                    from .common import ast_copy
                    new = _S().visit(ast_copy(new))
            lits2 += split_literals(new, pos)
        else:
            lits2.append((e, pos))
    lits = lits2

    def atoms(non, given, acc):
        def opt(name, val):
            return {'options.' + name: val, 'self.runner.options.' + name: val,
                    'runner.options.' + name: val}
        env = {}
        env.update(opt('non_unit', non))
        env.update(opt('layer', ['x'] if given else None))
        for e, _pos in lits:
            for x in ast.walk(e):
                if isinstance(x, ast.Compare) and isinstance(x.ops[0], (ast.In, ast.NotIn)) and \
                        is_name(x.left, 'UNITTEST_LAYER'):
                    env[norm(x)] = isinstance(x.ops[0], ast.In)
                if isinstance(x, ast.Call) and x.args and is_name(x.args[0], 'UNITTEST_LAYER') and \
                        ('build_filtering_func' in norm(x.func) or any(
                            isinstance(v, ast.Call) and call_name(v) == 'build_filtering_func'
                            for v in local_assignments(ff.node).get(getattr(x.func, 'id', ''), [])
                            if isinstance(v, ast.AST))):
                    env[norm(x)] = acc
        return env
    bad = None
    n = 0
    for non, given, acc in itertools.product((False, True), repeat=3):
        if not given and acc is False:
            pass
        n += 1
        env = atoms(non, given, acc)
        removed = True
        for e, pos in lits:
            v = eval_guard(e, env)
            if v is UNKNOWN:
                rep.undecide(R, norm(e), 'cannot evaluate the condition under which the unit layer is removed')
                return
            if bool(v) != pos:
                removed = False
                break
        want_keep = (not non) and ((not given) or acc)
        if removed == want_keep and bad is None:
            bad = (non, given, acc, {not removed}, want_keep)
    rep.check(bad is None, R, 'Filter: unit layer kept iff not non_unit and (no --layer or accepted) '
              '(%d cases)' % n, 'non_unit=%s, --layer given=%s, accepted=%s: unit layer kept=%s, '
              'expected %s' % bad if bad else '', key='unit-layer', func=ff.qualname,
              where=ctx.where(ff, blk))
    blk = ff.node
    # the predicate used is build_filtering_func(options.layer)
    # (the calls that judge the unit layer: in the removal condition itself, or assigned to the local
    # the condition calls)
    bf = []
    for e, _pos in lits:
        for x in ast.walk(e):
            if isinstance(x, ast.Call) and x.args and is_name(x.args[0], 'UNITTEST_LAYER'):
                if isinstance(x.func, ast.Call) and call_name(x.func) == 'build_filtering_func':
                    bf.append(x.func)
                elif isinstance(x.func, ast.Name):
                    # the definition that reaches the removal site
                    from .common import reaching_defs
                    for v in reaching_defs(gff, nid, x.func.id) if nid is not None else []:
                        if isinstance(v, ast.Call) and call_name(v) == 'build_filtering_func':
                            bf.append(v)
    bf = list({id(c): c for c in bf}.values())
    rep.check(len(bf) == 1 and bf[0].args and (alias_dotted(ff.node, bf[0].args[0]) or
                                                dotted(bf[0].args[0]) or '').endswith('options.layer'), R,
              'the unit layer is judged by build_filtering_func(options.layer)',
              'another predicate decides about the unit layer', key='unit-layer:predicate',
              func=ff.qualname, where=ctx.where(ff, blk))
