"""C09 -- nearest layer/level declaration wins; level and unit switches as documented."""
import ast
import itertools

from sa.variance import UNKNOWN, eval_guard, path_literals
from .common import Ctx, call_name, dotted, is_name, kw, norm, own_calls, params

P = 'C09'
FN = 'find.tests_from_suite'


def run(model, rep, tier):
    ctx = Ctx(model)
    r1_nearest_wins(ctx, rep)
    r2_level_predicate(ctx, rep)
    r3_unit_switches(ctx, rep)
    rep.units['cfg'] = ctx.cfg_stats


def _getattr_local(fi, attr):
    """(local name, default expr) for ``x = getattr(suite, '<attr>', default)``"""
    for n in ast.walk(fi.node):
        if isinstance(n, ast.Assign) and isinstance(n.targets[0], ast.Name) and \
                isinstance(n.value, ast.Call) and dotted(n.value.func) == 'getattr' and \
                len(n.value.args) == 3 and isinstance(n.value.args[1], ast.Constant) and \
                n.value.args[1].value == attr and is_name(n.value.args[0], params(fi)[0]):
            return n.targets[0].id, n.value.args[2]
    return None, None


def _defaults(fi):
    a = fi.node.args
    names = [x.arg for x in a.args]
    out = {}
    for nm, d in zip(names[len(names) - len(a.defaults):], a.defaults):
        out[nm] = d
    return out


def r1_nearest_wins(ctx, rep, R='C09.R1'):
    rep.rule(R, 'nearest declaration wins: level / layer of a (sub)suite are getattr(suite, "level" / '
             '"layer", <what the enclosing suite passed down>); the recursion passes exactly these '
             'locals down; the outermost defaults are level 1 and the unit-test layer; the layer '
             'yielded with a test is that local')
    fi = ctx.model.func(FN)
    defs = _defaults(fi)
    ok_all = True
    locs = {}
    for attr, want in (('level', lambda d: isinstance(d, ast.Constant) and d.value == 1),
                       ('layer', lambda d: (dotted(d) or '').endswith('layer.UnitTests'))):
        loc, dflt = _getattr_local(fi, attr)
        pname = dotted(dflt) if dflt is not None else None
        ok = loc is not None and pname in defs and want(defs[pname])
        locs[attr] = (loc, pname)
        rep.check(ok, R, '%s = getattr(suite, %r, %s); outermost default %s' % (
            loc, attr, pname, norm(defs[pname]) if pname in defs else '?'),
            'the %s of a suite is not inherited via getattr(suite, %r, <inherited default>) with '
            'the documented outermost default' % (attr, attr), key='inherit:' + attr,
            func=fi.qualname, where=ctx.where(fi, fi.node))
        ok_all = ok_all and ok
    if not ok_all:
        return
    ps = params(fi)
    rec = [c for c in own_calls(fi.node) if call_name(c) == fi.name]
    rep.check(len(rec) == 1, R, 'one recursive call for nested suites', 'found %d recursive calls'
              % len(rec), key='recursion', func=fi.qualname, where=ctx.where(fi, fi.node))
    for c in rec:
        for attr in ('level', 'layer'):
            loc, pname = locs[attr]
            idx = ps.index(pname)
            a = c.args[idx] if idx < len(c.args) else kw(c, pname)
            rep.check(a is not None and is_name(a, loc), R,
                      'recursion passes the local %s as %s' % (loc, pname),
                      'the recursive call passes %s as %s: an inner suite would not inherit the '
                      'nearest enclosing declaration' % (norm(a) if a is not None else 'nothing', pname),
                      key='pass-down:' + attr, func=fi.qualname, where=ctx.where(fi, c))
    visits_every_member(ctx, rep, R)
    # re-assignments of the layer local only normalise it to a name
    layer_loc = locs['layer'][0]
    for n in ast.walk(fi.node):
        if isinstance(n, ast.Assign) and is_name(n.targets[0], layer_loc) and \
                not (isinstance(n.value, ast.Call) and dotted(n.value.func) == 'getattr'):
            ok = isinstance(n.value, ast.Call) and call_name(n.value) == 'name_from_layer' and \
                is_name(n.value.args[0], layer_loc)
            rep.check(ok, R, 'the layer local is only normalised to its name',
                      'the layer of a suite is overwritten by %s' % norm(n.value), key='layer:rewrite',
                      func=fi.qualname, where=ctx.where(fi, n))
    ys = [n for n in ast.walk(fi.node) if isinstance(n, ast.Yield) and isinstance(n.value, ast.Tuple)
          and len(n.value.elts) == 2 and not isinstance(n.value.elts[1], ast.Constant)]
    rep.check(bool(ys) and all(is_name(y.value.elts[1], layer_loc) and
                               is_name(y.value.elts[0], ps[0]) for y in ys), R,
              'a leaf test is yielded with the local layer (%d yield sites)' % len(ys),
              'a test is yielded with %s' % [norm(y.value) for y in ys], key='yield:layer',
              func=fi.qualname, where=ctx.where(fi, fi.node))
    rep.floor(R, len(ys), 1, 'leaf yield sites')


def visits_every_member(ctx, rep, R):
    """every member of a suite is visited, whatever the suite's own level is: the nearest
    declaration of an inner test can only win -- and a selected test can only run (C03) -- if the
    walk reaches it"""
    fi = ctx.model.func(FN)
    ps = params(fi)
    rec = [c for c in own_calls(fi.node) if call_name(c) == fi.name]
    g = ctx.cfg(fi)
    from .common import nodes_calling, guard_literals
    for c in rec:
        lits = guard_literals(ctx, fi, c)
        txt = [(norm(e), pos) for e, pos in lits]
        rn = nodes_calling(g, lambda x: x is c)
        # the test that decides "this is a suite" and the edge on which it holds
        branch = []
        for n in g.nodes:
            if n.kind == 'test' and 'isinstance' in norm(n.ast) and 'TestSuite' in norm(n.ast):
                e, pos = n.ast, True
                while isinstance(e, ast.UnaryOp) and isinstance(e.op, ast.Not):
                    e, pos = e.operand, not pos
                if isinstance(e, ast.Call):
                    branch.append((n, 'true' if pos else 'false'))
        loops = [n for n in g.nodes if n.kind == 'for' and is_name(n.ast, ps[0]) and
                 any(r in g.loop_nodes(n.id) for r in rn)]
        ok = txt == [('isinstance(%s, unittest.TestSuite)' % ps[0], True)] and len(branch) == 1 and bool(loops)
        if ok:
            start = [d for d, k in g.succ[branch[0][0].id] if k == branch[0][1]]
            okp, _ = g.every_path_passes(start, [g.exit], {loops[0].id}, include_start=True)
            body = [d for d, k in g.succ[loops[0].id] if k == 'true']
            r = g.reach(body, avoid=set(rn), include_start=True)
            ok = okp and loops[0].id not in r and g.exit not in r
        rep.check(ok, R, 'every member of a TestSuite is visited unconditionally',
                  'the walk into a suite is conditional (%s) or can be left early: an inner test '
                  'with its own (nearer) level/layer declaration would never be looked at' % txt,
                  key='visit-all', func=fi.qualname, where=ctx.where(fi, c))


def r2_level_predicate(ctx, rep, R='C09.R2'):
    rep.rule(R, 'level predicate: over every ordering of (level, at_level, 0) and every relation of '
             'only_level to level, a leaf test is yielded iff (only_level is None and (at_level <= 0 '
             'or level <= at_level)) or (only_level is not None and level == only_level), given '
             'the --test predicate accepts it; --all sets at_level to sys.maxsize')
    fi = ctx.model.func(FN)
    level_loc, _ = _getattr_local(fi, 'level')
    ys = [n for n in ast.walk(fi.node) if isinstance(n, ast.Yield) and isinstance(n.value, ast.Tuple)
          and len(n.value.elts) == 2 and not isinstance(n.value.elts[1], ast.Constant)]
    from .common import guard_literals
    guards = []
    for y in ys:
        lits = guard_literals(ctx, fi, y)
        guards.append(lits)
    vocab_ok = True
    for lits in guards:
        for e, pos in lits:
            names = {norm(x) for x in ast.walk(e) if isinstance(x, (ast.Name, ast.Attribute))
                     and not isinstance(getattr(x, '_parent', None), ast.Attribute)}
            for nm in names:
                if nm not in (level_loc, 'options.at_level', 'options.only_level', 'accept', 'suite',
                              'str', 'isinstance', 'unittest.TestSuite', 'StartUpFailure',
                              'options.require_unique_ids', 'suite_id', 'seen_test_ids'):
                    vocab_ok = False
                    rep.undecide(R, 'guard atom %s' % nm, 'the guard of a yield mentions an atom '
                                 'outside the level vocabulary')
    if not vocab_ok or not guards:
        if not guards:
            rep.bad(R, 'no leaf yield', 'tests_from_suite yields no leaf test', key='no-yield',
                    func=fi.qualname)
        return
    vals = (-2, -1, 0, 1, 2, 3)
    n = 0
    bad = None
    for level, at, only in itertools.product(vals, vals, (None,) + vals):
        n += 1
        env = {level_loc: level, 'options.at_level': at, 'options.only_level': only,
               "isinstance(suite, unittest.TestSuite)": False,
               "isinstance(suite, StartUpFailure)": False,
               'accept is None': False, 'accept(str(suite))': True,
               'options.require_unique_ids': False}
        got = False
        for lits in guards:
            taken = True
            for e, pos in lits:          # nested ifs: evaluated outermost first, short-circuit
                v = eval_guard(e, env)
                if v is UNKNOWN:
                    rep.undecide(R, 'guard %s' % norm(e), 'cannot evaluate on the finite domain')
                    return
                if (bool(v) if pos else not v) is False:
                    taken = False
                    break
            got = got or taken
        want = (only is None and (at <= 0 or level <= at)) or (only is not None and level == only)
        if got != want and bad is None:
            bad = (level, at, only, got, want)
    rep.check(bad is None, R, 'level predicate agrees with the specification on all %d points of the '
              'finite domain (all order types of level, at_level, 0, only_level)' % n,
              'level=%s at_level=%s only_level=%s: test %s but the specification says %s' % (
                  bad[0], bad[1], bad[2], 'yielded' if bad[3] else 'dropped',
                  'eligible' if bad[4] else 'not eligible') if bad else '',
              key='level-predicate', func=fi.qualname, where=ctx.where(fi, fi.node))
    rep.floor(R, n, 200, 'domain points')
    # the accept conjunct is on every yield
    for lits in guards:
        acc = [e for e, pos in lits if 'accept' in norm(e) and pos]
        rep.check(len(acc) == 1, R, 'each leaf yield is also guarded by the --test predicate',
                  'a yield is not guarded by accept', key='level:accept', func=fi.qualname,
                  where=ctx.where(fi, fi.node))
    go = ctx.model.func('options.get_options')
    ok = False
    for n_ in ast.walk(go.node):
        if isinstance(n_, ast.If) and norm(n_.test) == 'options.all':
            for s in n_.body:
                if isinstance(s, ast.Assign) and dotted(s.targets[0]) == 'options.at_level' and \
                        ctx.model.resolve_dotted(go.module, dotted(s.value)) in ('sys.maxsize',):
                    ok = True
    rep.check(ok, R, 'get_options: --all sets options.at_level = sys.maxsize',
              '--all does not lift the level bound', key='all', func=go.qualname,
              where=ctx.where(go, go.node))


def r3_unit_switches(ctx, rep, R='C09.R3'):
    rep.rule(R, 'unit switches: -u and -f together cancel each other before -u forces the unit '
             'layer; the unit-test layer is kept iff not --non-unit and (no --layer given or the '
             '--layer predicate accepts it)')
    go = ctx.model.func('options.get_options')
    ifs = [st for st in go.node.body if isinstance(st, ast.If) and
           ('options.unit' in norm(st.test) or 'options.non_unit' in norm(st.test))]
    table = {}
    for unit, non in itertools.product((False, True), repeat=2):
        env = {'options.unit': unit, 'options.non_unit': non}
        forced = False
        for st in ifs:
            v = eval_guard(st.test, env)
            if v is UNKNOWN:
                rep.undecide(R, norm(st.test), 'cannot evaluate the unit switch condition')
                return
            if v:
                for s in st.body:
                    if isinstance(s, ast.Assign):
                        for t in s.targets:
                            d = dotted(t)
                            if d in env and isinstance(s.value, ast.Constant):
                                env[d] = s.value.value
                            if d == 'options.layer':
                                forced = 'UnitTests' in norm(s.value)
        table[(unit, non)] = (env['options.unit'], env['options.non_unit'], forced)
    want = {(False, False): (False, False, False), (True, False): (True, False, True),
            (False, True): (False, True, False), (True, True): (False, False, False)}
    rep.check(table == want, R, 'get_options: (-u, -f) decision table', 'the unit/non-unit switches '
              'resolve to %s, expected %s' % (table, want), key='switches', func=go.qualname,
              where=ctx.where(go, go.node))
    # Filter.global_setup
    ff = ctx.model.func('filter.Filter.global_setup')
    blk = None
    for st in ff.node.body:
        if isinstance(st, ast.If) and 'UNITTEST_LAYER' in norm(st.test) and \
                isinstance(st.test, ast.Compare) and isinstance(st.test.ops[0], ast.In):
            blk = st
    if blk is None:
        rep.undecide(R, 'Filter.global_setup', 'no "if UNITTEST_LAYER in layers" block')
        return
    # enumerate the paths of the block with the value of should_run
    from .c08 import _sym_paths
    paths = []
    _sym_paths(list(blk.body), {'conds': [], 'stores': []}, paths)
    pops = [c for c in ast.walk(blk) if isinstance(c, ast.Call) and isinstance(c.func, ast.Attribute)
            and c.func.attr == 'pop' and 'UNITTEST_LAYER' in norm(c)]
    flag = None
    if len(pops) == 1:
        lits = path_literals(pops[0], blk)
        if len(lits) == 1 and isinstance(lits[0][0], ast.Name) and lits[0][1] is False:
            flag = lits[0][0].id
    if flag is None:
        rep.undecide(R, 'Filter.global_setup', 'the unit layer is not removed under "if not <flag>"')
        return
    bad = None
    n = 0
    for non, given, acc in itertools.product((False, True), repeat=3):
        n += 1
        env = {'options.non_unit': non, 'options.layer': ['x'] if given else None,
               'self.runner.options.non_unit': non,
               'self.runner.options.layer': ['x'] if given else None}
        vals = set()
        for p in paths:
            conds = [c for c in p['conds'] if not is_name(c[0] if not isinstance(c[0], ast.UnaryOp)
                                                          else c[0].operand, flag)]
            ok = True
            for t, taken in conds:
                v = eval_guard(t, env)
                if v is UNKNOWN:
                    rep.undecide(R, norm(t), 'cannot evaluate')
                    return
                if bool(v) != taken:
                    ok = False
            if ok:
                v = p.get(flag)
                if v == ('const', True):
                    vals.add(True)
                elif v == ('const', False):
                    vals.add(False)
                elif isinstance(v, tuple) and v[0] == 'call' and 'UNITTEST_LAYER' in v[1]:
                    vals.add(acc)
                else:
                    vals.add('?')
        want_keep = (not non) and ((not given) or acc)
        if vals != {want_keep} and bad is None:
            bad = (non, given, acc, vals, want_keep)
    rep.check(bad is None, R, 'Filter: unit layer kept iff not non_unit and (no --layer or accepted) '
              '(%d cases)' % n, 'non_unit=%s, --layer given=%s, accepted=%s: unit layer kept=%s, '
              'expected %s' % bad if bad else '', key='unit-layer', func=ff.qualname,
              where=ctx.where(ff, blk))
    # the predicate used is build_filtering_func(options.layer)
    bf = [c for c in ast.walk(blk) if isinstance(c, ast.Call) and call_name(c) == 'build_filtering_func']
    rep.check(len(bf) == 1 and (dotted(bf[0].args[0]) or '').endswith('options.layer'), R,
              'the unit layer is judged by build_filtering_func(options.layer)',
              'another predicate decides about the unit layer', key='unit-layer:predicate',
              func=ff.qualname, where=ctx.where(ff, blk))
