"""Rules evaluated on the typestate exploration (sa.typestate) of runner.TestResult.

Every rule is a predicate over *all* reachable transitions of all configurations and protocol
variants; a violation is reported with a shortest protocol word."""
from sa import typestate

RESULT_CLASS = 'runner.TestResult'
_cache = {}


def exploration(ctx):
    # cached on the model object itself (an id()-keyed table can hand out the exploration of a
    # model that was garbage collected when the same address is re-used: self-test workers analyse
    # many models in one process)
    m = ctx.model
    ex = getattr(m, '_ts_exploration', None)
    if ex is None:
        cls = m.cls(RESULT_CLASS)
        ex = typestate.explore(ctx, cls)
        m._ts_exploration = ex
    return ex


def record_units(rep, ex):
    rep.states = ex.states
    rep.transitions = len(ex.transitions)
    rep.units['typestate'] = {'configurations_x_variants': ex.configs, 'abstract_states': ex.states,
                              'transitions': len(ex.transitions)}
    rep.assume('unittest driver protocol = DESIGN.md 3.2 (V-start-first, V-skip-first; V-debug = the '
               'post-mortem loop of runner.run_tests); loop approximations: ' +
               '; '.join(sorted(ex.approx)))


def _where(ctx, method):
    fi = ctx.model.find_method(ctx.model.cls(RESULT_CLASS), method)
    if fi is None:
        return RESULT_CLASS + '.' + method
    return ctx.where(fi, fi.node)


def _report(ctx, rep, rule, hits, ok_text, total, floor=1):
    """hits: list of (key, transition, what).  One obligation per distinct construct."""
    best = typestate.shortest(hits)
    for key, (tr, what) in sorted(best.items()):
        rep.bad(rule, key, '%s  [shortest word: %s ; %s ; %s]' % (
            what, tr.word_str(), tr.variant, tr.config_str()), key=key,
            where=_where(ctx, tr.method), func=RESULT_CLASS + '.' + tr.method,
            path=['word: ' + tr.word_str(), 'variant: ' + tr.variant, 'config: ' + tr.config_str(),
                  'events of the last callback: ' + '; '.join(_ev_str(e) for e in tr.events)[:600]])
    if not best:
        rep.ok(rule, ok_text, 'holds on all %d relevant transitions' % total)
    rep.floor(rule, total, floor, 'transitions examined')
    rep.sample('%s: %d transitions examined, %d violating constructs' % (rule, total, len(best)))


def _ev_str(e):
    if e[0] == 'fmt':
        return 'output.%s(...)' % '|'.join(sorted(e[1]))
    if e[0] == 'hook':
        return 'layer.%s[%s,%s]' % (e[1], e[2], e[3])
    if e[0] == 'stream-store':
        return '%s=%s' % (e[1], e[2][1] if e[2][0] == 'obj' else e[2][0])
    return ' '.join(str(x) for x in e)


def _buffered(st, chan):
    v = st.get(chan)
    return bool(v) and v[0] == 'obj' and v[1].startswith('new:')


def _orig(st, chan):
    v = st.get(chan)
    return bool(v) and v[0] == 'obj' and v[1] == 'orig:' + chan


# ------------------------------------------------------------------------------------------

def no_escape(ctx, rep, rule, only=None):
    """no exception escapes a result callback from the callback's own state handling"""
    ex = exploration(ctx)
    hits, n = [], 0
    for tr in ex.transitions:
        if only and not only(tr):
            continue
        n += 1
        if tr.dst == 'CRASHED':
            hits.append(('%s: %s escapes: %s' % (tr.method, tr.ctrl[1], tr.ctrl[2]), tr,
                         '%s raised inside TestResult.%s: %s' % (tr.ctrl[1], tr.method, tr.ctrl[2])))
    for e in ex.init_events:
        if e[0] == 'init-raises':
            rep.bad(rule, '__init__ raises', str(e[1]), key='__init__:' + str(e[1][1:]),
                    func=RESULT_CLASS + '.__init__')
    _report(ctx, rep, rule, hits, 'no exception escapes any result callback on any protocol word', n,
            floor=50)


def hook_balance(ctx, rep, rule):
    ex = exploration(ctx)
    hits, n = [], 0
    for tr in ex.transitions:
        n += 1
        if tr.dst in ('CRASHED', 'ABORTED'):
            continue
        for e in tr.events:
            if e[0] == 'hook' and e[1] in ('testSetUp', 'testTearDown'):
                if e[3] != 'ok':
                    hits.append(('%s: layer.%s() while the hooks are %s' % (
                        tr.method, e[1], 'already up' if e[1] == 'testSetUp' else 'not up'), tr,
                        'layer.%s() is called although the matching %s did not happen for this test'
                        % (e[1], 'testTearDown' if e[1] == 'testSetUp' else 'testSetUp')))
                want = 'fwd' if e[1] == 'testSetUp' else 'rev'
                if e[2] != want:
                    hits.append(('%s: layer.%s() iterates the layer list %s' % (tr.method, e[1], e[2]),
                                 tr, 'testSetUp must run bases first and testTearDown in the exact '
                                 'reverse order'))
            elif e[0] == 'hook':
                hits.append(('%s: layer.%s() from a result callback' % (tr.method, e[1]), tr,
                             'layer set-up/tear-down hook called per test'))
            elif e[0] == 'hook-loop-break':
                hits.append(('%s: hook loop left early' % tr.method, tr,
                             'the loop over the layer stack can stop before every layer was called'))
        if tr.dst in ('RUN', 'SKIP0') and tr.src == 'IDLE' and tr.post.get('hooks') != 'up':
            hits.append(('%s: test starts without testSetUp' % tr.method, tr,
                         'a test starts (%s) but the layers\' testSetUp was not called' % tr.event))
        if tr.dst in ('IDLE', 'STOPPED') and tr.post.get('hooks') != 'down':
            hits.append(('%s: test ends without testTearDown' % tr.method, tr,
                         'stopTest returned but the layers\' testTearDown was not called'))
    _report(ctx, rep, rule, hits, 'testSetUp/testTearDown balanced, ordered and complete on every '
            'protocol word', n, floor=50)


def streams_restored(ctx, rep, rule):
    ex = exploration(ctx)
    hits, n = [], 0
    # including the words on which the running test re-bound sys.stdout / sys.stderr itself (to a
    # stream of its own, the "redirect to StringIO" idiom) and did not put it back: whether the
    # capture is active must not be read off the identity of what is installed
    for tr in ex.transitions + ex.tampered:
        if tr.dst not in ('IDLE', 'STOPPED'):
            continue
        n += 1
        for chan in ('sys.stdout', 'sys.stderr'):
            if not _orig(tr.post, chan):
                v = tr.post.get(chan)
                hits.append(('%s is %s after stopTest' % (chan, v[1] if v and v[0] == 'obj' else v),
                             tr, '%s is not the original stream object between tests' % chan))
    _report(ctx, rep, rule, hits, 'sys.stdout/sys.stderr are the original objects after every '
            'stopTest', n, floor=20)


def streams_when_hook_raises(ctx, rep, rule):
    """a layer's testSetUp / testTearDown is user code and may raise; the exception leaves the
    callback and the run (unittest and the post-mortem loop call startTest outside their try, and
    stopTest IS their finally): at that moment the std streams must be the originals"""
    ex = exploration(ctx)
    hits, n = [], 0
    for tr in ex.transitions:
        if tr.dst != 'ABORTED':
            continue
        n += 1
        for chan in ('sys.stdout', 'sys.stderr'):
            if not _orig(tr.post, chan):
                v = tr.post.get(chan)
                hits.append(('%s: %s is %s when a layer hook raises' % (
                    tr.method, chan, v[1] if v and v[0] == 'obj' else v), tr,
                    '%s inside %s: the exception ends the run while %s is still replaced; nothing '
                    'restores it afterwards' % (tr.ctrl[2], tr.method, chan)))
    _report(ctx, rep, rule, hits, 'whenever a per-test layer hook is called (it may raise and end the '
            'run) sys.stdout/sys.stderr are the original objects', n, floor=20)


def buffered_while_running(ctx, rep, rule):
    """--buffer: as long as a test is running and no outcome was reported for it, both std
    streams are the capture buffers (otherwise what a passing test prints reaches the output)"""
    ex = exploration(ctx)
    hits, n = [], 0
    for tr in ex.transitions:
        if not tr.config.get('buffer') or tr.dst != 'RUN':
            continue
        n += 1
        for chan in ('sys.stdout', 'sys.stderr'):
            if not _buffered(tr.post, chan):
                hits.append(('%s: %s is not captured while the test is still running' % (
                    tr.method, chan), tr, 'after %s the test goes on (no failure, error or skip '
                    'was reported) but %s is not the capture buffer: output of a test that may '
                    'still pass reaches the real stream' % (tr.event, chan)))
    _report(ctx, rep, rule, hits, 'while a test runs and nothing was reported for it, sys.stdout and '
            'sys.stderr are the capture buffers', n, floor=8)


def never_without_buffer(ctx, rep, rule):
    ex = exploration(ctx)
    hits, n = [], 0
    for tr in ex.transitions:
        if tr.config.get('buffer'):
            continue
        n += 1
        for e in tr.events:
            if e[0] == 'stream-store':
                hits.append(('%s: store to %s without --buffer' % (tr.method, e[1]), tr,
                             '%s is assigned although options.buffer is false' % e[1]))
    _report(ctx, rep, rule, hits, 'no store to sys.stdout/sys.stderr in any callback when '
            'options.buffer is false', n, floor=50)


BAD_REPORTS = frozenset(['test_error', 'test_failure'])


def attribution(ctx, rep, rule):
    """--buffer: captured text goes to the failure/error report of this test, whole and only"""
    ex = exploration(ctx)
    hits, n = [], 0
    for tr in ex.transitions:
        if not tr.config.get('buffer') or tr.dst in ('CRASHED', 'ABORTED'):
            continue
        n += 1
        was_buf = {c: _buffered(tr.pre, c) for c in ('sys.stdout', 'sys.stderr')}
        for e in tr.events:
            if e[0] == 'fmt':
                kws = dict(e[3])
                flat = list(e[2]) + list(kws.values())
                if e[1] & BAD_REPORTS:
                    for chan, kwn in (('sys.stdout', 'stdout'), ('sys.stderr', 'stderr')):
                        if was_buf[chan] and kws.get(kwn) != ('cap', chan):
                            hits.append(('%s: %s= of the report is not the text captured from %s'
                                         % (tr.method, kwn, chan), tr,
                                         'output.%s() gets %s=%r while %s was buffered for this test'
                                         % ('|'.join(sorted(e[1])), kwn, kws.get(kwn), chan)))
                        if kws.get(kwn, ('none',))[0] == 'cap' and kws[kwn] != ('cap', chan):
                            hits.append(('%s: %s= of the report is text from another stream'
                                         % (tr.method, kwn), tr, 'crossed or stale capture %r'
                                         % (kws[kwn],)))
                else:
                    if any(v[0] == 'cap' for v in flat):
                        hits.append(('%s: captured output passed to output.%s' % (
                            tr.method, '|'.join(sorted(e[1]))), tr,
                            'captured output of a test that did not fail reaches the formatter'))
            elif e[0] == 'stream-store' and e[3] == 'stale':
                hits.append(('%s: a buffer still holding earlier output is installed as %s' % (
                    tr.method, e[1]), tr, 'the capture buffer was not emptied (seek+truncate) after '
                    'the previous capture, so earlier output would be attributed to this test'))
            elif e[0] == 'getvalue' and e[2] is None:
                hits.append(('%s: getvalue() of a buffer that is not installed' % tr.method, tr,
                             'reads %s which is not the current sys.stdout/sys.stderr' % e[1]))
        # "the output of a failing test is shown completely": once a test has reported a failure or
        # an error, what it writes afterwards must not end in a buffer that is emptied without
        # being shown
        if tr.pre.get('had_bad'):
            shown = {kws_[k_][1] for e in tr.events if e[0] == 'fmt' and e[1] & BAD_REPORTS
                     for kws_ in [dict(e[3])] for k_ in kws_ if kws_[k_][0] == 'cap'}
            for chan in ('sys.stdout', 'sys.stderr'):
                v = tr.pre.get(chan)
                if was_buf[chan] and tr.pre.get('dirty:' + v[1]) and chan not in shown and \
                        any(e[0] == 'truncate' and e[1] == v[1] for e in tr.events):
                    hits.append(('%s: output written after a reported failure is discarded (%s)'
                                 % (tr.method, chan), tr,
                                 'the test has already reported a failure/error; %s was buffered '
                                 'again afterwards and %s empties that buffer without showing it'
                                 % (chan, tr.method)))
        # after a restore the buffers must be clean again
        if tr.dst in ('IDLE', 'STOPPED'):
            for k, v in tr.post.items():
                if k.startswith('dirty:') and v:
                    hits.append(('%s: buffer %s keeps its content into the next test' % (
                        tr.method, k[6:]), tr, 'capture buffer not truncated when the test ended'))
        trunc = [e[1] for e in tr.events if e[0] == 'truncate']
        seek = [e[1] for e in tr.events if e[0] == 'seek']
        for b in trunc:
            if b not in seek:
                hits.append(('%s: truncate of %s without seek(0)' % (tr.method, b), tr,
                             'truncating without rewinding leaves the write position behind'))
    _report(ctx, rep, rule, hits, 'captured stdout/stderr reach exactly the failing test\'s report; '
            'buffers are emptied after every capture', n, floor=50)


def stop_on_bad_outcome(ctx, rep, rule):
    ex = exploration(ctx)
    hits, n = [], 0
    methods = set()
    for tr in ex.transitions:
        if not tr.config.get('stop_on_error') or tr.config.get('post_mortem') or \
                tr.dst in ('CRASHED', 'ABORTED'):
            continue
        bad = [e for e in tr.events if e[0] == 'fmt' and e[1] & BAD_REPORTS]
        if not bad:
            continue
        n += 1
        methods.add(tr.method)
        if not tr.post.get('stop'):
            hits.append(('%s: bad outcome reported without stop()' % tr.method, tr,
                         'with --stop-on-error TestResult.%s reports a failure/error but does not '
                         'set shouldStop' % tr.method))
    _report(ctx, rep, rule, hits, 'every callback that reports a failure or error also stops the '
            'run under --stop-on-error (%s)' % ', '.join(sorted(methods)), n, floor=4)
    rep.floor(rule, len(methods), 4, 'bad-outcome callbacks (derived)')
    return methods


def no_stop_without_flag(ctx, rep, rule):
    ex = exploration(ctx)
    hits, n = [], 0
    for tr in ex.transitions:
        if tr.config.get('stop_on_error') or tr.dst in ('CRASHED', 'ABORTED'):
            continue
        n += 1
        if tr.post.get('stop') and not tr.pre.get('stop'):
            hits.append(('%s: stop() without --stop-on-error' % tr.method, tr,
                         'the run is stopped although --stop-on-error was not given'))
    _report(ctx, rep, rule, hits, 'no callback stops the run without --stop-on-error', n, floor=50)


def snapshot_rules(ctx, rep, rule):
    ex = exploration(ctx)
    hits, n, reads = [], 0, 0
    want = 'zope.testrunner.threadsupport.enumerate'
    for tr in ex.transitions:
        if tr.event != 'stopTest' or tr.dst in ('CRASHED', 'ABORTED'):
            continue
        n += 1
        iters = [e[1] for e in tr.events if e[0] == 'enum-iter']
        snaps = [e for e in tr.events if e[0] == 'snapshot-read']
        reads += len(snaps)
        if not iters:
            hits.append(('stopTest: no enumeration of the running threads', tr,
                         'stopTest does not enumerate the threads alive after the test'))
        for f in iters:
            if f != want:
                hits.append(('stopTest: threads enumerated with %s' % f, tr,
                             'the post-test enumeration must use threadsupport.enumerate (it also '
                             'sees _thread threads)'))
        for e in snaps:
            if e[2] != 'this':
                hits.append(('stopTest: compares against a snapshot taken before an earlier test',
                             tr, 'the thread snapshot used for the difference was not taken at the '
                             'start of this test'))
            if e[1] != want:
                hits.append(('stopTest: snapshot taken with %s' % e[1], tr,
                             'snapshot and post-test enumeration must use the same function'))
            if iters and e[1] not in iters:
                hits.append(('stopTest: snapshot and enumeration use different functions', tr,
                             'snapshot %s vs enumeration %s' % (e[1], iters)))
        for e in tr.events:
            if e[0] == 'fmt' and 'test_threads' in e[1]:
                if not e[2] or e[2][0] != ('param', 'test'):
                    hits.append(('stopTest: test_threads not attributed to this test', tr,
                                 'output.test_threads is not given the test that just ended'))
    _report(ctx, rep, rule, hits, 'per-test thread snapshot, same enumerator on both sides, '
            'leak attributed to the test that ended', n, floor=20)
    rep.floor(rule, reads, 1, 'snapshot comparisons seen')


def tests_run_counter(ctx, rep, rule):
    ex = exploration(ctx)
    hits, n = [], 0
    for tr in ex.transitions:
        if tr.dst not in ('IDLE', 'STOPPED') or tr.event != 'stopTest':
            continue
        n += 1
        t = tr.post.get('tr')
        if t != (0, 1):
            if '?' in t:
                rep.undecide(rule, 'testsRun', 'testsRun is assigned a value the counter domain '
                             'cannot express (word %s)' % tr.word_str())
                continue
            hits.append(('testsRun changes by %d + %d*countTestCases() per test' % t, tr,
                         'after one test testsRun must have grown by exactly countTestCases()'))
    _report(ctx, rep, rule, hits, 'testsRun grows by exactly countTestCases() per test on every '
            'protocol word', n, floor=20)


def driver_brackets(ctx, rep, R):
    """The typestate rules assume the *driver protocol*: every startTest is followed by stopTest
    whatever happens in between.  For unittest that is cross-checked against the stdlib sources
    (sa.protocheck); the post-mortem loop of runner.run_tests drives the result itself, so here the
    same fact is decided on its CFG with exception edges: a debugged test may raise anything and a
    result callback may raise EndRun, and still every path from ``result.startTest(test)`` to any
    exit of the function passes ``result.stopTest(test)``; the events fired in between are the ones
    of the V-debug protocol table (addSkip / addError / addSuccess, at most one)."""
    import ast
    from sa.cfg import Catalogue, T_exact, build_cfg
    from .common import USER_TOKENS, dotted, nodes_calling
    fi = ctx.model.func('runner.run_tests')
    res = None
    for n in ast.walk(fi.node):          # the local bound to TestResult(...)
        if isinstance(n, ast.Assign) and isinstance(n.value, ast.Call) and \
                (dotted(n.value.func) or '').split('.')[-1] == 'TestResult' and \
                isinstance(n.targets[0], ast.Name):
            res = n.targets[0].id
    if res is None:
        rep.undecide(R, 'driver', 'no local bound to TestResult(...) in runner.run_tests')
        return

    def src(call):
        f = call.func
        if isinstance(f, ast.Attribute) and f.attr == 'debug' and not call.args:
            return USER_TOKENS
        if isinstance(f, ast.Attribute) and isinstance(f.value, ast.Name) and f.value.id == res and \
                f.attr.startswith('add'):
            return [T_exact('EndRun')]
        return None
    g = build_cfg(fi.node, ctx.hier, Catalogue(src), fi.module, noreturn=ctx.noreturn_pred(fi),
                  name=fi.qualname)

    def calls(attr):
        return nodes_calling(g, lambda c: isinstance(c.func, ast.Attribute) and c.func.attr == attr
                             and isinstance(c.func.value, ast.Name) and c.func.value.id == res)
    S, T = calls('startTest'), calls('stopTest')
    rep.floor(R, len(S), 1, 'result.startTest sites driven by the package itself')
    ok = bool(S) and bool(T)
    path = None
    if ok:
        starts = [d for x in S for d, k in g.succ[x] if k != 'exc']
        ok, w = g.every_path_passes(starts, [g.exit, g.raise_exit], set(T), include_start=True)
        if not ok and w is not None:
            path = g.describe_path(g.path(starts, w, avoid=set(T), include_start=True) or [])
    rep.check(ok, R, 'post-mortem loop of run_tests: every startTest is followed by stopTest on every '
              'exit (a debugged test may raise anything, a callback may raise EndRun)',
              'the loop that drives the result in post-mortem mode can leave a started test without '
              'stopTest (e.g. when addError ends the run with EndRun): the per-test tear-down of the '
              'layers, the stream restore and the thread check of that test are skipped',
              key='driver:stopTest', func=fi.qualname, where=ctx.where(fi, fi.node), path=path)
    # at most one result event between startTest and stopTest, of the modelled kinds
    ev = {a: calls(a) for a in ('addSkip', 'addError', 'addSuccess', 'addFailure',
                                'addExpectedFailure', 'addUnexpectedSuccess', 'addSubTest')}
    used = sorted(a for a, ns in ev.items() if ns and any(
        n in g.reach(S, avoid=set(T)) for n in ns))
    rep.check(set(used) <= {'addSkip', 'addError', 'addSuccess'}, R,
              'events fired by the post-mortem loop: %s (the V-debug table)' % used,
              'the post-mortem loop fires %s; the V-debug protocol table models addSkip / addError / '
              'addSuccess only' % used, key='driver:events', func=fi.qualname,
              where=ctx.where(fi, fi.node))


def _driver_restores(ctx):
    """{'normal'|'debug': (bool, why)}: does the loop of runner.run_tests that runs the tests put the
    test object's attribute dictionary back itself (copy before the test runs; clear + update with
    that copy on every normal path to the next test)?"""
    import ast
    from .common import is_name, norm, reaching_defs
    fi = ctx.model.func('runner.run_tests')
    g = ctx.cfg(fi)
    out = {}
    for lp in ast.walk(fi.node):
        if not (isinstance(lp, ast.For) and isinstance(lp.target, ast.Name)):
            continue
        v = lp.target.id
        run = kind = None
        for nd in g.nodes:
            if nd.kind != 'stmt' or not any(x is nd.ast for x in ast.walk(lp)):
                continue
            for c in ast.walk(nd.ast):
                if isinstance(c, ast.Call) and is_name(c.func, v) and c.args:
                    run, kind = nd, 'normal'
                elif isinstance(c, ast.Call) and isinstance(c.func, ast.Attribute) and \
                        c.func.attr == 'debug' and is_name(c.func.value, v):
                    run, kind = nd, 'debug'
        if run is None:
            continue
        head = [n for n in g.nodes if n.kind == 'for' and n.stmt is lp]
        if not head:
            continue
        head = head[0]

        def dmeth(nd, m):
            for c in ast.walk(nd.ast):
                if isinstance(c, ast.Call) and isinstance(c.func, ast.Attribute) and c.func.attr == m \
                        and norm(c.func.value) == v + '.__dict__':
                    return c
            return None
        members = [nd for nd in g.nodes if nd.kind == 'stmt' and any(x is nd.ast for x in ast.walk(lp))]
        clears = {nd.id for nd in members if dmeth(nd, 'clear')}
        after_run = g.reach([d for d, k in g.succ[run.id] if k != 'exc'], avoid={head.id},
                            include_start=True, edge_ok=lambda s_, d_, k_: k_ != 'exc')
        updates = set()
        for nd in members:
            c = dmeth(nd, 'update')
            if c is None or len(c.args) != 1 or not isinstance(c.args[0], ast.Name):
                continue
            ds = reaching_defs(g, nd.id, c.args[0].id)
            good = bool(ds) and all(isinstance(d, ast.Call) and isinstance(d.func, ast.Attribute) and
                                    d.func.attr == 'copy' and norm(d.func.value) == v + '.__dict__'
                                    for d in ds)
            # the copy is taken before the test runs (not reachable from the run statement within
            # the same iteration)
            for d in ds if good else []:
                for cn in members:
                    if any(x is d for x in ast.walk(cn.ast)) and cn.id in after_run:
                        good = False
            if good:
                updates.add(nd.id)
        starts = [d for d, k in g.succ[run.id] if k != 'exc']
        ok = bool(updates) and bool(clears)
        why = 'no %s.__dict__.clear() / update(<copy taken before the test>) in the loop' % v
        if ok:
            ok, w = g.every_path_passes(starts, [head.id, g.exit], updates, include_start=True,
                                        edge_ok=lambda s_, d_, k_: k_ != 'exc' and
                                        not (g.node(s_).kind == 'test' and 'shouldStop' in norm(g.node(s_).ast)))
            why = 'a normal path from the test to the next one misses the update' if not ok else ''
            if ok:
                ok, w = g.every_path_passes(starts, list(updates), clears, include_start=True,
                                            edge_ok=lambda s_, d_, k_: k_ != 'exc')
                why = 'the dictionary is not cleared before it is refilled' if not ok else ''
        out[kind] = (bool(ok), why)
    return out


def test_state_restored(ctx, rep, rule):
    """After every test the attribute dictionary of the test object is what it was when the test
    was handed over -- otherwise the same object cannot be run again (--repeat) and garbage of the
    test stays referenced.  TestResult.stopTest clears and refills it from the copy startTest took;
    where stopTest works on a dictionary that is the live object itself (no copy was taken) the
    refill restores nothing, and the loop of runner.run_tests that drives the tests has to put the
    dictionary back itself.  A word is only bad when neither does."""
    ex = exploration(ctx)
    drv = _driver_restores(ctx)
    hits, n, lost_words = [], 0, 0
    for tr in ex.transitions:
        if tr.dst not in ('IDLE', 'STOPPED') or tr.event != 'stopTest' or tr.src == 'END':
            continue
        n += 1
        c = tr.post.get('tdict:test', 'S0')
        if c == 'S0':
            continue
        lost_words += 1
        kind = 'debug' if tr.variant == 'V-debug' else 'normal'
        if drv.get(kind, (False, 'no loop running the tests found'))[0]:
            continue
        hits.append(('test.__dict__ is %s after stopTest and the %s loop of run_tests does not put it '
                     'back' % (c, kind), tr,
                     'after this test the attributes of the test object are %s (stopTest refills the '
                     'dictionary from %s) and run_tests does not restore them either (%s): the next '
                     '--repeat iteration runs a test object without its attributes'
                     % (c, 'the dictionary itself' if c == 'empty' else 'something that is not the '
                        'copy taken at the start', drv.get(kind, (0, 'no loop found'))[1])))
    rep.units.setdefault('test_state', {})[rule] = {
        'stopTest transitions': n, 'words where TestResult alone loses the state': lost_words,
        'run_tests restores': {k: v[0] for k, v in drv.items()}}
    _report(ctx, rep, rule, hits, 'after every test the test object has the attributes it started with '
            '(restored by stopTest or by the loop of run_tests)', n, floor=20)
