"""C16 -- --stop-on-error stops after the first failing test but still cleans up."""
import ast

from . import tsrules
from .common import (Ctx, call_name, calls_in, dotted, eval_bool, is_name, node_calls,
                     nodes_calling, norm, truth_test)

P = 'C16'


def run(model, rep, tier):
    ctx = Ctx(model)
    rep.rule('C16.R1', 'with --stop-on-error every TestResult callback that reports a failure or an '
             'error (derived: reaches output.test_error / test_failure) sets shouldStop, on every '
             'protocol word')
    tsrules.stop_on_bad_outcome(ctx, rep, 'C16.R1')
    tsrules.record_units(rep, tsrules.exploration(ctx))
    r2_r3_no_test_after_stop(ctx, rep)
    r4_no_further_layer(ctx, rep)
    rep.rule('C16.R5', 'the layers that were set up are still torn down after the loop was left; '
             'a layer whose setUp returned is recorded before a further setUp is attempted, so a layer '
             'set-up failure (a bad outcome that stops the run) leaves no layer behind that the final '
             'tear-down does not know')
    from . import c01, c02
    c01.r6_final_teardown(ctx, rep, R='C16.R5')
    c01.recorded_before_next_hook(ctx, rep, 'C16.R5')
    # "the summary is still printed and the verdict is 'failed'": the report hooks read the recorded
    # entries without assuming a type for their second component (shared with C12.R7)
    from . import c12
    c12.entry_info_is_opaque(ctx, rep, 'C16.R5')
    c02.r1_verdict_expression(ctx, rep, R='C16.R6')
    # a layer failure is a bad outcome the layer loop must see: the recorder appends it on every
    # normal exit, also when reporting it raised and a handler in the recorder swallowed that
    from . import c04
    c04.r3_recorder(ctx, rep, R='C16.R7')
    from . import robust
    robust.asserts_have_no_effects(ctx, rep, 'C16.R20', 'C16')
    rep.units['cfg'] = ctx.cfg_stats


def exec_nodes(ctx, fi, g):
    """nodes of function run_tests that execute a test: test(result) / test.debug() /
    result.startTest(test)"""
    loops = [n for n in g.nodes if n.kind == 'for' and isinstance(n.stmt.target, ast.Name) and
             dotted(n.ast) in [a.arg for a in fi.node.args.args]]
    out = []
    for lp in loops:
        tv = lp.stmt.target.id
        for n in g.nodes:
            for c in node_calls(g, n.id):
                if is_name(c.func, tv) or (isinstance(c.func, ast.Attribute) and
                                           is_name(c.func.value, tv) and c.func.attr in ('debug', 'run')):
                    out.append(n.id)
    return sorted(set(out)), loops


def r2_r3_no_test_after_stop(ctx, rep):
    R2, R3 = 'C16.R2', 'C16.R3'
    rep.rule(R2, 'function run_tests: every execution of a test is preceded, in the same loop '
             'iteration, by the shouldStop check of the result object the test reports to')
    rep.rule(R3, 'function run_tests: once the current result object has shouldStop set, no path '
             'reaches another test execution -- not through the test loop, not through the '
             '--repeat loop (a fresh result object does not clear the obligation)')
    fi = ctx.model.func('runner.run_tests')
    g = ctx.cfg(fi)
    X, loops = exec_nodes(ctx, fi, g)
    rep.check(len(X) >= 2 and len(loops) >= 2, R2, 'run_tests: test execution sites found (%d in %d '
              'loops)' % (len(X), len(loops)), 'expected the normal and the post-mortem test loop',
              key='run_tests:exec-sites', func=fi.qualname, where=ctx.where(fi, fi.node))
    rep.floor(R2, len(X), 2, 'test execution sites')
    # names bound to a TestResult(...)
    res_names = set()
    for n in g.nodes:
        if n.kind == 'stmt' and isinstance(n.ast, ast.Assign) and isinstance(n.ast.value, ast.Call) \
                and (dotted(n.ast.value.func) or '').endswith('TestResult'):
            for t in n.ast.targets:
                if isinstance(t, ast.Name):
                    res_names.add(t.id)
    rebind = {n.id for n in g.nodes if n.kind == 'stmt' and isinstance(n.ast, ast.Assign) and
              any(isinstance(t, ast.Name) and t.id in res_names for t in n.ast.targets)}

    def stop_test(node):
        """+1 / -1 if the node tests <result>.shouldStop (positively / negated), else 0"""
        if node.kind != 'test':
            return 0
        v = eval_bool(node.ast, lambda e: True if (isinstance(e, ast.Attribute) and
                                                   e.attr == 'shouldStop' and
                                                   dotted(e.value) in res_names) else None)
        return 0 if v is None else (1 if v else -1)

    # R2: with shouldStop assumed set, the body of each test loop cannot reach the execution
    for lp in loops:
        body = [d for d, k in g.succ[lp.id] if k == 'true']
        xs = [x for x in X if x in g.reach(body, avoid={lp.id}, include_start=True)]

        def edge_ok(s, d, k):
            t = stop_test(g.node(s))
            if t and k in ('true', 'false'):
                return k == ('true' if t > 0 else 'false')
            return True
        r = g.reach(body, avoid={lp.id}, include_start=True, edge_ok=edge_ok)
        hit = [x for x in xs if x in r]
        rep.check(bool(xs) and not hit, R2, 'run_tests: loop at line-independent anchor "%s" checks '
                  'shouldStop before executing a test' % norm(lp.stmt.iter),
                  'a test is executed although result.shouldStop is set' if xs else
                  'no test execution inside this loop', key='exec-without-check:' + norm(lp.stmt.target),
                  func=fi.qualname, where=ctx.where(fi, g.node(hit[0]).ast if hit else lp.stmt),
                  path=g.describe_path(g.path(body, hit[0], avoid={lp.id}, include_start=True,
                                              edge_ok=edge_ok) or []) if hit else None)
    # R3: flow-sensitive search from every execution with "current result stopped"
    for x in X:
        seen = set()
        work = [(d, True, (x,)) for d, k in g.succ[x] if k != 'exc']
        witness = None
        while work and witness is None:
            n, stopped, path = work.pop()
            if (n, stopped) in seen:
                continue
            seen.add((n, stopped))
            if n in X:
                if stopped is not None:
                    witness = path + (n,)
                    break
                continue
            node = g.node(n)
            st2 = stopped
            if n in rebind:
                # a fresh result object: it does not know that the run was stopped
                st2 = False
            for d, k in g.succ[n]:
                if k == 'exc':
                    continue
                t = stop_test(node)
                if t and k in ('true', 'false'):
                    if stopped is True and k != ('true' if t > 0 else 'false'):
                        continue
                    if stopped is False:
                        # the obligation was lost: taking the "not stopped" edge is the defect
                        pass
                work.append((d, st2, path + (n,)))
        rep.check(witness is None, R3, 'run_tests: no test execution reachable after a stop from "%s"'
                  % norm(g.node(x).ast)[:60],
                  'after the result asked to stop, another test execution is reachable (the stop '
                  'is lost at a back edge or by a fresh result object)',
                  key='rerun-after-stop:' + norm(g.node(x).ast)[:60], func=fi.qualname,
                  where=ctx.where(fi, g.node(x).ast),
                  path=g.describe_path(list(witness)) if witness else None)


def r4_no_further_layer(ctx, rep):
    R = 'C16.R4'
    rep.rule(R, 'Runner.run_tests (sequential run): when --stop-on-error is given and failures or '
             'errors were recorded, a normally returning run_layer is followed by no further '
             'run_layer and no resume_tests')
    fi = ctx.model.func('runner.Runner.run_tests')

    rl = []
    for bad_acc in ('failures', 'errors'):
        def atom(e, bad_acc=bad_acc):
            s = norm(e)
            if 'stop_on_error' in s:
                return True
            if 'processes' in s and isinstance(e, ast.Compare):
                return False
            last = (dotted(e) or '').split('.')[-1]
            if last in ('failures', 'errors'):
                return last == bad_acc
            return None
        g = ctx.cfg(fi, branch_oracle=lambda t, atom=atom: eval_bool(t, atom))
        rl = nodes_calling(g, lambda c: call_name(c) == 'run_layer')
        rt = nodes_calling(g, lambda c: call_name(c) == 'resume_tests')
        ok = bool(rl)
        hit = None
        if ok:
            for st in g.flag_states_at(rl[0]) or [{}]:
                r = g.reach_flags(rl, edge_ok=lambda s, d, k: k != 'exc', init=st)
                for x in rl + rt:
                    if x in r:
                        hit = x
        rep.check(ok and hit is None, R, 'Runner.run_tests: the layer loop is left after a layer '
                  'with recorded %s' % bad_acc,
                  'with --stop-on-error and recorded %s another layer is still run' % bad_acc,
                  key='run_tests:layer-after-stop:' + bad_acc, func=fi.qualname,
                  where=ctx.where(fi, fi.node),
                  path=g.describe_path(g.path(rl, hit, edge_ok=lambda s, d, k: k != 'exc') or [])
                  if hit is not None else None)
    rep.floor(R, len(rl), 1, 'run_layer sites')
