"""C08 -- filter patterns select by any positive match and no negated match."""
import ast

from sa.variance import path_literals, polarity, split_literals
from .common import Ctx, call_name, dotted, is_name, kw, norm, own_calls, params

P = 'C08'
FN = 'filter.build_filtering_func'


def run(model, rep, tier):
    ctx = Ctx(model)
    lists = r1_polarity(ctx, rep)
    if lists:
        r2_classification(ctx, rep, *lists)
        r3_only_negated_default(ctx, rep, *lists)
    r4_single_point_of_use(ctx, rep)
    r5_use_polarity(ctx, rep)
    # the positional MODULE [TEST] filters reach the pattern lists and restrict them (shared with C03.R10)
    from . import c03 as _c03
    _c03.r10_positional_filters(ctx, rep, R='C08.R4')
    from . import lifetime
    rep.rule('C08.R6', "each run sees only its own inputs (rules/lifetime.py): no function of the package is memoised across runs (functools.lru_cache / cache), module-level containers that functions add to are emptied at the start of a run, no mutable class attribute is shared through instances (mutated in place or handed out without being re-bound per instance), and no option with a mutable argparse default is mutated in place after parsing -- a second run in the same process (other layer objects under the same names, other outcomes, other filters) must not inherit the first run's state")
    lifetime.check(ctx, rep, 'C08.R6')
    from . import robust
    robust.asserts_have_no_effects(ctx, rep, 'C08.R20', 'C08')
    rep.units['cfg'] = ctx.cfg_stats


def _any_over(e):
    """(list name, applied to) for ``any(f(x) for f in L)`` / ``any([f(x) for f in L])``"""
    if isinstance(e, ast.Call) and dotted(e.func) == 'any' and len(e.args) == 1 and \
            isinstance(e.args[0], (ast.GeneratorExp, ast.ListComp)):
        c = e.args[0]
        if len(c.generators) == 1 and not c.generators[0].ifs and \
                isinstance(c.generators[0].iter, ast.Name) and \
                isinstance(c.generators[0].target, ast.Name) and isinstance(c.elt, ast.Call) and \
                is_name(c.elt.func, c.generators[0].target.id) and len(c.elt.args) == 1:
            return c.generators[0].iter.id, dotted(c.elt.args[0])
    return None


def r1_polarity(ctx, rep, R='C08.R1'):
    rep.rule(R, 'the predicate returned by build_filtering_func is exactly '
             'any(match in positives) and not any(match in negatives), applied to its argument: '
             'monotone increasing and order-insensitive in the positive list, monotone decreasing '
             'and order-insensitive in the negated list')
    m = ctx.model
    fi = m.func(FN)
    rets = [n for n in ast.walk(fi.node) if isinstance(n, ast.Return) and n.value is not None and
            _owner(n) is fi.node]
    inner = None
    if len(rets) == 1 and isinstance(rets[0].value, ast.Name):
        q = 'build_filtering_func.' + rets[0].value.id
        inner = fi.module.functions.get(q)
    rep.check(inner is not None, R, 'build_filtering_func returns a nested predicate',
              'the function does not return a locally defined predicate', key='shape',
              func=fi.qualname, where=ctx.where(fi, fi.node))
    if inner is None:
        return None
    arg = params(inner)[0] if params(inner) else None
    expr = _truth_expr(inner.node.body)
    if expr is None or arg is None:
        rep.undecide(R, 'accept', 'the predicate is not a chain of if/return statements')
        return None
    # semantic comparison: the predicate as a boolean function of the atoms "some pattern of list X
    # matches the argument" must be   A(P) and not A(N)   on all four valuations
    from .common import eval_bool
    atoms = {}
    for x in ast.walk(expr):
        a = _any_over(x)
        if a is not None and a[1] == arg:
            atoms.setdefault(a[0], []).append(norm(x))
    good = len(atoms) == 2
    P_ = N_ = None
    if good:
        l1, l2 = sorted(atoms)
        for cand_p, cand_n in ((l1, l2), (l2, l1)):
            ok_all = True
            for vp in (False, True):
                for vn in (False, True):
                    def atom(e, vp=vp, vn=vn, cand_p=cand_p, cand_n=cand_n):
                        a = _any_over(e)
                        if a is None or a[1] != arg:
                            return None
                        return vp if a[0] == cand_p else (vn if a[0] == cand_n else None)
                    if eval_bool(expr, atom) is not (vp and not vn):
                        ok_all = False
            if ok_all:
                P_, N_ = cand_p, cand_n
        good = P_ is not None
    rep.check(good, R, 'accept(value) = any(s(value) for s in P) and not any(s(value) for s in N)',
              'the predicate is %s' % norm(expr), key='accept:shape', func=inner.qualname,
              where=ctx.where(inner, expr))
    if not good:
        return None
    # equal to  A(P) and not A(N)  on every valuation, hence increasing in P and decreasing in N
    rep.ok(R, 'polarity: + in %s, - in %s (from the truth table)' % (P_, N_))
    return P_, N_


def _truth_expr(stmts):
    """the boolean expression a body of ``if c: return a`` / ``return b`` statements computes"""
    if not stmts:
        return None
    st = stmts[0]
    if isinstance(st, ast.Expr) and isinstance(st.value, ast.Constant):
        return _truth_expr(stmts[1:])
    if isinstance(st, ast.Return):
        return st.value if st.value is not None else ast.Constant(value=False)
    if isinstance(st, ast.If):
        a = _truth_expr(list(st.body) + list(stmts[1:]))
        b = _truth_expr(list(st.orelse) + list(stmts[1:]))
        if a is None or b is None:
            return None
        e = ast.BoolOp(op=ast.Or(), values=[
            ast.BoolOp(op=ast.And(), values=[st.test, a]),
            ast.BoolOp(op=ast.And(), values=[ast.UnaryOp(op=ast.Not(), operand=st.test), b])])
        return ast.fix_missing_locations(ast.copy_location(e, st))
    if isinstance(st, ast.For) and isinstance(st.target, ast.Name) and isinstance(st.iter, ast.Name) and \
            len(st.body) == 1 and isinstance(st.body[0], ast.If) and not st.body[0].orelse and \
            len(st.body[0].body) == 1:
        # a search loop is ``any``:   for f in L: if f(x): return A   /  ... break ... else: <E>
        inner, act = st.body[0], st.body[0].body[0]
        found = ast.Call(func=ast.Name(id='any', ctx=ast.Load()), args=[ast.GeneratorExp(
            elt=inner.test, generators=[ast.comprehension(target=st.target, iter=st.iter, ifs=[],
                                                          is_async=0)])], keywords=[])
        if isinstance(act, ast.Return):
            a = act.value if act.value is not None else ast.Constant(value=False)
            b = _truth_expr(list(st.orelse) + list(stmts[1:]))
        elif isinstance(act, ast.Break):
            a = _truth_expr(list(stmts[1:]))
            b = _truth_expr(list(st.orelse) + list(stmts[1:]))
        else:
            return None
        if a is None or b is None:
            return None
        e = ast.BoolOp(op=ast.Or(), values=[
            ast.BoolOp(op=ast.And(), values=[found, a]),
            ast.BoolOp(op=ast.And(), values=[ast.UnaryOp(op=ast.Not(), operand=found), b])])
        return ast.fix_missing_locations(ast.copy_location(e, st))
    return None


def _owner(node):
    cur = node
    while getattr(cur, '_parent', None) is not None:
        cur = cur._parent
        if isinstance(cur, (ast.FunctionDef, ast.Lambda)):
            return cur
    return None


def _sym_paths(stmts, env, out):
    """tiny symbolic execution of straight-line code with if/else: collects the abstract
    (target list, pattern form, method) of every pattern store on every path"""
    if not stmts:
        out.append(env)
        return
    st, rest = stmts[0], stmts[1:]
    if isinstance(st, ast.If):
        for branch, taken in ((st.body, True), (st.orelse, False)):
            e2 = dict(env)
            e2['conds'] = env['conds'] + [(st.test, taken)]
            _sym_paths(list(branch) + rest, e2, out)
        return
    e2 = dict(env)
    if isinstance(st, ast.Assign) and len(st.targets) == 1 and isinstance(st.targets[0], ast.Name):
        e2[st.targets[0].id] = _sym_eval(st.value, env)
    elif isinstance(st, ast.Expr) and isinstance(st.value, ast.Call):
        f = _sym_eval(st.value.func, env)
        if isinstance(f, tuple) and f[0] == 'append' and st.value.args:
            e2['stores'] = env['stores'] + [(f[1], _sym_eval(st.value.args[0], env))]
    _sym_paths(rest, e2, out)


def _sym_eval(e, env):
    if isinstance(e, ast.Name):
        return env.get(e.id, ('name', e.id))
    if isinstance(e, ast.Attribute):
        v = _sym_eval(e.value, env)
        if e.attr == 'append' and isinstance(e.value, ast.Name):
            return ('append', e.value.id)
        if e.attr in ('search', 'match', 'fullmatch') and isinstance(v, tuple) and v[0] == 'compiled':
            return ('matcher', e.attr, v[1], v[2])
        return ('attr', norm(e))
    if isinstance(e, ast.Subscript):
        v = _sym_eval(e.value, env)
        if isinstance(e.slice, ast.Slice) and e.slice.upper is None and e.slice.step is None and \
                isinstance(e.slice.lower, ast.Constant) and e.slice.lower.value == 1:
            return ('strip1', v)
        return ('sub', norm(e))
    if isinstance(e, ast.Call):
        d = dotted(e.func)
        if d in ('re.compile',) and e.args:
            flags = norm(e.args[1]) if len(e.args) > 1 else (norm(kw(e, 'flags')) if kw(e, 'flags') is not None else '')
            return ('compiled', _sym_eval(e.args[0], env), flags)
        if isinstance(e.func, ast.Attribute) and e.func.attr == 'removeprefix' and e.args and \
                isinstance(e.args[0], ast.Constant) and e.args[0].value == '!':
            return ('strip1', _sym_eval(e.func.value, env))
        return ('call', norm(e))
    if isinstance(e, ast.Constant):
        return ('const', e.value)
    return ('expr', norm(e))


def r2_classification(ctx, rep, P_, N_, R='C08.R2'):
    rep.rule(R, 'classification and search mode: a pattern starting with "!" is stored in the '
             'negated list with exactly that one character removed, any other pattern unchanged '
             'in the positive list; what is stored is re.compile(<that>).search (no flags)')
    fi = ctx.model.func(FN)
    loops = [n for n in fi.node.body if isinstance(n, ast.For) and
             dotted(n.iter) in params(fi) and isinstance(n.target, ast.Name)]
    if len(loops) != 1:
        # distribution through itertools.groupby: one group per RUN of consecutive equal keys, so
        # the key "negated?" comes up again whenever the kinds are interleaved; a store that
        # assigns (instead of adding to) the container of that key keeps only the last run
        gb = [n for n in ast.walk(fi.node) if isinstance(n, ast.For) and isinstance(n.iter, ast.Call) and
              (dotted(n.iter.func) or '').split('.')[-1] == 'groupby' and n.iter.args and
              dotted(n.iter.args[0]) in params(fi) and
              not (isinstance(n.iter.args[0], ast.Call))]
        for lp_ in gb:
            over = [st for st in ast.walk(lp_) if isinstance(st, ast.Assign) and any(
                isinstance(t, ast.Subscript) or (isinstance(t, ast.Name) and t.id in (P_, N_))
                for t in st.targets)]
            if over:
                rep.bad(R, 'pattern loop: %s' % norm(over[0]), 'the patterns are distributed with '
                        'itertools.groupby over the UNSORTED pattern list and each group is assigned to '
                        'its container: groupby starts a new group at every change of kind, so with '
                        'interleaved positive and negated patterns a later group replaces the earlier '
                        'patterns of the same kind (the result depends on pattern order)',
                        key='classify:groupby-overwrite', func=fi.qualname, where=ctx.where(fi, over[0]))
                return
        rep.undecide(R, 'pattern loop', 'expected one loop over the patterns parameter')
        return
    lp = loops[0]
    pv = lp.target.id
    # the negation marker is ONE leading character: '!!x' is the negation of the regex '!x'.  A
    # character-set strip of the pattern (lstrip / strip / replace of '!') removes every marker-looking
    # character, so the regex compiled for '!!x' is 'x'
    for c in ast.walk(lp):
        if isinstance(c, ast.Call) and isinstance(c.func, ast.Attribute) and \
                c.func.attr in ('lstrip', 'strip', 'replace', 'translate') and is_name(c.func.value, pv) and \
                c.args and isinstance(c.args[0], ast.Constant) and isinstance(c.args[0].value, str) and \
                '!' in c.args[0].value:
            rep.bad(R, 'pattern loop: %s' % norm(c), 'the pattern text is derived with %s, which removes EVERY '
                    'leading "!" (a character set, not a prefix): for a pattern with two or more of them the regex '
                    'that is compiled is not the pattern without its one negation marker' % norm(c),
                    key='classify:strip-all-markers', func=fi.qualname, where=ctx.where(fi, c))
            return
    paths = []
    _sym_paths(list(lp.body), {'conds': [], 'stores': [], pv: ('pattern',)}, paths)
    n = 0
    for env in paths:
        neg = None
        for t, taken in env['conds']:
            tt, pos = t, taken
            while isinstance(tt, ast.UnaryOp) and isinstance(tt.op, ast.Not):
                tt, pos = tt.operand, not pos
            if isinstance(tt, ast.Call) and isinstance(tt.func, ast.Attribute) and \
                    tt.func.attr == 'startswith' and is_name(tt.func.value, pv) and tt.args and \
                    isinstance(tt.args[0], ast.Constant) and tt.args[0].value == '!':
                neg = pos
            elif isinstance(tt, ast.Compare) and norm(tt) in ("%s[0] == '!'" % pv, "%s[:1] == '!'" % pv):
                neg = pos
        if neg is None:
            rep.undecide(R, 'pattern loop', 'a path through the loop does not test startswith("!")')
            return
        n += 1
        want_list = N_ if neg else P_
        want_pat = ('strip1', ('pattern',)) if neg else ('pattern',)
        ok = len(env['stores']) == 1 and env['stores'][0][0] == want_list and \
            env['stores'][0][1] == ('matcher', 'search', want_pat, '')
        rep.check(ok, R, '%s pattern -> %s.append(re.compile(%s).search)' % (
            '"!"-prefixed' if neg else 'plain', want_list, 'pattern[1:]' if neg else 'pattern'),
            'a %s pattern is stored as %s' % ('"!"-prefixed' if neg else 'plain', env['stores']),
            key='classify:' + ('neg' if neg else 'pos'), func=fi.qualname, where=ctx.where(fi, lp))
    rep.floor(R, n, 2, 'paths through the pattern loop')
    extra = [x for x in ast.walk(lp) if isinstance(x, (ast.Break, ast.Continue, ast.Return))]
    rep.check(not extra, R, 'every pattern is classified', 'the loop can skip patterns',
              key='classify:complete', func=fi.qualname, where=ctx.where(fi, lp))


def r3_only_negated_default(ctx, rep, P_, N_, R='C08.R3'):
    rep.rule(R, 'only-negated default: when no positive but some negated pattern was given, a '
             'match-everything positive is added before the predicate is built')
    fi = ctx.model.func(FN)
    ok = False
    for st in fi.node.body:
        if isinstance(st, ast.If):
            lits = sorted((norm(e), pos) for e, pos in split_literals(st.test, True))
            if lits == sorted([(P_, False), (N_, True)]) or lits == [(P_, False)]:
                for c in ast.walk(st):
                    if isinstance(c, ast.Call) and isinstance(c.func, ast.Attribute) and \
                            c.func.attr == 'append' and is_name(c.func.value, P_) and c.args:
                        v = _sym_eval(c.args[0], {})
                        if v[0] == 'matcher' and v[1] == 'search' and v[2] in (
                                ('const', '.'), ('const', ''), ('const', '.*')):
                            ok = True
    rep.check(ok, R, 'if not %s and %s: %s.append(re.compile(".").search)' % (P_, N_, P_),
              'no match-everything default for the only-negated case', key='default',
              func=fi.qualname, where=ctx.where(fi, fi.node))


FILTER_OPTS = ('test', 'module', 'layer')


def r4_single_point_of_use(ctx, rep, R='C08.R4'):
    rep.rule(R, 'single point of use: outside options.py the pattern lists options.test / '
             'options.module / options.layer are only handed to build_filtering_func or tested for '
             'truth; find_tests routes the --test predicate to tests_from_suite and the --module '
             'predicate to find_suites; options.py defaults test and module to ["."]')
    m = ctx.model
    n = 0
    for fi in m.all_functions():
        if fi.module.name == 'options':
            continue
        for node in ast.walk(fi.node):
            if isinstance(node, ast.Attribute) and node.attr in FILTER_OPTS and \
                    (dotted(node.value) or '').split('.')[-1] == 'options' and \
                    isinstance(node.ctx, ast.Load):
                n += 1
                par = node._parent
                ok = False
                if isinstance(par, ast.Call) and call_name(par) == 'build_filtering_func' and \
                        par.args and par.args[0] is node:
                    ok = True
                elif isinstance(par, (ast.If, ast.While, ast.IfExp)) and par.test is node:
                    ok = True
                elif isinstance(par, ast.BoolOp) or (isinstance(par, ast.UnaryOp) and
                                                     isinstance(par.op, ast.Not)):
                    ok = True
                rep.check(ok, R, '%s: %s' % (fi.qualname, norm(par)[:60]),
                          'the pattern list %s is used directly (%s) instead of through '
                          'build_filtering_func' % (dotted(node), norm(par)[:80]),
                          key='use:%s:%s' % (fi.qualname, norm(par)[:60]), func=fi.qualname,
                          where=ctx.where(fi, node))
            if isinstance(node, ast.Attribute) and node.attr in FILTER_OPTS and \
                    (dotted(node.value) or '').split('.')[-1] == 'options' and \
                    isinstance(node.ctx, (ast.Store, ast.Del)):
                rep.bad(R, '%s stores options.%s' % (fi.qualname, node.attr),
                        'a pattern list is rewritten outside options.py', key='store:' + fi.qualname,
                        func=fi.qualname, where=ctx.where(fi, node))
    rep.floor(R, n, 5, 'uses of the pattern lists')
    ft = m.func('find.find_tests')
    env = {}
    for node in ast.walk(ft.node):
        if isinstance(node, ast.Assign) and isinstance(node.value, ast.Call) and \
                call_name(node.value) == 'build_filtering_func' and node.value.args:
            env[node.targets[0].id] = (dotted(node.value.args[0]) or '').split('.')[-1]
    routes = {}
    for c in own_calls(ft.node):
        if call_name(c) in ('find_suites', 'tests_from_suite') and kw(c, 'accept') is not None:
            routes[call_name(c)] = env.get(dotted(kw(c, 'accept')))
    rep.check(routes == {'find_suites': 'module', 'tests_from_suite': 'test'}, R,
              'find_tests: --module predicate -> find_suites, --test predicate -> tests_from_suite',
              'the predicates are routed %s' % routes, key='routes', func=ft.qualname,
              where=ctx.where(ft, ft.node))
    go = m.func('options.get_options')
    defs = {}
    from .c03 import default_dot_stores
    for T_ in ('options.test', 'options.module'):
        if default_dot_stores(ctx, go, T_):
            defs[T_] = "['.']"
    rep.check(defs == {'options.test': "['.']", 'options.module': "['.']"}, R,
              'get_options: options.test / options.module default to ["."]',
              'defaults are %s' % defs, key='defaults', func=go.qualname, where=ctx.where(go, go.node))


def r5_use_polarity(ctx, rep, R='C08.R5'):
    rep.rule(R, 'the predicate is used with the right polarity: a module is skipped / a layer is '
             'removed exactly when accept(name) is false, a test is yielded only when accept(id) '
             'is true')
    m = ctx.model
    n = 0
    sites = set()
    # find_suites: continue under not accept(module_name)
    fs = m.func('find.find_suites')
    for node in ast.walk(fs.node):
        if isinstance(node, ast.Continue):
            from .common import guard_literals
            lits = guard_literals(ctx, fs, node)
            acc = [(e, pos) for e, pos in lits if isinstance(e, ast.Call) and is_name(e.func, 'accept')]
            if acc:
                n += 1
                sites.add('find_suites')
                rep.check(len(acc) == 1 and acc[0][1] is False and
                          dotted(acc[0][0].args[0]) == 'module_name', R,
                          'find_suites skips a module iff not accept(module_name)',
                          'modules are skipped under %s' % [(norm(e), p) for e, p in acc],
                          key='find_suites:skip', func=fs.qualname, where=ctx.where(fs, node))
    imp = [c for c in own_calls(fs.node) if call_name(c) == 'import_name']
    # tests_from_suite: yield (suite, layer) under accept(str(suite))
    tf = m.func('find.tests_from_suite')
    for node in ast.walk(tf.node):
        if isinstance(node, ast.Yield) and isinstance(node.value, ast.Tuple) and \
                not (isinstance(node.value.elts[1], ast.Constant)):
            from .common import guard_literals
            lits = guard_literals(ctx, tf, node)
            acc = [(e, pos) for e, pos in lits if 'accept' in norm(e)]
            n += 1
            sites.add('tests_from_suite')
            ok = len(acc) == 1 and acc[0][1] is True
            if ok:
                e = acc[0][0]
                alts = e.values if isinstance(e, ast.BoolOp) and isinstance(e.op, ast.Or) else [e]
                calls = [a for a in alts if isinstance(a, ast.Call) and is_name(a.func, 'accept')]
                ok = len(calls) == 1 and norm(calls[0].args[0]) == 'str(suite)' and \
                    all(a is calls[0] or norm(a) == 'accept is None' for a in alts)
            rep.check(ok, R, 'tests_from_suite yields a test only if accept(str(suite))',
                      'a test is yielded under %s' % [(norm(e), p) for e, p in acc],
                      key='tests_from_suite:yield:%d' % n, func=tf.qualname, where=ctx.where(tf, node))
    # Filter.global_setup: layers.pop(name) under not accept(name)
    ff = m.func('filter.Filter.global_setup')
    removals = [(c, c.args[0]) for c in own_calls(ff.node)
                if isinstance(c.func, ast.Attribute) and c.func.attr == 'pop' and c.args]
    removals += [(d, t.slice) for d in ast.walk(ff.node) if isinstance(d, ast.Delete)
                 for t in d.targets if isinstance(t, ast.Subscript)]
    for c, key_ in removals:
        if True:
            from .common import guard_literals
            lits = guard_literals(ctx, ff, c)
            from .common import local_assignments
            preds = {nm for nm, vals in local_assignments(ff.node).items()
                     if any(isinstance(v, ast.Call) and call_name(v) == 'build_filtering_func'
                            for v in vals if isinstance(v, ast.AST))}
            acc = [(e, pos) for e, pos in lits if isinstance(e, ast.Call) and
                   isinstance(e.func, ast.Name) and e.func.id in preds]
            if acc:
                n += 1
                sites.add('filter')
                rep.check(len(acc) == 1 and acc[0][1] is False and
                          norm(acc[0][0].args[0]) == norm(key_), R,
                          'Filter removes a layer iff not accept(name)',
                          'a layer is removed under %s' % [(norm(e), p) for e, p in acc],
                          key='filter:pop', func=ff.qualname, where=ctx.where(ff, c))
    rep.floor(R, len(sites), 3, 'functions that use the predicate (find_suites, tests_from_suite, Filter)')
    from . import c14
    c14.tested_name_is_imported_name(ctx, rep, R)
