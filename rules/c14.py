"""C14 -- discovery loads exactly the matching test modules, once, in sorted order (structure)."""
import ast

from sa import effects
from sa.variance import path_literals
from .common import (Ctx, call_name, calls_in, dotted, eval_bool, is_name, kw, node_calls,
                     node_of, nodes_calling, norm, own_calls, params)

P = 'C14'


def run(model, rep, tier):
    ctx = Ctx(model)
    r1_order(ctx, rep)
    r2_once(ctx, rep)
    r3_filter_before_import(ctx, rep)
    r4_pruning(ctx, rep)
    r5_package_restricts(ctx, rep)
    r6_longest_prefix_first(ctx, rep)
    r7_prefix_is_directory_boundary(ctx, rep)
    r8_which_files_are_test_files(ctx, rep)
    # the positional MODULE [TEST] filters reach the pattern lists and restrict them (shared with C03.R10)
    from . import c03 as _c03
    _c03.r10_positional_filters(ctx, rep, R='C14.R3')
    from . import robust
    robust.asserts_have_no_effects(ctx, rep, 'C14.R20', 'C14')
    rep.units['cfg'] = ctx.cfg_stats


def _walk_loop(ctx, fi, g):
    """the loop ``for dirpath, dirs, files in <walk>`` of a function: (node, dirs name, files name)"""
    for n in g.nodes:
        if n.kind == 'for' and isinstance(n.stmt.target, ast.Tuple) and len(n.stmt.target.elts) == 3 \
                and isinstance(n.ast, ast.Call) and (dotted(n.ast.func) or '').split('.')[-1] in (
                    'walk', 'walk_with_symlinks'):
            names = [e.id if isinstance(e, ast.Name) else None for e in n.stmt.target.elts]
            return n, names
    return None, None


def _order_preserving_store(st, dirs):
    """``dirs[:] = [d for d in dirs if ...]`` / ``dirs[:] = sorted(...)``"""
    if isinstance(st, ast.Assign) and len(st.targets) == 1 and \
            isinstance(st.targets[0], ast.Subscript) and is_name(st.targets[0].value, dirs) and \
            isinstance(st.targets[0].slice, ast.Slice):
        v = st.value
        if isinstance(v, ast.ListComp) and len(v.generators) == 1 and \
                is_name(v.generators[0].iter, dirs) and isinstance(v.generators[0].target, ast.Name) \
                and is_name(v.elt, v.generators[0].target.id):
            return 'filter'
        if isinstance(v, ast.Call) and dotted(v.func) == 'sorted':
            if _store_comp(st) is not None:
                return 'sort+filter'          # dirs[:] = sorted(d for d in dirs if ...)
            return 'sort'
        return 'other'
    return None


def _store_comp(st):
    """the comprehension / generator that filters the directory list in such a store"""
    v = st.value
    if isinstance(v, ast.Call) and dotted(v.func) == 'sorted' and len(v.args) == 1 and not v.keywords:
        v = v.args[0]
    if isinstance(v, (ast.ListComp, ast.GeneratorExp)) and len(v.generators) == 1 and \
            isinstance(v.generators[0].target, ast.Name) and is_name(v.elt, v.generators[0].target.id) and \
            isinstance(v.generators[0].iter, ast.Name) and \
            is_name(st.targets[0].value, v.generators[0].iter.id):
        return v
    return None


def r1_order(ctx, rep, R='C14.R1'):
    rep.rule(R, 'order independent of the file system: walk_with_symlinks sorts the directory list '
             'of os.walk in place before it yields (which fixes the traversal order) and only '
             'filters it afterwards; find_test_files_ yields, per directory, from a sorted(...) value')
    m = ctx.model
    fw = m.func('find.walk_with_symlinks')
    g = ctx.cfg(fw)
    lp, names = _walk_loop(ctx, fw, g)
    if lp is None:
        rep.undecide(R, 'walk_with_symlinks', 'no loop over os.walk(...)')
        return
    src_ok = m.resolve_dotted(fw.module, dotted(lp.ast.func)) == 'os.walk'
    dirs = names[1]
    sorts = [n.id for n in g.nodes if n.kind == 'stmt' and (
        any(isinstance(c.func, ast.Attribute) and c.func.attr == 'sort' and is_name(c.func.value, dirs)
            and not c.args for c in calls_in(n.ast)) or _order_preserving_store(n.ast, dirs) in ('sort', 'sort+filter'))]
    ys = [n.id for n in g.nodes if n.kind == 'stmt' and any(
        isinstance(x, ast.Yield) for x in ast.walk(n.ast)) and n.id in g.loop_nodes(lp.id)]
    body = [d for d, k in g.succ[lp.id] if k == 'true']
    ok = bool(sorts) and bool(ys) and src_ok
    if ok:
        r = g.reach(body, avoid=set(sorts), include_start=True)
        ok = not any(y in r for y in ys)
    rep.check(ok, R, 'walk_with_symlinks: %s.sort() before every yield of a walk step' % dirs,
              'a walk step is yielded before the directory list was sorted: the traversal follows '
              'the file system\'s enumeration order', key='walk:sort', func=fw.qualname,
              where=ctx.where(fw, lp.stmt))
    # after the sort only order-preserving filters touch dirs
    bad = []
    for n in g.nodes:
        if n.kind == 'stmt' and n.id in g.loop_nodes(lp.id):
            k = _order_preserving_store(n.ast, dirs)
            if k == 'other':
                bad.append(norm(n.ast))
            for c in calls_in(n.ast):
                if isinstance(c.func, ast.Attribute) and is_name(c.func.value, dirs) and \
                        c.func.attr in ('reverse', 'insert', 'append', 'extend') or \
                        (dotted(c.func) in ('random.shuffle',) and c.args and is_name(c.args[0], dirs)):
                    bad.append(norm(c))
    rep.check(not bad, R, 'after sorting, the directory list is only filtered',
              'the directory list is reordered after sorting: %s' % bad, key='walk:reorder',
              func=fw.qualname, where=ctx.where(fw, lp.stmt))
    ff = walker_fn(ctx)
    ysf = [n for n in ast.walk(ff.node) if isinstance(n, ast.Yield)]
    oky = bool(ysf)
    for y in ysf:
        loop = None
        node = y
        while getattr(node, '_parent', None) is not None and node._parent is not ff.node:
            node = node._parent
            if isinstance(node, ast.For):
                loop = node
                break
        good = False
        if loop is not None and isinstance(loop.iter, ast.Name):
            src = [n for n in ast.walk(ff.node) if isinstance(n, ast.Assign) and
                   is_name(n.targets[0], loop.iter.id)]
            good = len(src) == 1 and isinstance(src[0].value, ast.Call) and \
                dotted(src[0].value.func) == 'sorted' and \
                isinstance(y.value, ast.Tuple) and is_name(y.value.elts[0], loop.target.id)
        elif loop is not None and isinstance(loop.iter, ast.Call) and dotted(loop.iter.func) == 'sorted':
            good = True
        oky = oky and good
    rep.check(oky, R, 'find_test_files_: files of a directory are yielded from sorted(...)',
              'test files are yielded in an order that is not the result of sorted(...)',
              key='files:sorted', func=ff.qualname, where=ctx.where(ff, ff.node))
    # the walk used for discovery is the sorting one
    gf = ctx.cfg(ff)
    lpf, _ = _walk_loop(ctx, ff, gf)
    rep.check(lpf is not None and call_name(lpf.ast) == 'walk_with_symlinks', R,
              'find_test_files_ walks with walk_with_symlinks (the sorted walk)',
              'discovery does not use the sorted walk', key='files:walk', func=ff.qualname,
              where=ctx.where(ff, ff.node))



def walker_fn(ctx):
    """the generator that walks the search directories and yields (file, package): found by what it
    does (iterates walk_with_symlinks(...) and yields), not by its name"""
    from sa.srcmodel import AnchorVanished
    m = ctx.model
    mod = m.func('find.find_suites').module
    cands = []
    for q, fi in mod.functions.items():
        if fi.name in ('walk_with_symlinks', 'remove_stale_bytecode') or '.' in q:
            continue
        if any(isinstance(n, ast.For) and isinstance(n.iter, ast.Call) and
               (call_name(n.iter) == 'walk_with_symlinks' or dotted(n.iter.func) == 'os.walk')
               for n in ast.walk(fi.node)) and \
                any(isinstance(n, ast.Yield) for n in ast.walk(fi.node)):
            cands.append(fi)
    if len(cands) != 1:
        raise AnchorVanished('the generator of find.py that walks the search directories with '
                             'walk_with_symlinks and yields test files (found %d)' % len(cands))
    return cands[0]


def file_source_fn(ctx):
    """the function find_suites takes its (file, package) pairs from"""
    fs = ctx.model.func('find.find_suites')
    for n in ast.walk(fs.node):
        if isinstance(n, ast.For) and isinstance(n.iter, ast.Call) and isinstance(n.target, ast.Tuple) \
                and len(n.target.elts) == 2:
            q = 'find.' + (call_name(n.iter) or '')
            try:
                return ctx.model.func(q)
            except Exception:
                continue
    return None


def r2_once(ctx, rep, R='C14.R2'):
    rep.rule(R, 'once: find_test_files yields a path only if it was not seen before (keyed by the '
             'path) and records it as seen')
    fi = file_source_fn(ctx) or ctx.model.func('find.find_test_files')
    wk = walker_fn(ctx)
    ys = [n for n in ast.walk(fi.node) if isinstance(n, ast.Yield)]
    ok = len(ys) == 1 and fi is not wk
    if fi is wk:
        rep.bad(R, 'find_suites takes its files straight from the directory walk (%s)' % wk.qualname,
                'no de-duplication by path between the walk over the search directories and the loading '
                'of the files: with overlapping or nested search paths a test file is yielded (and its '
                'module loaded, its tests run) more than once', key='once:missing', func=wk.qualname,
                where=ctx.where(wk, wk.node))
    if ok:
        from .common import guard_literals
        y = ys[0]
        lits = guard_literals(ctx, fi, y)
        key = norm(y.value.elts[0]) if isinstance(y.value, ast.Tuple) else norm(y.value)
        mem = [(e, pos) for e, pos in lits if isinstance(e, ast.Compare) and
               isinstance(e.ops[0], ast.In) and norm(e.left) == key]
        ok = len(mem) == 1 and mem[0][1] is False and len(lits) == 1
        # the key is the path alone: the loop over the inner generator unpacks (path, package)
        # and the first of the two names is what is tested and recorded
        loops = [n for n in ast.walk(fi.node) if isinstance(n, ast.For) and isinstance(n.iter, ast.Call)
                 and call_name(n.iter) == wk.name]
        keyed_by_path = len(loops) == 1 and isinstance(loops[0].target, ast.Tuple) and \
            len(loops[0].target.elts) == 2 and norm(loops[0].target.elts[0]) == key
        if ok and not keyed_by_path:
            ok = False
            rep.bad(R, 'find_test_files: de-duplication key', 'files are de-duplicated by %s, which is '
                    'not the path alone (the inner generator yields (path, package) pairs): the same '
                    'file reached under two package labels is loaded twice' % key,
                    key='once:key', func=fi.qualname, where=ctx.where(fi, fi.node))
        if ok:
            seen = dotted(mem[0][0].comparators[0])
            marks = [n for n in ast.walk(fi.node) if
                     (isinstance(n, ast.Assign) and any(
                         isinstance(t, ast.Subscript) and dotted(t.value) == seen and
                         norm(t.slice) == key for t in n.targets)) or
                     (isinstance(n, ast.Call) and isinstance(n.func, ast.Attribute) and
                      n.func.attr == 'add' and dotted(n.func.value) == seen and
                      norm(n.args[0]) == key)]
            ok = bool(marks)
    rep.check(ok, R, 'find_test_files: yield f only if f not in found; found[f] = ...',
              'a test file can be yielded more than once (overlapping or repeated search paths)',
              key='once', func=fi.qualname, where=ctx.where(fi, fi.node))
    fs = ctx.model.func('find.find_suites')
    src = [n for n in ast.walk(fs.node) if isinstance(n, ast.For) and isinstance(n.iter, ast.Call)
           and call_name(n.iter) in ('find_test_files', wk.name)]
    rep.check(len(src) == 1 and call_name(src[0].iter) == fi.name and fi is not wk, R,
              'find_suites consumes the de-duplicated find_test_files',
              'find_suites iterates %s' % [norm(n.iter) for n in src], key='once:consumer',
              func=fs.qualname, where=ctx.where(fs, fs.node))
    # at most one suite per file: break after the first matching prefix
    inner = [n for n in ast.walk(fs.node) if isinstance(n, ast.For) and
             (dotted(n.iter) or '').endswith('options.prefix')]
    okb = False
    if len(inner) == 1:
        for st in ast.walk(inner[0]):
            if isinstance(st, ast.Yield):
                par = st._parent
                sibs = par._parent.body if hasattr(par._parent, 'body') else []
                i = sibs.index(par) if par in sibs else -1
                okb = i >= 0 and i + 1 < len(sibs) and isinstance(sibs[i + 1], ast.Break)
    rep.check(okb, R, 'find_suites: one suite per file (break after the first matching prefix)',
              'a file under two nested prefixes would be loaded twice', key='once:prefix',
              func=fs.qualname, where=ctx.where(fs, fs.node))


ALLOWED_IMPORTERS = {
    'find.import_name': 'the wrapper itself',
    'find.find_suites': 'test modules, after the --module filter',
    'find.test_dirs': '--package: the named packages',
    'runner.layer_from_name': 'the module of a layer named on the command line / in a child',
}


def r3_filter_before_import(ctx, rep, R='C14.R3'):
    rep.rule(R, 'filter before import: in find_suites a module rejected by the --module predicate is '
             'never passed to import_name; the only functions of the package that import by name '
             'are the tabulated ones')
    fi = ctx.model.func('find.find_suites')

    def atom(e):
        if isinstance(e, ast.Call) and is_name(e.func, 'accept'):
            return False          # the module is rejected
        if norm(e) == 'accept is not None':
            return True
        if norm(e) == 'accept is None':
            return False
        return None
    g = ctx.cfg(fi, branch_oracle=lambda t: eval_bool(t, atom))
    imps = nodes_calling(g, lambda c: call_name(c) == 'import_name' or dotted(c.func) == '__import__')
    live = g.live_nodes()
    hit = [i for i in imps if i in live]
    g0 = ctx.cfg(fi)
    n_imp = len(nodes_calling(g0, lambda c: call_name(c) == 'import_name'))
    rep.check(n_imp >= 1 and not hit, R, 'find_suites: import_name unreachable for a rejected module',
              'a module that the --module filter rejects is still imported', key='filter-before-import',
              func=fi.qualname, where=ctx.where(fi, g.node(hit[0]).ast) if hit else ctx.where(fi, fi.node),
              path=g.describe_path(g.path([g.entry], hit[0], include_start=True) or []) if hit else None)
    tested_name_is_imported_name(ctx, rep, R)
    n = 0
    for f2, call, what in effects.import_sites(ctx.model):
        n += 1
        rep.check(f2.qualname in ALLOWED_IMPORTERS, R, '%s imports by name (%s)' % (f2.qualname, what),
                  '%s imports modules by name but is not in the who-may-import table' % f2.qualname,
                  key='importer:' + f2.qualname, func=f2.qualname, where=ctx.where(f2, call),
                  detail=ALLOWED_IMPORTERS.get(f2.qualname, ''))
    rep.floor(R, n, 4, 'import-by-name sites')


def walk_prunes_in_place(ctx, rep, R):
    """walk_with_symlinks removes options.ignore_dir from the list os.walk handed out IN PLACE, before the
    step is yielded, on every path -- os.walk descends into what is left in that very list, and the
    callers prune the same object (shared with C15.R5: an ignored directory that is still walked has its
    bytecode taken for orphaned)"""
    m = ctx.model
    fw = m.func('find.walk_with_symlinks')
    gw = ctx.cfg(fw)
    lpw, namesw = _walk_loop(ctx, fw, gw)
    okw = False
    if lpw is not None:
        dirs = namesw[1]
        for n in gw.nodes:
            if n.kind == 'stmt' and _order_preserving_store(n.ast, dirs) in ('filter', 'sort+filter'):
                comp = _store_comp(n.ast)
                tv = comp.generators[0].target.id
                conds = comp.generators[0].ifs
                good = len(conds) == 1 and isinstance(conds[0], ast.Compare) and \
                    isinstance(conds[0].ops[0], ast.NotIn) and is_name(conds[0].left, tv) and \
                    dotted(conds[0].comparators[0]) == 'options.ignore_dir'
                ys = [x.id for x in gw.nodes if x.kind == 'stmt' and any(
                    isinstance(y, ast.Yield) for y in ast.walk(x.ast)) and x.id in gw.loop_nodes(lpw.id)]
                body = [d for d, k in gw.succ[lpw.id] if k == 'true']
                r = gw.reach(body, avoid={n.id}, include_start=True)
                okw = good and bool(ys) and not any(y in r for y in ys)
    rep.check(okw, R, 'walk_with_symlinks: dirs[:] = [d for d in dirs if d not in options.ignore_dir] '
              'before the yield', 'ignored directories are not pruned before the walk step is yielded',
              key='prune:walk', func=fw.qualname, where=ctx.where(fw, fw.node))


def r4_pruning(ctx, rep, R='C14.R4'):
    rep.rule(R, 'pruning: find_test_files_ keeps, in place and before the walk resumes, only '
             'directories whose name is an identifier and not in IGNORE_FOLDERS; walk_with_symlinks '
             'removes options.ignore_dir in place before it yields; options.ignore_dir contains the '
             'built-in names (.git .svn CVS {arch} .arch-ids _darcs) whether or not --ignore_dir is '
             'given (abstract evaluation of the argparse declaration and of get_options)')
    m = ctx.model
    ff = walker_fn(ctx)
    g = ctx.cfg(ff)
    lp, names = _walk_loop(ctx, ff, g)
    ok = False
    why = 'no in-place filter of the directory list'
    if lp is not None:
        dirs = names[1]
        for n in g.nodes:
            if n.kind == 'stmt' and n.id in g.loop_nodes(lp.id) and \
                    _order_preserving_store(n.ast, dirs) == 'filter':
                comp = n.ast.value
                tv = comp.generators[0].target.id
                conds = []
                from sa.variance import split_literals
                for c in comp.generators[0].ifs:
                    conds += split_literals(c, True)
                ident = any(pos and isinstance(e, ast.Call) and dotted(e.func) == 'identifier' and
                            is_name(e.args[0], tv) for e, pos in conds)
                ign = any((not pos) and isinstance(e, ast.Compare) and isinstance(e.ops[0], ast.In)
                          and is_name(e.left, tv) and dotted(e.comparators[0]) == 'IGNORE_FOLDERS'
                          for e, pos in conds)
                # on every path of an iteration, before the loop head is reached again
                body = [d for d, k in g.succ[lp.id] if k == 'true']
                r = g.reach(body, avoid={n.id}, include_start=True)
                every = lp.id not in r
                ok = ident and ign and every
                why = 'identifier test: %s, IGNORE_FOLDERS test: %s, on every path: %s' % (ident, ign, every)
    rep.check(ok, R, 'find_test_files_: dirs[:] = [d for d in dirs if identifier(d) and d not in '
              'IGNORE_FOLDERS]', why, key='prune:find', func=ff.qualname, where=ctx.where(ff, ff.node))
    ig = m.module('find').constants.get('IGNORE_FOLDERS')
    from .common import literal_elements
    okc = ig is not None and literal_elements(ig) is not None and \
        {'.git', 'node_modules', '__pycache__'} <= set(literal_elements(ig))
    rep.check(okc, R, 'IGNORE_FOLDERS contains .git, node_modules, __pycache__',
              'IGNORE_FOLDERS changed', key='prune:constant', func='find')
    ident = m.module('find').constants.get('identifier')
    oki = ident is not None and isinstance(ident, ast.Attribute) and ident.attr == 'match' and \
        isinstance(ident.value, ast.Call) and ident.value.args and \
        isinstance(ident.value.args[0], ast.Constant) and ident.value.args[0].value.endswith('$')
    rep.check(oki, R, 'identifier = re.compile(<anchored pattern>).match',
              'the identifier test is no longer an anchored match', key='prune:identifier', func='find')
    walk_prunes_in_place(ctx, rep, R)
    default_ignores_kept(ctx, rep, R)
    symlinked_directories_followed(ctx, rep, R)


# the names the runner has always ignored (option --ignore_dir; its help text: "Specifies the name
# of a directory to ignore when looking for tests"): version-control bookkeeping directories.  An
# explicit --ignore_dir adds to them (argparse 'append' on a list default).
DEFAULT_IGNORED = ('.git', '.svn', 'CVS', '{arch}', '.arch-ids', '_darcs')


class _Undecided(Exception):
    pass


def default_ignores_kept(ctx, rep, R):
    """the set stored in options.ignore_dir contains the built-in names in every option vector:
    abstract evaluation (tokens D = the built-in names, U = names given by the user, NONE) of the
    argparse declaration of --ignore_dir and of every assignment to options.ignore_dir in
    get_options, once for "no --ignore_dir given" and once for "some given" """
    m = ctx.model
    mod = m.modules['options']
    consts = mod.constants

    def lit(x, depth=0):
        """token set of a literal collection / module constant, or None"""
        if isinstance(x, ast.Name) and x.id in consts and depth < 4:
            return lit(consts[x.id], depth + 1)
        if isinstance(x, (ast.List, ast.Tuple, ast.Set)):
            vals = [e.value for e in x.elts if isinstance(e, ast.Constant)]
            if len(vals) != len(x.elts):
                return None
            return frozenset(['D']) if set(DEFAULT_IGNORED) <= set(vals) else \
                (frozenset(['d']) if vals else frozenset())
        if isinstance(x, ast.Call) and isinstance(x.func, ast.Name) and len(x.args) == 1 and \
                not x.keywords and x.func.id in ('list', 'tuple', 'set', 'frozenset', 'sorted'):
            return lit(x.args[0], depth + 1)
        if isinstance(x, ast.Constant) and x.value is None:
            return 'NONE'
        return None

    decl = [n for n in ast.walk(mod.tree) if isinstance(n, ast.Call) and
            isinstance(n.func, ast.Attribute) and n.func.attr == 'add_argument' and
            (kw(n, 'dest') is not None and getattr(kw(n, 'dest'), 'value', None) == 'ignore_dir' or
             any(isinstance(a, ast.Constant) and str(a.value).lstrip('-').replace('-', '_') == 'ignore_dir'
                 for a in n.args))]
    fo = m.func('options.get_options')
    if len(decl) != 1:
        rep.check(False, R, 'one declaration of --ignore_dir', 'found %d declarations of the option'
                  % len(decl), key='ignore:decl', func=fo.qualname, where=ctx.where(fo, fo.node))
        return
    d = decl[0]
    action = getattr(kw(d, 'action'), 'value', 'store')
    dflt = kw(d, 'default')
    dv = 'NONE' if dflt is None else lit(dflt)
    problems = []
    verdicts = {}
    for scen in ('none given', 'some given'):
        try:
            if dv is None:
                raise _Undecided('default=%s' % norm(dflt))
            if scen == 'none given':
                cur = dv
            elif action == 'append':
                cur = (frozenset() if dv == 'NONE' else dv) | {'U'}
            elif action in ('store', None):
                cur = frozenset(['U'])
            else:
                raise _Undecided('action=%r' % action)

            def ev(x, cur):
                if dotted(x) == 'options.ignore_dir':
                    return cur
                v = lit(x)
                if v is not None and not (isinstance(x, ast.Call)):
                    return v
                if isinstance(x, ast.Call) and isinstance(x.func, ast.Name) and len(x.args) == 1 and \
                        not x.keywords and x.func.id in ('list', 'tuple', 'set', 'frozenset', 'sorted'):
                    r = ev(x.args[0], cur)
                    if r == 'NONE':
                        raise _Undecided('%s of None' % x.func.id)
                    return r
                if isinstance(x, ast.BoolOp) and isinstance(x.op, ast.Or):
                    for i, a in enumerate(x.values):
                        r = ev(a, cur)
                        if i == len(x.values) - 1 or (r != 'NONE' and r):
                            return r
                if isinstance(x, ast.BinOp) and isinstance(x.op, (ast.Add, ast.BitOr)):
                    l, r = ev(x.left, cur), ev(x.right, cur)
                    if 'NONE' in (l, r):
                        raise _Undecided('None in %s' % norm(x))
                    return l | r
                if isinstance(x, ast.Call) and isinstance(x.func, ast.Attribute) and \
                        x.func.attr == 'union' and not x.keywords:
                    r = ev(x.func.value, cur)
                    for a in x.args:
                        r = r | ev(a, cur)
                    return r
                if isinstance(x, ast.IfExp):
                    raise _Undecided(norm(x))
                raise _Undecided(norm(x))
            g = ctx.cfg(fo)
            possible = [cur]
            for n in ast.walk(fo.node):
                if isinstance(n, ast.Assign) and any(dotted(t) == 'options.ignore_dir' for t in n.targets):
                    nid = node_of(g, n)
                    new = [ev(n.value, c) for c in possible]
                    # unconditional = on every normal path to a ``return <value>`` of get_options
                    rets = [x.id for x in g.nodes if isinstance(x.stmt, ast.Return) and
                            x.stmt.value is not None]
                    # (paths that give up with options.fail = True never reach discovery)
                    fails = {x.id for x in g.nodes if isinstance(x.stmt, ast.Assign) and x.kind == 'stmt'
                             and any(dotted(t) == 'options.fail' for t in x.stmt.targets)}
                    uncond = nid is not None and bool(rets) and g.every_path_passes(
                        [g.entry], rets, {nid} | fails, edge_ok=lambda s_, d_, k_: k_ != 'exc')[0]
                    possible = new if uncond else possible + new
                elif isinstance(n, ast.AugAssign) and dotted(n.target) == 'options.ignore_dir':
                    raise _Undecided(norm(n))
                elif isinstance(n, ast.Call) and isinstance(n.func, ast.Attribute) and \
                        dotted(n.func.value) == 'options.ignore_dir' and \
                        n.func.attr in ('clear', 'remove', 'discard', 'pop', 'difference_update',
                                        'intersection_update'):
                    problems.append('%s: %s removes names' % (scen, norm(n)))
            bad = [c for c in possible if c == 'NONE' or 'D' not in c]
            verdicts[scen] = not bad
            if bad:
                problems.append('%s: options.ignore_dir = %s' % (
                    scen, sorted(bad[0]) if bad[0] != 'NONE' else 'None'))
        except _Undecided as e:
            rep.undecide(R, 'options.ignore_dir contains the built-in ignored names', str(e))
            return
    rep.check(not problems, R, 'options.ignore_dir contains the built-in ignored names %s whether or not '
              '--ignore_dir is given' % (DEFAULT_IGNORED,),
              'the built-in ignored directory names are lost (%s): version-control directories are then '
              'searched for tests and for stale bytecode' % '; '.join(problems), key='ignore:defaults',
              func=fo.qualname, where=ctx.where(fo, d))


def symlinked_directories_followed(ctx, rep, R):
    """os.walk does not descend into symlinked directories; walk_with_symlinks does it itself: every
    (not ignored) sub-directory that is a link is walked recursively -- the only condition on the
    recursive call is the islink test (a de-duplication by link text, a depth limit ... silently
    leaves directories unsearched: test files not found, orphaned bytecode not removed)"""
    from .common import guard_literals
    fw = ctx.model.func('find.walk_with_symlinks')
    rec = [c for c in own_calls(fw.node) if call_name(c) == fw.name]
    ok = bool(rec)
    extra = []
    for c in rec:
        for e, pos in guard_literals(ctx, fw, c):
            t = norm(e)
            if 'islink' in t and pos:
                continue
            extra.append((t, pos))
    # the loop over the sub-directories has no other exit than exhaustion
    g = ctx.cfg(fw)
    for h in [n for n in g.nodes if n.kind == 'for' and any(c in list(ast.walk(n.stmt)) for c in rec)
              and not (isinstance(n.stmt.target, ast.Tuple))]:
        inside = set(g.loop_nodes(h.id)) | {h.id}
        for s_ in inside:
            for d_, k_ in g.succ[s_]:
                if d_ not in inside and k_ != 'exc' and not (s_ == h.id and k_ == 'false'):
                    extra.append(('the loop over the sub-directories is left by %s' % norm(g.node(s_).ast)[:40], True))
    # ... and the callers prune the yielded list IN PLACE (like os.walk's topdown contract): the
    # directories looked at for links after the yield are the yielded list object as the caller
    # left it -- not a snapshot taken before the yield
    from .common import reaching_defs, node_of
    ys = [y for y in ast.walk(fw.node) if isinstance(y, ast.Yield) and isinstance(y.value, ast.Tuple)
          and len(y.value.elts) == 3 and isinstance(y.value.elts[1], ast.Name)]
    stale = []
    if ys and rec:
        y = ys[0]
        D = y.value.elts[1].id
        yn = node_of(g, y)
        dom = g.dominators()
        heads = [n for n in g.nodes if n.kind == 'for' and any(c in list(ast.walk(n.stmt)) for c in rec)]
        params_ = {a.arg for a in fw.node.args.args}
        ydefs = reaching_defs(g, yn, D) if yn is not None else []

        def comp_targets_of(e):
            return {t.id for c_ in ast.walk(e) if isinstance(c_, ast.comprehension)
                    for t in ast.walk(c_.target) if isinstance(t, ast.Name)}

        def mentions_dirs(e, at, depth=0):
            """does the value e (evaluated at node at) depend on the directory list, through locals?"""
            if depth > 5:
                return True
            for nm in sorted({x.id for x in ast.walk(e) if isinstance(x, ast.Name)} - params_ - comp_targets_of(e)):
                if nm == D:
                    return True
                for d2 in reaching_defs(g, at, nm):
                    if isinstance(d2, (ast.For, ast.With)):
                        continue
                    dn2 = node_of(g, d2)
                    if dn2 is not None and mentions_dirs(d2, dn2, depth + 1):
                        return True
            return False

        def check_value(e, at, depth=0):
            """every local the value e is computed from is the live list or was computed after the yield"""
            if depth > 5:
                return
            for nm in sorted({x.id for x in ast.walk(e) if isinstance(x, ast.Name)} - params_ - comp_targets_of(e)):
                defs = reaching_defs(g, at, nm)
                if not defs:
                    continue        # module / builtin name
                if nm == D and {id(d) for d in defs} == {id(d) for d in ydefs}:
                    continue        # the yielded list itself, as the caller left it
                for d in defs:
                    if isinstance(d, (ast.For, ast.With)):
                        continue
                    dn = node_of(g, d)
                    if dn is None:
                        continue
                    if nm != D and not mentions_dirs(d, dn):
                        continue
                    if yn is None or yn not in dom.get(dn, ()):
                        stale.append('%s = %s' % (nm, norm(d)[:50]))
                    else:
                        check_value(d, dn, depth + 1)
        for h in heads:
            check_value(h.stmt.iter, h.id)
        if stale:
            extra.append(('the sub-directories examined after the yield come from %s, computed before the '
                          'caller pruned the yielded list' % stale, True))
    rep.check(ok and not extra, R, 'walk_with_symlinks: every symlinked sub-directory is walked (only the islink test guards the recursion)',
              'a symlinked directory is followed only under %s: directories reached through other links '
              'are silently not searched' % extra, key='walk:symlinks', func=fw.qualname,
              where=ctx.where(fw, rec[0] if rec else fw.node))


def r5_package_restricts(ctx, rep, R='C14.R5'):
    rep.rule(R, '--package restricts the walk: test_dirs yields options.test_path only when no '
             '--package was given; otherwise the directories of the named packages -- all of them: the '
             'loops over options.package and over each package\'s __path__ are only left when exhausted')
    fi = ctx.model.func('find.test_dirs')
    ys = [n for n in ast.walk(fi.node) if isinstance(n, (ast.Yield, ast.YieldFrom))]
    ok = False
    from .common import guard_literals
    for y in ys:
        if 'options.test_path' in norm(y.value):
            lits = guard_literals(ctx, fi, y)
            ok = [(norm(e), pos) for e, pos in lits] == [('options.package', False)]
    others = [y for y in ys if 'options.test_path' not in norm(y.value)]
    ok2 = all(any(norm(e) == 'options.package' and pos for e, pos in guard_literals(ctx, fi, y))
              for y in others) and bool(others)
    rep.check(ok and ok2, R, 'test_dirs: test_path iff not options.package',
              'the whole test path is walked although --package was given (or never)',
              key='package', func=fi.qualname, where=ctx.where(fi, fi.node))
    # ... and every directory of every named package is considered: the loops over options.package
    # and over <package>.__path__ are left only when they are exhausted
    g = ctx.cfg(fi)
    heads = [n for n in g.nodes if n.kind == 'for' and (
        norm(n.ast).endswith('.__path__') or dotted(n.ast) == 'options.package')]
    for h in heads:
        inside = set(g.loop_nodes(h.id)) | {h.id}
        leaks = [(s_, d_) for s_ in inside for d_, k_ in g.succ[s_]
                 if d_ not in inside and k_ != 'exc' and not (s_ == h.id and k_ == 'false')]
        rep.check(not leaks, R, 'test_dirs: the loop over %s visits every element' % norm(h.ast),
                  'the loop over %s can be left before it is exhausted (%s): of a package spread over '
                  'several directories (namespace package, extended __path__) / of several --package '
                  'options only the first is searched' % (
                      norm(h.ast), norm(g.node(leaks[0][0]).ast)[:50] if leaks else ''),
                  key='package:all:' + norm(h.ast), func=fi.qualname,
                  where=ctx.where(fi, g.node(leaks[0][0]).ast if leaks and g.node(leaks[0][0]).ast is not None else fi.node))
    rep.check(len(heads) >= 2, R, 'test_dirs: loops over options.package and over <package>.__path__ found',
              'test_dirs does not iterate options.package and the __path__ of each package',
              key='package:loops', func=fi.qualname, where=ctx.where(fi, fi.node))


def _key_is_length(ctx, fi, key):
    """the sort key is the length of (the path component of) the element: a lambda, or a named
    module-level function whose only statement returns such an expression"""
    body = None
    if isinstance(key, ast.Lambda):
        body = key.body
    elif isinstance(key, ast.Name):
        f = fi.module.functions.get(key.id) if hasattr(fi.module, 'functions') else None
        if f is None:
            # a helper inlined from another module keeps referring to that module's key function
            cands = [m_.functions[key.id] for m_ in ctx.model.modules.values()
                     if key.id in m_.functions and not m_.name.startswith('tests')]
            f = cands[0] if len(cands) == 1 else None
        if f is not None:
            sts = [x for x in f.node.body if not (isinstance(x, ast.Expr) and isinstance(x.value, ast.Constant))]
            if len(sts) == 1 and isinstance(sts[0], ast.Return) and sts[0].value is not None:
                body = sts[0].value
            elif len(sts) == 2 and isinstance(sts[0], ast.Assign) and isinstance(sts[1], ast.Return) and \
                    sts[1].value is not None:
                # ``path, _ = entry; return len(path)``: unpacking the element first
                body = sts[1].value
    return body is not None and isinstance(body, ast.Call) and dotted(body.func) == 'len'


def r6_longest_prefix_first(ctx, rep, R='C14.R6'):
    rep.rule(R, 'longest prefix first: options.prefix is sorted by descending length of the path '
             'before use (find_suites takes the first matching prefix)')
    fi = ctx.model.func('options.get_options')
    g = ctx.cfg(fi)
    stores = [n.id for n in g.nodes if n.kind == 'stmt' and isinstance(n.ast, ast.Assign) and
              any(dotted(t) == 'options.prefix' for t in n.ast.targets)]
    sorts = []
    for n in g.nodes:
        if n.kind != 'stmt':
            continue
        for c in calls_in(n.ast):
            if isinstance(c.func, ast.Attribute) and c.func.attr == 'sort' and \
                    dotted(c.func.value) == 'options.prefix':
                key, rev = kw(c, 'key'), kw(c, 'reverse')
                if _key_is_length(ctx, fi, key) and \
                        isinstance(rev, ast.Constant) and rev.value is True:
                    sorts.append(n.id)
        if isinstance(n.ast, ast.Assign) and any(dotted(t) == 'options.prefix' for t in n.ast.targets) \
                and isinstance(n.ast.value, ast.Call) and dotted(n.ast.value.func) == 'sorted':
            c = n.ast.value
            key, rev = kw(c, 'key'), kw(c, 'reverse')
            if _key_is_length(ctx, fi, key) and \
                    isinstance(rev, ast.Constant) and rev.value is True:
                sorts.append(n.id)
    ok = bool(stores) and bool(sorts)
    if ok:
        last_store = [s for s in stores if s not in sorts]
        ok = all(any(x in g.reach([s]) for x in sorts) for s in last_store) and \
            not any(s in g.reach([x]) for x in sorts for s in last_store)
    # every "first matching search path wins" loop of discovery reads that sorted list: a loop that
    # leaves with ``break`` on the first entry whose path is a prefix of a directory / file must
    # iterate options.prefix -- options.test_path is in command-line order (plain paths before
    # package paths), so with nested search paths the outer one would win
    fm = ctx.model.module('find')
    for f2 in fm.functions.values():
        for lp in [x for x in ast.walk(f2.node) if isinstance(x, ast.For)]:
            has_break = any(isinstance(y, ast.Break) for st in lp.body for y in ast.walk(st)
                            if not isinstance(st, (ast.For, ast.While)) or True)
            tests_prefix = any(isinstance(y, ast.Call) and isinstance(y.func, ast.Attribute) and
                               y.func.attr == 'startswith' for y in ast.walk(lp))
            src = dotted(lp.iter) or ''
            if has_break and tests_prefix and src.startswith('options.') and isinstance(lp.target, ast.Tuple):
                rep.check(src == 'options.prefix', R, '%s: first-match loop over the search paths reads options.prefix' % f2.qualname,
                          '%s picks the first entry of %s whose path is a prefix: that list is not sorted '
                          'longest first, so with nested search paths (a --package-path inside a --test-path) '
                          'the outer path wins and the file gets the wrong package / dotted name' % (f2.qualname, src),
                          key='first-match:' + f2.qualname, func=f2.qualname, where=ctx.where(f2, lp))
    rep.check(ok, R, 'get_options: options.prefix sorted by len(path) descending after it is built',
              'the prefixes are not sorted longest first: with nested source roots a module would '
              'get the wrong dotted name', key='prefix-sort', func=fi.qualname, where=ctx.where(fi, fi.node))


def tested_name_is_imported_name(ctx, rep, R):
    """find_suites: what accept() judges is the dotted module name that is then imported (no
    re-assignment of the variable in between)"""
    fi = ctx.model.func('find.find_suites')
    tests = [c for c in own_calls(fi.node) if is_name(c.func, 'accept')]
    impc = [c for c in own_calls(fi.node) if call_name(c) == 'import_name']
    same = bool(tests) and bool(impc) and all(norm(t.args[0]) == norm(impc[0].args[0]) for t in tests)
    if same:
        gq = ctx.cfg(fi)
        tn = nodes_calling(gq, lambda c: c in tests)
        im = nodes_calling(gq, lambda c: c in impc)
        var = norm(impc[0].args[0])
        stores = [x.id for x in gq.nodes if x.kind == 'stmt' and isinstance(x.ast, (ast.Assign, ast.AugAssign))
                  and any(norm(t) == var for t in (x.ast.targets if isinstance(x.ast, ast.Assign)
                                                   else [x.ast.target]))]
        heads = {x.id for x in gq.nodes if x.kind == 'for' or
                 (x.kind == 'test' and isinstance(x.stmt, ast.While))}
        between = set()
        for t_ in tn:
            between |= gq.reach([t_], avoid=set(im) | heads)
        same = not any(st in between and any(i in gq.reach([st], avoid=heads) for i in im)
                       for st in stores)
    rep.check(same, R, 'the name tested by accept() is the name imported',
              'accept(%s) vs import_name(%s)' % ([norm(t.args[0]) for t in tests],
                                                 [norm(c.args[0]) for c in impc]),
              key='filter-same-name', func=fi.qualname, where=ctx.where(fi, fi.node))


def r7_prefix_is_directory_boundary(ctx, rep, R='C14.R7'):
    rep.rule(R, 'a search-root prefix is matched at a directory boundary.  Relational: either the '
             'first components stored in options.prefix end in the separator (<path> + os.path.sep) '
             'and the consumers test startswith(prefix) and cut len(prefix) characters, or they are '
             'stored bare and every consumer tests startswith(prefix + sep) and cuts len(prefix) + 1. '
             'A bare prefix tested bare makes /p/src/lib "contain" /p/src/lib_x: its modules get the '
             'dotted name of a module of the other root (loaded twice, or not at all)')
    m = ctx.model
    fi = m.func('options.get_options')

    def is_sep(e):
        return (m.resolve_dotted(fi.module, dotted(e)) or dotted(e) or '') in ('os.path.sep', 'os.sep') or \
            (isinstance(e, ast.Constant) and e.value in ('/', '\\'))
    stores = [n for n in ast.walk(fi.node) if isinstance(n, ast.Assign) and
              any(dotted(t) == 'options.prefix' for t in n.targets)]
    rep.floor(R, len(stores), 1, 'stores to options.prefix')
    with_sep = None
    from .common import single_assignments
    sa_ = single_assignments(fi.node)
    for st in stores:
        v = st.value
        for _ in range(3):
            if isinstance(v, ast.Call) and call_name(v) in ('sorted', 'list', 'tuple') and v.args:
                v = v.args[0]
            if isinstance(v, ast.Name) and v.id in sa_:
                v = sa_[v.id]
        if isinstance(v, (ast.ListComp, ast.GeneratorExp)) and isinstance(v.elt, ast.Tuple) and v.elt.elts:
            first = v.elt.elts[0]
            with_sep = isinstance(first, ast.BinOp) and isinstance(first.op, ast.Add) and is_sep(first.right)
        elif any(isinstance(x, ast.Attribute) and dotted(x) == 'options.prefix' for x in ast.walk(st.value)):
            continue                 # a re-ordered copy of itself: judged at the other store
        elif isinstance(v, ast.Call) and call_name(v) in ('list', 'tuple', 'sorted') or \
                (dotted(v) or '').endswith('test_path'):
            with_sep = False
        else:
            with_sep = False if with_sep is None else with_sep
    if with_sep is None:
        rep.assume('%s not applied: the way options.prefix is built is not of a form this rule reads' % R)
        return
    n = 0
    for q in ('find.find_suites', 'find.test_dirs'):
        fs = m.func(q)
        loopvars = set()
        for lp in ast.walk(fs.node):
            if isinstance(lp, ast.For) and (dotted(lp.iter) or '').endswith('options.prefix'):
                t = lp.target
                if isinstance(t, ast.Tuple) and t.elts and isinstance(t.elts[0], ast.Name):
                    loopvars.add(t.elts[0].id)
            if isinstance(lp, ast.comprehension) and (dotted(lp.iter) or '').endswith('options.prefix'):
                t = lp.target
                if isinstance(t, ast.Tuple) and t.elts and isinstance(t.elts[0], ast.Name):
                    loopvars.add(t.elts[0].id)
        for c in ast.walk(fs.node):
            if isinstance(c, ast.Call) and isinstance(c.func, ast.Attribute) and c.func.attr == 'startswith' \
                    and c.args:
                a0 = c.args[0]
                bare = isinstance(a0, ast.Name) and a0.id in loopvars
                plus = isinstance(a0, ast.BinOp) and isinstance(a0.op, ast.Add) and \
                    isinstance(a0.left, ast.Name) and a0.left.id in loopvars and is_sep(a0.right)
                if not (bare or plus):
                    continue
                n += 1
                ok = (with_sep and bare) or (not with_sep and plus)
                rep.check(ok, R, '%s: %s tests a directory boundary (prefixes are stored %s the separator)'
                          % (q, norm(c), 'with' if with_sep else 'without'),
                          '%s: %s -- the prefixes of options.prefix are stored %s the trailing separator, '
                          'so this is %s' % (q, norm(c), 'with' if with_sep else 'WITHOUT',
                                             'a doubled separator that never matches' if with_sep else
                                             'a plain string-prefix test: a sibling directory whose name '
                                             'merely extends the root name counts as inside it'),
                          key='boundary:%s:%s' % (q, norm(c)), func=fs.qualname, where=ctx.where(fs, c))
        for sub in ast.walk(fs.node):
            if isinstance(sub, ast.Subscript) and isinstance(sub.slice, ast.Slice) and \
                    sub.slice.lower is not None and sub.slice.upper is None:
                lo = sub.slice.lower
                base = lo
                off = 0
                if isinstance(lo, ast.BinOp) and isinstance(lo.op, ast.Add) and \
                        isinstance(lo.right, ast.Constant) and isinstance(lo.right.value, int):
                    base, off = lo.left, lo.right.value
                if isinstance(base, ast.Call) and call_name(base) == 'len' and len(base.args) == 1 and \
                        isinstance(base.args[0], ast.Name) and base.args[0].id in loopvars:
                    n += 1
                    want = 0 if with_sep else 1
                    rep.check(off == want, R, '%s: the module path is the file name minus the prefix%s (%s)'
                              % (q, '' if with_sep else ' and the separator', norm(sub)),
                              'the prefix is cut off with %s although the prefixes are stored %s the '
                              'separator: the module name loses its first character or keeps the separator'
                              % (norm(sub), 'with' if with_sep else 'without'), key='prefix-cut:' + q,
                              func=fs.qualname, where=ctx.where(fs, sub))
    rep.floor(R, n, 2, 'prefix tests / removals in find_suites and test_dirs')


def r8_which_files_are_test_files(ctx, rep, R='C14.R8'):
    rep.rule(R, 'which files of a walked directory are test modules (decision table): a file with a '
             'usable extension is recorded iff its name matches --tests-pattern, or the directory is a '
             'tests package (its name matches --tests-pattern and it has an __init__) and the file '
             'name matches --test-file-pattern.  Decided by evaluating the guards that dominate every '
             'recording site of find_test_files_ over all 32 valuations of (dir matches, has '
             '__init__, name matches tests-pattern, name matches test-file-pattern, extension ok)')
    from sa.variance import UNKNOWN, eval_guard
    from .common import expander, guard_literals, single_assignments
    fi = ctx.model.func('find.find_test_files_')
    sa_ = single_assignments(fi.node)
    la = {}
    for n in ast.walk(fi.node):
        if isinstance(n, ast.Assign) and len(n.targets) == 1 and isinstance(n.targets[0], ast.Name):
            la.setdefault(n.targets[0].id, []).append(n.value)
    nested = {n.name: n for n in ast.walk(fi.node) if isinstance(n, ast.FunctionDef) and n is not fi.node}
    # recording sites: calls of a nested recorder, or stores into a dict, inside a loop over the files
    sites = []
    # the listing of file names: third element of the walk step
    FILES, DIRNAME = set(), set()
    for lp in ast.walk(fi.node):
        if isinstance(lp, ast.For) and isinstance(lp.target, ast.Tuple) and len(lp.target.elts) == 3 and \
                all(isinstance(e, ast.Name) for e in lp.target.elts) and isinstance(lp.iter, ast.Call):
            FILES.add(lp.target.elts[2].id)
            DIRNAME.add(lp.target.elts[0].id)
    for lp in ast.walk(fi.node):
        if not (isinstance(lp, ast.For) and isinstance(lp.target, ast.Name)):
            continue
        if not (isinstance(lp.iter, ast.Name) and lp.iter.id in FILES or
                (isinstance(lp.iter, ast.Name) and any(norm(v) in FILES for v in la.get(lp.iter.id, [])))):
            continue
        fv = lp.target.id
        for n in ast.walk(lp):
            if isinstance(n, ast.Call) and isinstance(n.func, ast.Name) and n.func.id in nested and \
                    any(is_name(a, fv) for a in n.args):
                sites.append((n, fv))
            if isinstance(n, ast.Assign) and any(isinstance(t, ast.Subscript) for t in n.targets) and \
                    any(isinstance(x, ast.Name) and x.id == fv for x in ast.walk(n.value)) or \
                    (isinstance(n, ast.Assign) and any(isinstance(t, ast.Subscript) for t in n.targets) and
                     any(isinstance(x, ast.Name) and any(
                         isinstance(v, ast.AST) and fv in norm(v) for v in la.get(x.id, []))
                         for x in ast.walk(n.value))):
                if not any(n is x for f_ in nested.values() for x in ast.walk(f_)):
                    sites.append((n, fv))
    if not sites:
        rep.assume('%s not applied: no recording site found in a loop over the file names' % R)
        return

    def classify(call):
        """'A' tests-pattern on the file name, 'B' test-file-pattern on it, 'D1' tests-pattern on the
        directory name, 'D2' package marker, or None"""
        f = dotted(call.func) or ''
        src = norm(la[f][0]) if f in la and len(la[f]) == 1 else f
        arg = call.args[-1] if call.args else None
        argsrc = ''
        if isinstance(arg, ast.Name):
            argsrc = ' '.join(norm(v) for v in la.get(arg.id, []))
        elif arg is not None:
            argsrc = norm(arg)
        if f.endswith('contains_init_py'):
            return 'D2'
        if src.endswith('test_file_pattern'):
            return 'B' if 'strip_py_ext' in argsrc else None
        if src.endswith('tests_pattern'):
            if 'strip_py_ext' in argsrc:
                return 'A'
            if any(d_ in argsrc for d_ in DIRNAME):
                return 'D1'
        return None
    exp0 = expander(fi.node, lambda v: True)
    # a predicate chosen by an if/else (``if c: f = P else: f = Q`` ... ``f(x)``) is the call
    # ``(c and P(x)) or (not c and Q(x))``
    chosen = {}
    for st in ast.walk(fi.node):
        if isinstance(st, ast.If) and len(st.body) >= 1 and len(st.orelse) >= 1:
            b = [x for x in st.body if isinstance(x, ast.Assign) and len(x.targets) == 1 and
                 isinstance(x.targets[0], ast.Name) and isinstance(x.value, (ast.Name, ast.Attribute))]
            o = [x for x in st.orelse if isinstance(x, ast.Assign) and len(x.targets) == 1 and
                 isinstance(x.targets[0], ast.Name) and isinstance(x.value, (ast.Name, ast.Attribute))]
            for x in b:
                for y in o:
                    if x.targets[0].id == y.targets[0].id and len(la.get(x.targets[0].id, [])) == 2:
                        chosen[x.targets[0].id] = (st.test, x.value, y.value)
    import copy as _copy

    class Choose(ast.NodeTransformer):
        def visit_Call(self, n):
            self.generic_visit(n)
            if isinstance(n.func, ast.Name) and n.func.id in chosen:
                c, p_, q_ = chosen[n.func.id]
                a = _copy.deepcopy(n)
                a.func = _copy.deepcopy(p_)
                b = _copy.deepcopy(n)
                b.func = _copy.deepcopy(q_)
                return ast.BoolOp(op=ast.Or(), values=[
                    ast.BoolOp(op=ast.And(), values=[_copy.deepcopy(c), a]),
                    ast.BoolOp(op=ast.And(), values=[ast.UnaryOp(op=ast.Not(), operand=_copy.deepcopy(c)), b])])
            return n

    def exp(e):
        return exp0(ast.fix_missing_locations(Choose().visit(_copy.deepcopy(e))))
    bad_case = None
    unknown = None
    guards = []
    for n, fv in sites:
        lits = guard_literals(ctx, fi, n)
        guards.append((n, [(exp(e), pos, e) for e, pos in lits]))
    for bits in range(32):
        D1, D2, A, B, N = [bool(bits >> k & 1) for k in range(5)]
        val = {'D1': D1, 'D2': D2, 'A': A, 'B': B}
        included = False
        for n, lits in guards:
            ok_all = True
            for e2, pos, e in lits:
                env = {}
                for c in ast.walk(e2):
                    if isinstance(c, ast.Call):
                        k = classify(c)
                        if k:
                            env[norm(c)] = val[k]
                for x in ast.walk(e2):
                    if isinstance(x, ast.Name) and any('strip_py_ext' in norm(v) for v in la.get(x.id, [])
                                                       if isinstance(v, ast.AST)):
                        env[x.id] = 'name' if N else None
                    if isinstance(x, ast.Call) and (dotted(x.func) or '').endswith('strip_py_ext'):
                        env[norm(x)] = 'name' if N else None
                v = eval_guard(e2, env)
                if v is UNKNOWN:
                    unknown = norm(e)
                    ok_all = None
                    break
                if bool(v) != pos:
                    ok_all = False
                    break
            if ok_all is None:
                break
            if ok_all:
                included = True
        if unknown:
            break
        want = N and (A or (D1 and D2 and B))
        if included != want and bad_case is None:
            bad_case = (D1, D2, A, B, N, included)
    if unknown:
        rep.assume('%s not applied: the guard %s of a recording site is outside the finite domain' % (R, unknown))
        return
    rep.check(bad_case is None, R, 'a file is recorded iff ext ok and (tests-pattern(name) or (tests '
              'package and test-file-pattern(name))) -- 32 cases, %d recording site(s)' % len(sites),
              'directory matches tests-pattern=%s, has __init__=%s, file matches tests-pattern=%s, '
              'file matches test-file-pattern=%s, extension ok=%s: the file is %s' % (
                  bad_case[:5] + ('recorded although it must not be' if bad_case[5] else
                                  'NOT recorded: a module matching the patterns is never loaded',))
              if bad_case else '', key='file-decision-table', func=fi.qualname,
              where=ctx.where(fi, sites[0][0]))
