"""C05 -- per-test layer hooks bracket every test: bases first, mirrored, balanced."""
import ast

from . import tsrules
from .common import (Ctx, bases_first_premises, call_name, calls_in, dotted, hook_calls, is_name,
                     local_assignments, norm, own_calls, params, strip_reverse)

P = 'C05'


def run(model, rep, tier):
    ctx = Ctx(model)
    rep.assume('layer hook = attribute call testSetUp/testTearDown on a non-self receiver (role '
               'table); a hook raising half-way through the layer list is not modelled')
    r1_provenance(ctx, rep)
    rep.rule('C05.R3', 'on every sequence of result events of both unittest protocol variants: '
             'testSetUp runs when a test starts (startTest, or addSkip arriving without startTest), '
             'bases first; testTearDown runs in stopTest in the exact reverse order; never a '
             'testTearDown without the matching testSetUp or two testSetUp in a row')
    tsrules.hook_balance(ctx, rep, 'C05.R3')
    tsrules.record_units(rep, tsrules.exploration(ctx))
    r4_who_may_call(ctx, rep)
    rep.rule('C05.R6', 'the loop that drives the result in post-mortem mode honours the driver protocol: '
             'stopTest (and with it the layers\' testTearDown) follows every startTest on every exit')
    tsrules.driver_brackets(ctx, rep, 'C05.R6')
    rep.rule('C05.R7', 'every --repeat iteration runs the same test objects: after each test the '
             'attribute dictionary of the test object is what it was when the test was handed over '
             '(typestate of test.__dict__ over all result-event words: copy / clear / update with the '
             'copy in the callbacks, or the same bracket in the loop of run_tests); a test object '
             'that lost its attributes breaks the next iteration in the middle of its hook bracket')
    tsrules.test_state_restored(ctx, rep, 'C05.R7')
    rep.rule('C05.R5', 'premises of the bases-first argument for the per-test layer list '
             '(gather_layers pre-order over all bases; order_by_bases reverses once and keeps first '
             'occurrences)')
    bases_first_premises(ctx, rep, 'C05.R5')
    from . import lifetime
    rep.rule('C05.R8', "each run sees only its own inputs (rules/lifetime.py): no function of the package is memoised across runs (functools.lru_cache / cache), module-level containers that functions add to are emptied at the start of a run, no mutable class attribute is shared through instances (mutated in place or handed out without being re-bound per instance), and no option with a mutable argparse default is mutated in place after parsing -- a second run in the same process (other layer objects under the same names, other outcomes, other filters) must not inherit the first run's state")
    lifetime.check(ctx, rep, 'C05.R8')
    r9_setup_before_anything_fallible(ctx, rep)
    from . import robust
    robust.asserts_have_no_effects(ctx, rep, 'C05.R20', 'C05')
    rep.units['cfg'] = ctx.cfg_stats


def r1_provenance(ctx, rep):
    R = 'C05.R1'
    rep.rule(R, 'the per-test layer list is order_by_bases(all layers gathered from the layer of '
             'this TestResult); each hook loop filters only by hasattr of the hook it then calls')
    m = ctx.model
    cls = m.cls(tsrules.RESULT_CLASS)
    init = m.find_method(cls, '__init__')
    ps = params(init)
    stores = [n for n in ast.walk(init.node) if isinstance(n, ast.Assign) and any(
        isinstance(t, ast.Attribute) and t.attr == 'layers' and is_name(t.value, 'self')
        for t in n.targets)]
    ok, why = False, 'no store to self.layers in TestResult.__init__'
    if len(stores) == 1:
        v = stores[0].value
        why = 'self.layers is %s' % norm(v)
        if isinstance(v, ast.Call) and call_name(v) == 'order_by_bases' and len(v.args) == 1 and \
                isinstance(v.args[0], ast.Name):
            lst = v.args[0].id
            assigns = local_assignments(init.node).get(lst, [])
            fresh = len(assigns) == 1 and isinstance(assigns[0], ast.List) and not assigns[0].elts
            gathers = [c for c in own_calls(init.node) if call_name(c) == 'gather_layers' and
                       len(c.args) == 2 and is_name(c.args[1], lst)]
            others = [c for c in own_calls(init.node) if isinstance(c.func, ast.Attribute) and
                      is_name(c.func.value, lst)]
            if fresh and len(gathers) == 1 and not others:
                src = gathers[0].args[0]
                if isinstance(src, ast.Name):
                    # a temporary holding the looked-up layer
                    vals_ = [x for x in local_assignments(init.node).get(src.id, []) if isinstance(x, ast.AST)]
                    if len(local_assignments(init.node).get(src.id, [])) == 1 and len(vals_) == 1:
                        src = vals_[0]
                if isinstance(src, ast.Call) and call_name(src) == 'layer_from_name' and \
                        len(src.args) == 1 and dotted(src.args[0]) in ps:
                    ok = True
                else:
                    why = 'layers are gathered from %s, not from this result\'s layer' % norm(src)
            else:
                why = 'the gathered list is not built by exactly one gather_layers call on a fresh list'
    rep.check(ok, R, 'TestResult.layers = order_by_bases(gather_layers(layer_from_name(layer_name)))',
              why, key='layers:provenance', func=init.qualname, where=ctx.where(init, init.node))
    # other writers of self.layers
    writers = []
    for c in m.mro(cls):
        for fi in c.methods.values():
            if fi is init:
                continue
            for n in ast.walk(fi.node):
                if isinstance(n, ast.Attribute) and n.attr == 'layers' and \
                        isinstance(n.ctx, (ast.Store, ast.Del)) and is_name(n.value, 'self'):
                    writers.append(fi.qualname)
                if isinstance(n, ast.Call) and isinstance(n.func, ast.Attribute) and \
                        dotted(n.func.value) == 'self.layers' and n.func.attr in (
                            'append', 'remove', 'pop', 'insert', 'reverse', 'sort', 'clear', 'extend'):
                    writers.append(fi.qualname)
    rep.check(not writers, R, 'self.layers is never modified after __init__',
              'self.layers is modified in %s' % writers, key='layers:writers',
              func=cls.qualname)
    # the guards
    n = 0
    for meth, hook in (('testSetUp', 'testSetUp'), ('testTearDown', 'testTearDown')):
        fi = m.find_method(cls, meth)
        if fi is None:
            rep.bad(R, 'TestResult.%s' % meth, 'method missing', key=meth + ':missing')
            continue
        for c in hook_calls(ctx, fi, (hook,)):
            n += 1
            recv = dotted(c.func.value)
            conds = []
            node = c
            while getattr(node, '_parent', None) is not None and node._parent is not fi.node:
                par = node._parent
                if isinstance(par, ast.If) and node in par.body:
                    conds.append(par.test)
                if isinstance(par, (ast.For,)) and node in par.orelse:
                    conds.append(None)
                node = par
            good = all(isinstance(t, ast.Call) and dotted(t.func) == 'hasattr' and len(t.args) == 2
                       and dotted(t.args[0]) == recv and isinstance(t.args[1], ast.Constant) and
                       t.args[1].value == hook for t in conds)
            rep.check(good, R, '%s: the only filter is hasattr(layer, %r)' % (meth, hook),
                      'layer.%s() is filtered by %s' % (hook, [norm(t) if t is not None else 'else'
                                                               for t in conds]),
                      key=meth + ':guard', func=fi.qualname, where=ctx.where(fi, c))
            loops = [p for p in _parents(c, fi.node) if isinstance(p, ast.For)]
            src_ok = bool(loops) and dotted(strip_reverse(loops[0].iter)[0]) == 'self.layers' and \
                is_name(loops[0].target, recv)
            rep.check(src_ok, R, '%s: iterates self.layers' % meth,
                      'the hook loop does not iterate self.layers', key=meth + ':iter',
                      func=fi.qualname, where=ctx.where(fi, c))
            esc = [s for lp in loops for s in ast.walk(lp)
                   if isinstance(s, (ast.Break, ast.Return))]
            rep.check(not esc, R, '%s: the loop visits every layer' % meth,
                      'break/return inside the hook loop', key=meth + ':complete',
                      func=fi.qualname, where=ctx.where(fi, c))
    rep.floor(R, n, 2, 'per-test hook call sites')


def _parents(node, stop):
    out = []
    while getattr(node, '_parent', None) is not None and node._parent is not stop:
        node = node._parent
        out.append(node)
    return out


def r4_who_may_call(ctx, rep):
    R = 'C05.R4'
    rep.rule(R, 'layer testSetUp/testTearDown are invoked only from TestResult.testSetUp / '
             'TestResult.testTearDown (one site each); startTest/stopTest reach them through '
             'these methods')
    allowed = {'testSetUp': 'runner.TestResult.testSetUp',
               'testTearDown': 'runner.TestResult.testTearDown'}
    found = {'testSetUp': 0, 'testTearDown': 0}
    for fi in ctx.model.all_functions():
        for c in hook_calls(ctx, fi, tuple(allowed)):
            h = c.func.attr
            good = fi.qualname == allowed[h]
            found[h] += good
            rep.check(good, R, '%s call in %s' % (h, fi.qualname),
                      'layer.%s() is called outside %s' % (h, allowed[h]), key=norm(c) + '@' +
                      fi.qualname, func=fi.qualname, where=ctx.where(fi, c))
    for h, k in found.items():
        rep.check(k == 1, R, 'exactly one %s site' % h, 'found %d sites' % k, key='count:' + h,
                  func=allowed[h])
    rep.floor(R, sum(found.values()), 2, 'hook call sites')


def r9_setup_before_anything_fallible(ctx, rep, R='C05.R9'):
    """Both unittest drivers run stopTest -- and with it every layer's testTearDown -- once startTest
    (or the addSkip fallback) was ENTERED, also when it raised.  So the layers' testSetUp must be the
    first thing in it that can fail for reasons outside the runner: a formatter call (encoding error
    for the test id, broken pipe on flush) or a call into the test object that comes first and raises
    leaves every layer with a testTearDown that has no matching testSetUp."""
    rep.rule(R, 'no testTearDown without the matching testSetUp when announcing the test fails: in '
             'startTest, and in the branch of addSkip that stands in for a missing startTest, every path '
             'from the entry to a call of the formatter or into the test object (other than reading '
             'its __dict__) passes the call of self.testSetUp() first')
    m = ctx.model
    cls = m.cls(tsrules.RESULT_CLASS)
    n = 0
    for mname in ('startTest', 'addSkip'):
        fi = m.find_method(cls, mname)
        if fi is None:
            continue
        g = ctx.cfg(fi)
        ps = params(fi)
        test_p = ps[1] if len(ps) > 1 else 'test'

        def fallible(c):
            if not isinstance(c, ast.Call):
                return False
            d = dotted(c.func) or ''
            if isinstance(c.func, ast.Attribute) and ctx.cg.is_formatter_receiver(c.func.value, fi):
                return True
            if d.startswith(test_p + '.') and not d.startswith(test_p + '.__dict__'):
                return True
            if d in ('str', 'repr') and c.args and is_name(c.args[0], test_p):
                return True
            return False
        setup = nodes_calling_(g, lambda c: dotted(c.func) == 'self.testSetUp')
        bad = nodes_calling_(g, fallible)
        if mname == 'startTest':
            starts, incl = [g.entry], True
        else:
            starts = []
            for nd in g.nodes:
                if nd.kind != 'test' or "hasattr(self, '_test_state')" not in norm(nd.ast):
                    continue
                pos = True
                t = nd.ast
                while isinstance(t, ast.UnaryOp) and isinstance(t.op, ast.Not):
                    pos = not pos
                    t = t.operand
                if not (isinstance(t, ast.Call) and dotted(t.func) == 'hasattr'):
                    continue
                want = 'false' if pos else 'true'
                starts += [d_ for d_, k_ in g.succ[nd.id] if k_ == want]
            incl = True
            # only what the fallback branch itself does: stop at the join with the other branch
            if not starts:
                rep.undecide(R, 'addSkip: the branch for a missing startTest was not recognised '
                             "(no test of hasattr(self, '_test_state'))", where=ctx.where(fi, fi.node))
                continue
        if not setup:
            rep.check(False, R, '%s calls self.testSetUp()' % mname,
                      '%s does not call self.testSetUp()' % fi.qualname, key='setup-first:' + mname,
                      func=fi.qualname, where=ctx.where(fi, fi.node))
            continue
        # fallible calls that can be reached from the start without passing testSetUp
        r = g.reach(starts, avoid=set(setup), include_start=incl,
                    edge_ok=lambda s_, d_, k_: k_ != 'exc')
        early = [b for b in bad if b in r]
        if mname == 'addSkip':
            # nodes also reachable from the OTHER branch without the fallback are not the fallback's
            other = []
            for nd in g.nodes:
                if nd.kind == 'test' and "hasattr(self, '_test_state')" in norm(nd.ast):
                    other += [d_ for d_, k_ in g.succ[nd.id] if d_ not in starts and k_ in ('true', 'false')]
            ro = g.reach(other, include_start=True, edge_ok=lambda s_, d_, k_: k_ != 'exc')
            early = [b for b in early if b not in ro]
        n += 1
        rep.check(not early, R, '%s: testSetUp precedes every formatter / test-object call' % mname,
                  '%s reaches %s before self.testSetUp(): when that call raises, the driver still runs '
                  'stopTest and every layer gets testTearDown without testSetUp' % (
                      fi.qualname, norm(g.node(early[0]).ast)[:60] if early else ''),
                  key='setup-first:' + mname, func=fi.qualname,
                  where=ctx.where(fi, g.node(early[0]).ast) if early else ctx.where(fi, fi.node))
    rep.floor(R, n, 2, 'entry points of the per-test bracket (startTest, addSkip fallback)')


def nodes_calling_(g, pred):
    from .common import nodes_calling
    return nodes_calling(g, pred)
