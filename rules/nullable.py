"""Nullable results (contradiction rule, shared by C04.R12 and C17.R8).

A function of the package that can hand back a value on one path and ``None`` on another (falls off
its end, bare ``return``, ``return None``) states the belief "there may be no result".  Every user
of that result must share the belief: a use that needs a real value -- subscript, attribute,
iteration, ``sep.join(v)``, arithmetic, ordering, a numeric ``%`` conversion, unpacking, or handing it
to a package function whose parameter is used in one of these ways -- has to be dominated by a test
that excludes ``None`` (``v is not None``, ``if v``, ``isinstance``).  Otherwise the ``None`` path ends
in a TypeError / AttributeError inside the runner's own reporting code, i.e. inside a result
callback, and the run is aborted.

Nothing is executed: sources are found on the CFG (normal path from the entry to the exit that
passes no ``return <value>``), uses by def-use over the AST, guards by the dominating branch
literals of the use.
"""
import ast
import re

from sa.normalise import _walk_no_nested
from .common import dotted, guard_literals, node_of, norm, reaching_defs

NEEDS_VALUE_BUILTINS = {'len', 'sorted', 'list', 'tuple', 'set', 'frozenset', 'iter', 'sum', 'min', 'max',
                        'abs', 'round', 'float', 'int', 'divmod', 'enumerate', 'zip', 'reversed', 'any',
                        'all', 'next', 'dict'}
_NUMERIC_CONV = re.compile(r'%(?:\([^)]*\))?[#0\- +]*(?:\*|\d+)?(?:\.(?:\*|\d+))?[hlL]?([diouxXeEfFgGcrsa%])')


def _is_none(e):
    return e is None or (isinstance(e, ast.Constant) and e.value is None)


def mixed_return_functions(ctx):
    """qualname -> FuncInfo of the functions that return a value on one path and None on another;
    closed under ``return f(...)`` of such a function"""
    m = ctx.model
    cache = getattr(m, '_mixed_returns', None)
    if cache is not None:
        return cache
    out = {}
    funcs = [fi for fi in m.all_functions() if not fi.module.name.startswith('tests')]
    for _round in range(3):
        changed = False
        for fi in funcs:
            if fi.qualname in out:
                continue
            inner = list(_walk_no_nested(fi.node))
            if any(isinstance(n, (ast.Yield, ast.YieldFrom)) for n in inner):
                continue
            rets = [n for n in inner if isinstance(n, ast.Return)]
            vals = [r for r in rets if not _is_none(r.value)]
            if not vals:
                continue
            g = ctx.cfg(fi)
            valnodes = {n.id for n in g.nodes if isinstance(n.stmt, ast.Return) and
                        any(n.stmt is r for r in vals)}
            r = g.reach([g.entry], avoid=valnodes, include_start=True, edge_ok=lambda s, d, k: k != 'exc')
            mixed = g.exit in r
            if not mixed:
                # return <call of a mixed function>
                for rv in vals:
                    if isinstance(rv.value, ast.Call):
                        cal = ctx.cg.resolve_call(rv.value, fi)
                        if isinstance(cal, list) and cal and all(c.qualname in out for c in cal):
                            mixed = True
            if mixed:
                out[fi.qualname] = fi
                changed = True
        if not changed:
            break
    m._mixed_returns = out
    return out


def _excludes_none(lits, name):
    for e, pos in lits:
        if dotted(e) == name and pos:
            return True
        if isinstance(e, ast.Compare) and dotted(e.left) == name and len(e.ops) == 1 and \
                _is_none(e.comparators[0]):
            if isinstance(e.ops[0], (ast.IsNot, ast.NotEq)) and pos:
                return True
            if isinstance(e.ops[0], (ast.Is, ast.Eq)) and not pos:
                return True
        if isinstance(e, ast.Call) and dotted(e.func) == 'isinstance' and e.args and \
                dotted(e.args[0]) == name and pos:
            return True
    return False


def _asserted(ctx, fi, use, name):
    """an ``assert`` that excludes None for *name* on every path to the use"""
    g = ctx.cfg(fi)
    nid = node_of(g, use)
    if nid is None:
        return False
    dom = None
    for st in _walk_no_nested(fi.node):
        if isinstance(st, ast.Assert) and _excludes_none([(st.test, True)], name):
            aid = node_of(g, st)
            if aid is None:
                continue
            if dom is None:
                dom = g.dominators()
            if aid in dom.get(nid, ()):
                return True
    return False


def _short_circuit_guard(node, name, stop):
    """``v and v[0]`` / ``v[0] if v else d`` / ``... if v is not None`` inside one expression"""
    cur = node
    while getattr(cur, '_parent', None) is not None and cur is not stop:
        par = cur._parent
        if isinstance(par, ast.BoolOp) and isinstance(par.op, ast.And):
            idx = [i for i, v in enumerate(par.values) if v is cur]
            if idx and any(_excludes_none([(v, True)], name) for v in par.values[:idx[0]]):
                return True
        if isinstance(par, ast.IfExp) and par.body is cur and _excludes_none([(par.test, True)], name):
            return True
        if isinstance(par, ast.IfExp) and par.orelse is cur and _excludes_none([(par.test, False)], name):
            return True
        if isinstance(par, ast.comprehension):
            break
        if isinstance(par, ast.stmt):
            break
        cur = par
    return False


def _numeric_format(fmt, index, total):
    """does conversion number *index* of the %-format string need a number? (None: cannot tell)"""
    convs = [c for c in _NUMERIC_CONV.findall(fmt) if c != '%']
    if len(convs) != total or index >= len(convs):
        return None
    return convs[index] in 'diouxXeEfFgGc'


def needing_uses(ctx, fi, n, depth=3, seen=None):
    """why the value of expression node *n* (a Name load or a call) must not be None where it
    stands, as a list of (description, ast node); [] when it is only stored / tested / passed on to
    code outside the package"""
    par = getattr(n, '_parent', None)
    out = []
    if par is None:
        return out
    if isinstance(par, ast.Subscript) and par.value is n:
        out.append(('subscripted: %s' % norm(par), par))
    elif isinstance(par, ast.Attribute) and par.value is n:
        out.append(('attribute access: %s' % norm(par), par))
    elif isinstance(par, (ast.For, ast.comprehension)) and par.iter is n:
        out.append(('iterated', par if isinstance(par, ast.For) else n))
    elif isinstance(par, ast.Starred):
        out.append(('unpacked with *', par))
    elif isinstance(par, ast.Assign) and par.value is n and \
            any(isinstance(t, (ast.Tuple, ast.List)) for t in par.targets):
        out.append(('unpacked: %s' % norm(par)[:60], par))
    elif isinstance(par, ast.UnaryOp) and isinstance(par.op, (ast.USub, ast.UAdd, ast.Invert)):
        out.append(('arithmetic: %s' % norm(par), par))
    elif isinstance(par, ast.Compare) and any(isinstance(o, (ast.Lt, ast.LtE, ast.Gt, ast.GtE)) for o in par.ops):
        out.append(('ordered comparison: %s' % norm(par), par))
    elif isinstance(par, ast.BinOp):
        fmt = par.left if isinstance(par.op, ast.Mod) and isinstance(par.left, ast.Constant) and \
            isinstance(par.left.value, str) else None
        if fmt is not None and par.right is n:
            if _numeric_format(fmt.value, 0, 1):
                out.append(('formatted as a number: %s' % norm(par), par))
        else:
            out.append(('arithmetic: %s' % norm(par)[:60], par))
    elif isinstance(par, ast.Tuple) and isinstance(getattr(par, '_parent', None), ast.BinOp) and \
            isinstance(par._parent.op, ast.Mod) and par._parent.right is par and \
            isinstance(par._parent.left, ast.Constant) and isinstance(par._parent.left.value, str):
        idx = [i for i, e in enumerate(par.elts) if e is n][0]
        if _numeric_format(par._parent.left.value, idx, len(par.elts)):
            out.append(('formatted as a number: %s' % norm(par._parent)[:70], par._parent))
    elif isinstance(par, ast.With):
        pass
    elif isinstance(par, ast.withitem) and par.context_expr is n:
        out.append(('used as a context manager', n))
    elif isinstance(par, ast.Call) and par.func is n:
        out.append(('called', par))
    elif isinstance(par, ast.Call) and (n in par.args or any(k.value is n for k in par.keywords)):
        d = dotted(par.func)
        if isinstance(par.func, ast.Attribute) and par.func.attr == 'join' and n in par.args:
            out.append(('joined: %s' % norm(par)[:60], par))
        elif d in NEEDS_VALUE_BUILTINS and (d not in ('next', 'dict', 'int', 'float', 'round') or
                                            par.args and par.args[0] is n) and \
                not (d in ('min', 'max', 'sum', 'sorted') and False):
            out.append(('%s() of it' % d, par))
        elif depth > 0:
            cal = ctx.cg.resolve_call(par, fi)
            if isinstance(cal, list):
                for callee in cal:
                    pname = _param_for(callee, par, n)
                    if pname is None:
                        continue
                    key = (callee.qualname, pname)
                    seen = seen if seen is not None else set()
                    if key in seen:
                        continue
                    seen.add(key)
                    for why, at, chain in param_needs_value(ctx, callee, pname, depth - 1, seen):
                        out.append(('passed as %s to %s, where it is %s' % (pname, callee.qualname, why), par))
    return out


def _param_for(callee, call, argnode):
    a = callee.node.args
    names = [x.arg for x in a.posonlyargs + a.args]
    offs = 0
    if names and names[0] in ('self', 'cls') and callee.cls is not None and \
            not (isinstance(call.func, ast.Attribute) and dotted(call.func.value) == callee.cls.name):
        offs = 1
    for i, x in enumerate(call.args):
        if x is argnode:
            return names[offs + i] if offs + i < len(names) else None
    for k in call.keywords:
        if k.value is argnode:
            return k.arg if k.arg in names + [x.arg for x in a.kwonlyargs] else None
    return None


def param_needs_value(ctx, callee, pname, depth, seen):
    """unguarded uses of parameter *pname* inside *callee* that need a real value"""
    out = []
    stores = [x for x in _walk_no_nested(callee.node) if isinstance(x, ast.Name) and x.id == pname and
              isinstance(x.ctx, ast.Store)]
    if stores:
        return out          # re-bound inside: flow-insensitive reading would be wrong
    for x in _walk_no_nested(callee.node):
        if isinstance(x, ast.Name) and x.id == pname and isinstance(x.ctx, ast.Load):
            for why, at in needing_uses(ctx, callee, x, depth, seen):
                if _short_circuit_guard(x, pname, callee.node):
                    continue
                if _excludes_none(guard_literals(ctx, callee, x), pname) or \
                        _asserted(ctx, callee, x, pname):
                    continue
                out.append((why, at, callee.qualname))
    return out


def check(ctx, rep, R, scope=lambda fi: True, label=''):
    """one obligation per use site of a nullable result inside functions selected by *scope*"""
    m = ctx.model
    mixed = mixed_return_functions(ctx)
    n_sites = 0
    for fi in m.all_functions():
        if fi.module.name.startswith('tests') or not scope(fi):
            continue
        g = None
        for c in [x for x in _walk_no_nested(fi.node) if isinstance(x, ast.Call)]:
            cal = ctx.cg.resolve_call(c, fi)
            if not (isinstance(cal, list) and cal and any(t.qualname in mixed for t in cal)):
                continue
            src = [t.qualname for t in cal if t.qualname in mixed]
            n_sites += 1
            problems = []
            par = getattr(c, '_parent', None)
            # direct use inside an expression
            for why, at in needing_uses(ctx, fi, c):
                problems.append((why, at))
            # stored in a local: every load the definition reaches
            if isinstance(par, ast.Assign) and par.value is c and len(par.targets) == 1 and \
                    isinstance(par.targets[0], ast.Name):
                X = par.targets[0].id
                g = g or ctx.cfg(fi)
                for x in _walk_no_nested(fi.node):
                    if not (isinstance(x, ast.Name) and x.id == X and isinstance(x.ctx, ast.Load)):
                        continue
                    nid = node_of(g, x)
                    if nid is not None:
                        defs = reaching_defs(g, nid, X)
                        if not any(d is c for d in defs):
                            continue
                    uses = needing_uses(ctx, fi, x)
                    if not uses:
                        continue
                    if _short_circuit_guard(x, X, fi.node) or \
                            _excludes_none(guard_literals(ctx, fi, x), X) or _asserted(ctx, fi, x, X):
                        continue
                    problems += uses
            construct = '%s: result of %s' % (fi.qualname, ' / '.join(src))
            rep.check(not problems, R, construct + ' is only used where None is excluded or harmless',
                      '%s can be None (%s returns nothing on some path) but is %s without a test that '
                      'excludes None: a TypeError / AttributeError inside the runner\'s own code%s'
                      % (norm(c)[:60], ' / '.join(src), '; '.join(sorted({w for w, _ in problems}))[:300], label),
                      key='nullable:%s:%s' % (fi.qualname, norm(c)[:60]), func=fi.qualname,
                      where=ctx.where(fi, problems[0][1] if problems else c))
    return n_sites


def _phi_none_locals(fi):
    """locals bound to None in one branch of an if/else and to a real value in the other branch
    of the same statement ("there may be no value" written out): name -> [None assignment, ...]"""
    out = {}
    for st in _walk_no_nested(fi.node):
        if not (isinstance(st, ast.If) and st.orelse):
            continue

        def binds(block):
            res = {}
            for x in block:
                if isinstance(x, ast.Assign) and len(x.targets) == 1 and isinstance(x.targets[0], ast.Name):
                    res[x.targets[0].id] = x
            return res
        a, b = binds(st.body), binds(st.orelse)
        for nm in set(a) & set(b):
            na, nb = _is_none(a[nm].value), _is_none(b[nm].value)
            if na != nb:
                out.setdefault(nm, []).append(a[nm] if na else b[nm])
    return out


def check_locals(ctx, rep, R, scope=lambda fi: True, label=''):
    """the same obligation for a local that is None on one branch of an if/else and a value on the
    other (what an inlined nullable helper looks like, and what is written by hand for "absent")"""
    m = ctx.model
    n = 0
    for fi in m.all_functions():
        if fi.module.name.startswith('tests') or not scope(fi):
            continue
        phis = _phi_none_locals(fi)
        if not phis:
            continue
        g = ctx.cfg(fi)
        for X, none_defs in sorted(phis.items()):
            n += 1
            problems = []
            for x in _walk_no_nested(fi.node):
                if not (isinstance(x, ast.Name) and x.id == X and isinstance(x.ctx, ast.Load)):
                    continue
                nid = node_of(g, x)
                if nid is None:
                    continue
                defs = reaching_defs(g, nid, X)
                if not any(d is nd.value for d in defs for nd in none_defs):
                    continue
                uses = needing_uses(ctx, fi, x)
                if not uses or _short_circuit_guard(x, X, fi.node) or \
                        _excludes_none(guard_literals(ctx, fi, x), X) or _asserted(ctx, fi, x, X):
                    continue
                problems += uses
            rep.check(not problems, R, '%s: local %s (None on one branch) is only used where None is '
                      'excluded or harmless' % (fi.qualname, X),
                      'the local %s is None on one branch of an if/else but is %s without a test that '
                      'excludes None: a TypeError / AttributeError inside the runner\'s own code%s'
                      % (X, '; '.join(sorted({w for w, _ in problems}))[:300], label),
                      key='nullable-local:%s:%s' % (fi.qualname, X), func=fi.qualname,
                      where=ctx.where(fi, problems[0][1] if problems else none_defs[0]))
    return n
