"""C02 -- the verdict is 'failed' exactly when something went wrong (verdict data flow)."""
import ast

from .common import (alias_dotted, Ctx, call_name, calls_in, dotted, eval_bool, is_name, kw, node_calls,
                     nodes_calling, norm, own_calls, params, truth_test)

P = 'C02'
ACCS = ('import_errors', 'failures', 'errors')


def run(model, rep, tier):
    ctx = Ctx(model)
    r1_verdict_expression(ctx, rep)
    r2_no_lost_verdict(ctx, rep)
    r3_channels(ctx, rep)
    from . import c07
    c07.r4_fail_closed(ctx, rep, R='C02.R4')
    r5_status_plumbing(ctx, rep)
    c07.r5_channel_separation(ctx, rep, R='C02.R6')
    r7_discovery_contains_user_code(ctx, rep)
    c07.r10_report_only_after_completed_run(ctx, rep, R='C02.R8')
    # what the child reports is what the parent records: header and body agreement, header = a whole line
    c07.r1_r2_wire(ctx, rep, R1='C02.R11', R2='C02.R11')
    accumulators_never_discarded(ctx, rep, 'C02.R9')
    accumulator_roles_through_calls(ctx, rep, 'C02.R3')
    from . import lifetime
    rep.rule('C02.R10', "each run sees only its own inputs (rules/lifetime.py): no function of the package is memoised across runs (functools.lru_cache / cache), module-level containers that functions add to are emptied at the start of a run, no mutable class attribute is shared through instances (mutated in place or handed out without being re-bound per instance), and no option with a mutable argparse default is mutated in place after parsing -- a second run in the same process (other layer objects under the same names, other outcomes, other filters) must not inherit the first run's state")
    lifetime.check(ctx, rep, 'C02.R10')
    from . import robust
    robust.asserts_have_no_effects(ctx, rep, 'C02.R20', 'C02')
    rep.units['cfg'] = ctx.cfg_stats


def _final_store(ctx, fi, g):
    stores = [n for n in g.nodes if n.kind == 'stmt' and isinstance(n.ast, ast.Assign) and
              any(dotted(t) == 'self.failed' for t in n.ast.targets)]
    return stores


def _acc_of(e):
    d = dotted(e)
    if d and d.startswith('self.') and d.split('.')[-1] in ACCS and d.count('.') == 1:
        return d.split('.')[-1]
    return None


def r1_verdict_expression(ctx, rep, R='C02.R1'):
    rep.rule(R, 'the verdict computed at the end of Runner.run_tests is true whenever '
             'import_errors, failures or errors is non-empty (no other operand can mask them), is '
             'false when all of them are empty and no run-ending event was flagged, and it is the '
             'last store to self.failed on every path')
    fi = ctx.model.func('runner.Runner.run_tests')
    g = ctx.cfg(fi)
    stores = _final_store(ctx, fi, g)
    rep.check(bool(stores), R, 'Runner.run_tests stores self.failed', 'no store to self.failed',
              key='verdict:store', func=fi.qualname, where=ctx.where(fi, fi.node))
    if not stores:
        return
    # the last store post-dominates: every path to the exit passes a store after which no
    # other store follows
    last = [s for s in stores if not any(o.id in g.reach([s.id]) for o in stores)]
    ok, _ = g.every_path_passes([g.entry], [g.exit], {s.id for s in last}, include_start=True)
    rep.check(ok and len(last) == 1, R, 'one final store to self.failed on every path to the exit',
              'self.failed is not (re)computed on every path to the normal exit',
              key='verdict:final', func=fi.qualname, where=ctx.where(fi, last[0].ast if last else fi.node))
    if len(last) != 1:
        return
    # nothing that can still add to an accumulator runs after the verdict was computed
    after = g.reach([last[0].id])
    late = []
    for nid in sorted(after):
        for c in node_calls(g, nid):
            args = list(c.args) + [k.value for k in c.keywords]
            if any(_acc_of(a) for a in args) or (
                    isinstance(c.func, ast.Attribute) and _acc_of(c.func.value) and
                    c.func.attr in ('append', 'extend', 'insert')):
                late.append((nid, c))
    rep.check(not late, R, 'the verdict is computed after everything that can record a failure',
              '%s can still add to the accumulators after self.failed was computed: such a failure '
              '(e.g. a tearDown error of a left-over layer) is printed but does not make the verdict '
              '"failed"' % [norm(c)[:60] for n_, c in late], key='verdict:too-early',
              func=fi.qualname, where=ctx.where(fi, late[0][1]) if late else '')
    expr = last[0].ast.value
    if isinstance(expr, ast.Call) and dotted(expr.func) == 'bool' and len(expr.args) == 1:
        expr = expr.args[0]
    flags = g.flag_names()
    for acc in ACCS:
        v = eval_bool(expr, lambda e, acc=acc: True if _acc_of(e) == acc else None)
        rep.check(v is True, R, 'non-empty %s forces the verdict "failed"' % acc,
                  'the verdict expression %s is not necessarily true when self.%s is non-empty '
                  '(masked or missing operand)' % (norm(expr), acc), key='verdict:' + acc,
                  func=fi.qualname, where=ctx.where(fi, last[0].ast))

    def quiet(e):
        if _acc_of(e):
            return False
        if isinstance(e, ast.Name) and e.id in flags:
            return False
        return None
    v = eval_bool(expr, quiet)
    rep.check(v is False, R, 'nothing wrong (empty accumulators, no flag) gives "not failed"',
              'the verdict expression %s can be true although nothing went wrong (operand that is '
              'neither an accumulator nor a locally set flag)' % norm(expr), key='verdict:only-if',
              func=fi.qualname, where=ctx.where(fi, last[0].ast))
    rep.floor(R, len(stores), 1, 'verdict stores')


def r2_no_lost_verdict(ctx, rep, R='C02.R2'):
    rep.rule(R, 'no lost verdict: when the run is ended by EndRun (a failure that was debugged '
             'post-mortem never reaches the accumulators) the final verdict is "failed" on every '
             'path from that handler; a store of True to self.failed is never overwritten by a '
             'weaker value')
    fi = ctx.model.func('runner.Runner.run_tests')
    from .c01 import _run_tests_cfg
    g = _run_tests_cfg(ctx, fi)
    stores = _final_store(ctx, fi, g)
    hs = [n.id for n in g.nodes if n.kind == 'handler' and n.ast.type is not None and
          'EndRun' in norm(n.ast.type)]
    rep.check(bool(hs) and bool(stores), R, 'EndRun handler and verdict store found',
              'EndRun handler: %d, verdict stores: %d' % (len(hs), len(stores)), key='endrun:sites',
              func=fi.qualname, where=ctx.where(fi, fi.node))
    if not hs or not stores:
        return
    last = [s for s in stores if not any(o.id in g.reach([s.id]) for o in stores)]
    sts = g.reach_flags(hs, include_start=True, states=True)
    bad = None
    n = 0
    for nid, st in sts:
        if nid not in [s.id for s in last]:
            continue
        n += 1
        env = dict(st)
        expr = g.node(nid).ast.value

        def atom(e):
            if isinstance(e, ast.Name) and e.id in env:
                return bool(env[e.id])
            if isinstance(e, ast.Call) and dotted(e.func) == 'bool' and len(e.args) == 1:
                return eval_bool(e.args[0], atom)
            return None
        if eval_bool(expr, atom) is not True:
            bad = (nid, env)
    # constant True stores that a later store overwrites
    dead = []
    for s in stores:
        if isinstance(s.ast.value, ast.Constant) and s.ast.value.value is True:
            if any(o.id in g.reach([s.id]) for o in last if o.id != s.id):
                # overwritten: only fine when the later value is provably true on those paths
                dead.append(s)
    rep.check(bad is None and n > 0 and not dead, R,
              'after EndRun the final verdict is "failed" (%d path states)' % n,
              'the verdict can be "not failed" after the run was ended by post-mortem debugging '
              '(flags on the path: %s)%s' % (bad[1] if bad else '',
                                             '; dead store self.failed = True' if dead else ''),
              key='endrun:verdict', func=fi.qualname, where=ctx.where(fi, g.node(hs[0]).ast))


def result_transfers(ctx, rep, R):
    """what a layer run recorded in its TestResult reaches the run-wide accumulators: on every path
    of every --repeat iteration, and completely (shared by C02.R3, C04.R6, C12.R1)"""
    m = ctx.model
    fi = m.func('runner.run_tests')
    g = ctx.cfg(fi)
    res = None
    for n in ast.walk(fi.node):
        if isinstance(n, ast.Assign) and isinstance(n.value, ast.Call) and \
                (dotted(n.value.func) or '').endswith('TestResult'):
            res = n.targets[0].id
    from .common import repeat_loop
    _rl = repeat_loop(ctx, fi, g)
    loops = [_rl] if _rl is not None else []
    want = [('failures', 'failures'), ('failures', 'unexpectedSuccesses'), ('errors', 'errors')]
    cnt = 0
    for acc, attr in want:
        from .common import sources_of
        ext = nodes_calling(g, lambda c: isinstance(c.func, ast.Attribute) and
                            c.func.attr in ('extend', 'append') and is_name(c.func.value, acc) and
                            c.args and ('%s.%s' % (res, attr)) in sources_of(c.args[0], {}))
        ok = bool(ext) and bool(loops) and acc in params(fi)
        if ok:
            h = loops[0]
            body = [d for d, k in g.succ[h.id] if k == 'true']
            r = g.reach(body, avoid=set(ext), include_start=True)
            ok = h.id not in r and g.exit not in r
            cnt += 1
        rep.check(ok, R, 'run_tests: %s.extend(%s.%s) on every path of an iteration' % (acc, res, attr),
                  'the %s of a layer run do not reach the %s accumulator on every path' % (attr, acc),
                  key='channel:%s<-%s' % (acc, attr), func=fi.qualname, where=ctx.where(fi, fi.node))
        # ... and the transfer is complete: every entry of the result list is handed over (a
        # comprehension / generator may re-shape the entries but must not filter them)
        for nid in ext:
            for c in node_calls(g, nid):
                if not (isinstance(c.func, ast.Attribute) and c.func.attr in ('extend', 'append') and
                        is_name(c.func.value, acc) and c.args):
                    continue
                a0 = c.args[0]
                filt = [norm(i) for x in ast.walk(a0) if isinstance(x, ast.comprehension) for i in x.ifs]
                if isinstance(a0, ast.Call) and call_name(a0) == 'filter':
                    filt.append(norm(a0))
                from sa.variance import path_literals
                cond = [norm(e) for e, _p in path_literals(c, loops[0].stmt if loops else fi.node)
                        if res in norm(e) or acc in norm(e)]
                rep.check(not filt and not cond, R, 'run_tests: every entry of %s.%s is handed to %s' % (
                    res, attr, acc), 'the transfer of %s.%s into %s is filtered (%s): result events that '
                    'the filter rejects -- e.g. a second failure of the same test that compares equal -- '
                    'are neither counted nor listed' % (res, attr, acc, filt + cond),
                    key='channel-complete:%s<-%s' % (acc, attr), func=fi.qualname, where=ctx.where(fi, c))
    rep.floor(R, cnt, 3, 'result -> accumulator transfers')


def r3_channels(ctx, rep, R='C02.R3'):
    rep.rule(R, 'every bad-outcome channel reaches an accumulator the verdict reads: test '
             'failures / unexpected successes -> failures, test errors -> errors (function '
             'run_tests, every iteration); layer setUp/tearDown exceptions -> errors '
             '(handle_layer_failure, not for NotImplementedError); import failures -> '
             'StartUpFailure -> layer None -> Runner.import_errors; a missing layer in a child -> '
             'Runner.errors')
    m = ctx.model
    result_transfers(ctx, rep, R)
    # layer failures
    from . import c04
    c04.r1_r2_escape(ctx, rep, R1=R, R2=R)
    c04.r3_recorder(ctx, rep, R=R)
    c04.errors_chain(ctx, rep, R)
    # NotImplementedError from tearDown is not an error: the handler does not record
    td = m.func('runner.tear_down_unneeded')
    gt = ctx.cfg(td)
    nie = [n for n in gt.nodes if n.kind == 'handler' and n.ast.type is not None and
           'NotImplementedError' in norm(n.ast.type)]
    for n in ast.walk(td.node):
        if isinstance(n, ast.ExceptHandler) and n.type is not None and \
                'NotImplementedError' in norm(n.type):
            rec = [c for b in n.body for c in ast.walk(b) if isinstance(c, ast.Call) and (
                call_name(c) == 'handle_layer_failure' or (
                    isinstance(c.func, ast.Attribute) and c.func.attr in ('append', 'extend') and
                    dotted(c.func.value) == 'errors'))]
            rep.check(not rec, R, 'tearDown raising NotImplementedError is not recorded as an error',
                      'the NotImplementedError handler records a failure', key='nie:not-error',
                      func=td.qualname, where=ctx.where(td, n))
    # import failures
    fs = m.func('find.find_suites')
    ok_imp = False
    for n in ast.walk(fs.node):
        if isinstance(n, ast.Try) and any(call_name(c) == 'import_name' for b in n.body
                                          for c in ast.walk(b) if isinstance(c, ast.Call)):
            for h in n.handlers:
                broad = h.type is None or norm(h.type) in ('BaseException', 'Exception')
                builds = any(isinstance(x, ast.Assign) and isinstance(x.value, ast.Call) and
                             call_name(x.value) == 'StartUpFailure' for b in h.body for x in ast.walk(b))
                if broad and builds:
                    ok_imp = True
    gs = ctx.cfg(fs)
    ys = [n.id for n in gs.nodes if n.kind == 'stmt' and any(isinstance(x, ast.Yield) for x in ast.walk(n.ast))]
    rep.check(ok_imp and bool(ys), R, 'find_suites: a failing import becomes a StartUpFailure suite '
              'that is yielded', 'import errors are not turned into StartUpFailure entries',
              key='import:startup-failure', func=fs.qualname, where=ctx.where(fs, fs.node))
    tf = m.func('find.tests_from_suite')
    ok_none = False
    from .common import guard_literals
    for y in ast.walk(tf.node):
        if isinstance(y, ast.Yield) and isinstance(y.value, ast.Tuple) and len(y.value.elts) == 2 and \
                isinstance(y.value.elts[1], ast.Constant) and y.value.elts[1].value is None:
            if any(pos and 'StartUpFailure' in norm(e) and 'isinstance' in norm(e)
                   for e, pos in guard_literals(ctx, tf, y)):
                ok_none = True
    rep.check(ok_none, R, 'tests_from_suite: StartUpFailure is yielded under layer None',
              'StartUpFailure entries are not routed to the None layer', key='import:layer-none',
              func=tf.qualname, where=ctx.where(tf, tf.node))
    fg = m.func('find.Find.global_setup')
    from .common import sources_of, local_assignments
    pops = [n for n in ast.walk(fg.node) if isinstance(n, ast.Call) and
            isinstance(n.func, ast.Attribute) and n.func.attr == 'pop' and n.args and
            isinstance(n.args[0], ast.Constant) and n.args[0].value is None]
    stores = [n for n in ast.walk(fg.node) if isinstance(n, ast.Assign) and any(
        (alias_dotted(fg.node, t) or '') == 'self.runner.import_errors' for t in n.targets)]
    okf = len(pops) == 1 and len(stores) == 1
    if okf:
        # every name / attribute the popped value is bound to (chained assignment included)
        held = {dotted(t) for n in ast.walk(fg.node) if isinstance(n, ast.Assign) and n.value is pops[0]
                for t in n.targets if dotted(t)}
        la = local_assignments(fg.node)
        src = sources_of(stores[0].value, la)
        okf = bool(held & src)
    rep.check(okf, R, 'Find.global_setup: tests.pop(None) -> Runner.import_errors',
              'the None layer (import failures) is not stored in Runner.import_errors',
              key='import:runner', func=fg.qualname, where=ctx.where(fg, fg.node))
    # missing layer in a child
    ff = m.func('filter.Filter.global_setup')
    okm = False
    for n in ast.walk(ff.node):
        if isinstance(n, ast.If) and isinstance(n.test, ast.UnaryOp) and isinstance(n.test.op, ast.Not):
            if any(isinstance(c, ast.Call) and isinstance(c.func, ast.Attribute) and
                   c.func.attr == 'append' and (dotted(c.func.value) or '').endswith('runner.errors')
                   for b in n.body for c in ast.walk(b)):
                okm = True
    rep.check(okm, R, 'Filter.global_setup: a child that cannot find its layer records an error',
              'the missing-layer case does not append to Runner.errors', key='child:missing-layer',
              func=ff.qualname, where=ctx.where(ff, ff.node))


def r5_status_plumbing(ctx, rep, R='C02.R5'):
    rep.rule(R, 'status plumbing: Runner.failed starts True; only Runner.__init__, Runner.run_tests '
             'and Listing.global_setup store it; Runner.run returns early only under options.fail '
             '(leaving it True); run_internal returns runner.failed; run() exits with int(failed)')
    m = ctx.model
    allowed = {'runner.Runner.__init__': True, 'runner.Runner.run_tests': None,
               'listing.Listing.global_setup': False}
    n = 0
    for fi in m.all_functions():
        for node in ast.walk(fi.node):
            if isinstance(node, ast.Assign):
                for t in node.targets:
                    if isinstance(t, ast.Attribute) and t.attr == 'failed':
                        n += 1
                        ok = fi.qualname in allowed
                        if ok and allowed[fi.qualname] is not None:
                            ok = isinstance(node.value, ast.Constant) and \
                                node.value.value is allowed[fi.qualname]
                        rep.check(ok, R, '%s stores .failed = %s' % (fi.qualname, norm(node.value)[:40]),
                                  'unexpected store to the verdict: %s in %s' % (norm(node), fi.qualname),
                                  key='failed=@' + fi.qualname, func=fi.qualname,
                                  where=ctx.where(fi, node))
            if isinstance(node, ast.Call) and dotted(node.func) == 'setattr' and len(node.args) >= 2 \
                    and isinstance(node.args[1], ast.Constant) and node.args[1].value == 'failed':
                rep.bad(R, '%s: setattr(..., "failed")' % fi.qualname, 'dynamic store to the verdict',
                        key='setattr-failed@' + fi.qualname, func=fi.qualname)
    rep.floor(R, n, 3, 'verdict stores')
    # the listing store is reached only when listing is active (feature constructor)
    ri = m.func('__init__.run_internal')
    rets = [x for x in ast.walk(ri.node) if isinstance(x, ast.Return)]
    runner_var = None
    for x in ast.walk(ri.node):
        if isinstance(x, ast.Assign) and isinstance(x.value, ast.Call) and \
                (dotted(x.value.func) or '').endswith('Runner'):
            runner_var = x.targets[0].id
    calls_run = [c for c in own_calls(ri.node) if dotted(c.func) == '%s.run' % runner_var]
    ok = len(rets) == 1 and dotted(rets[0].value) == '%s.failed' % runner_var and len(calls_run) == 1
    rep.check(ok, R, 'run_internal: runner.run(); return runner.failed',
              'run_internal does not return the verdict of the runner it ran', key='run_internal',
              func=ri.qualname, where=ctx.where(ri, ri.node))
    rn = m.func('__init__.run')
    ex = [c for c in own_calls(rn.node) if m.resolve_dotted(rn.module, dotted(c.func)) == 'sys.exit']
    ok = False
    if len(ex) == 1 and ex[0].args:
        a = ex[0].args[0]
        if isinstance(a, ast.Call) and dotted(a.func) in ('int', 'bool') and a.args:
            a = a.args[0]
        if isinstance(a, ast.Call) and call_name(a) == 'run_internal':
            ok = True                 # the call written directly into the exit status
        if isinstance(a, ast.Name):
            for x in ast.walk(rn.node):
                if isinstance(x, ast.Assign) and is_name(x.targets[0], a.id) and \
                        isinstance(x.value, ast.Call) and call_name(x.value) == 'run_internal':
                    ok = True
    rep.check(ok, R, 'run: sys.exit(int(run_internal(...)))', 'run() does not exit with the verdict',
              key='run:exit', func=rn.qualname, where=ctx.where(rn, rn.node))
    # Runner.run: the only return before run_tests is under options.fail
    fr = m.func('runner.Runner.run')
    g = ctx.cfg(fr)
    rets = [n for n in g.nodes if n.kind == 'stmt' and isinstance(n.ast, ast.Return)]
    bad = []
    for r in rets:
        conds = []
        node = r.ast
        while getattr(node, '_parent', None) is not None and node._parent is not fr.node:
            par = node._parent
            if isinstance(par, ast.If) and node in par.body:
                conds.append(norm(par.test))
            node = par
        if not any(c.endswith('options.fail') for c in conds):
            bad.append(norm(r.ast))
    rep.check(not bad, R, 'Runner.run returns early only under options.fail',
              'early return(s) %s skip the run without the fail flag' % bad, key='Runner.run:return',
              func=fr.qualname, where=ctx.where(fr, fr.node))
    # a non-listing run always recomputes the verdict: run_tests called under do_run_tests only
    rt = nodes_calling(g, lambda c: dotted(c.func) == 'self.run_tests')
    conds_ok = False
    for c in own_calls(fr.node):
        if dotted(c.func) == 'self.run_tests':
            node = c
            cs = []
            while getattr(node, '_parent', None) is not None and node._parent is not fr.node:
                par = node._parent
                if isinstance(par, ast.If) and any(node is x or node in ast.walk(x) for x in par.body):
                    cs.append(norm(par.test))
                node = par
            conds_ok = cs == ['self.do_run_tests']
    rep.check(bool(rt) and conds_ok, R, 'Runner.run calls run_tests under do_run_tests only',
              'run_tests is skipped under another condition (the verdict would stay at its initial '
              'value)', key='Runner.run:do_run_tests', func=fr.qualname, where=ctx.where(fr, fr.node))
    writers = []
    for fi in m.all_functions():
        for node in ast.walk(fi.node):
            if isinstance(node, ast.Attribute) and node.attr == 'do_run_tests' and \
                    isinstance(node.ctx, ast.Store):
                writers.append(fi.qualname)
    rep.check(sorted(writers) == ['listing.Listing.global_setup', 'runner.Runner.__init__'], R,
              'do_run_tests is cleared only by the Listing feature', 'writers: %s' % sorted(writers),
              key='do_run_tests:writers', func='runner.Runner.run')


def r7_discovery_contains_user_code(ctx, rep, R='C02.R7'):
    """'a test module could not be imported' must end as an import failure (-> verdict), whatever
    the module raises while it is imported or while its test_suite() runs -- including
    SystemExit (a script-like test module ending in sys.exit(main())), which is not an Exception.
    Only KeyboardInterrupt may end discovery."""
    rep.rule(R, 'discovery contains user code: of everything the import of a test module or the '
             'call of its test_suite() may raise (any Exception, SystemExit, KeyboardInterrupt) '
             'only KeyboardInterrupt can leave find_suites; the rest becomes a StartUpFailure')
    from sa.escape import Escape
    from sa.cfg import T_exact, toks_str
    fs = ctx.model.func('find.find_suites')
    toks = frozenset([T_exact('Exception'), T_exact('SystemExit'), T_exact('KeyboardInterrupt')])
    sites = []

    def src(call, fi):
        f = call.func
        user = call_name(call) == 'import_name' or \
            (isinstance(f, ast.Call) and call_name(f) == 'getattr') or \
            (isinstance(f, ast.Attribute) and f.attr == 'loadTestsFromModule')
        if user:
            if call not in sites:
                sites.append(call)
            return toks
        return None
    e = Escape(ctx, ['find.find_suites'], src, branch=None)
    got = e.tokens('find.find_suites')
    rep.floor(R, len(sites), 2, 'user-code call sites in find_suites (import, test_suite())')
    extra = sorted(c for _k, c in got if c != 'KeyboardInterrupt')
    g = e.cfg('find.find_suites')
    path = None
    for nid, ts in g.escape_sources:
        if any(c in extra for _, c in ts):
            p = g.path([g.entry], nid, include_start=True)
            if p:
                path = g.describe_path(p) + ['-> raises %s out of find_suites' % toks_str(ts)]
                break
    rep.check(not extra, R, 'find_suites: escaping %s' % toks_str(got),
              'an exception raised while a test module is imported (or its test_suite() runs) '
              'leaves find_suites instead of becoming an import failure: %s -- e.g. a module that '
              'calls sys.exit() ends the run with the module\'s own exit status' % extra,
              key='find_suites escapes %s' % extra, func=fs.qualname, where=ctx.where(fs, fs.node),
              path=path)


# ---------------------------------------------------------------------------------------------
# R9 -- what was recorded stays recorded

RUNNER_ACCS = ('errors', 'failures', 'import_errors', 'skipped')
# who may bind an accumulator of the Runner (one reason each)
ACC_BINDERS = {
    ('runner.Runner.__init__', 'errors'): 'created empty',
    ('runner.Runner.__init__', 'failures'): 'created empty',
    ('runner.Runner.__init__', 'import_errors'): 'created empty',
    ('runner.Runner.__init__', 'skipped'): 'created empty',
    ('find.Find.global_setup', 'import_errors'): 'the start-up failures found by discovery (before anything else is recorded there)',
}


def _runner_acc(ctx, fi, e):
    """accumulator name when *e* denotes <the Runner>.<accumulator>"""
    d = dotted(e)
    if not d or '.' not in d:
        return None
    recv, attr = d.rsplit('.', 1)
    if attr not in RUNNER_ACCS:
        return None
    owner = fi
    while owner is not None and owner.cls is None:
        owner = owner.parent
    in_runner = owner is not None and owner.cls.qualname == 'runner.Runner'
    if recv == 'self' and in_runner:
        return attr
    if recv in ('runner', 'self.runner'):
        return attr
    return None


def accumulators_never_discarded(ctx, rep, R):
    rep.rule(R, 'what was recorded stays recorded: the Runner\'s accumulators (errors, failures, '
             'import_errors, skipped) are bound only where they are created (who-may-bind table) and '
             'nothing removes entries from them (clear / pop / remove / del / slice assignment) -- an '
             'error recorded before the layer loop (a child that cannot find its layer, an import '
             'failure) must still be there when the verdict is computed and the report written')
    m = ctx.model
    n = 0
    for fi in m.all_functions():
        if fi.module.name.startswith('tests'):
            continue
        for x in ast.walk(fi.node):
            targets = []
            if isinstance(x, ast.Assign):
                for t in x.targets:
                    targets += list(t.elts) if isinstance(t, (ast.Tuple, ast.List)) else [t]
            elif isinstance(x, (ast.AugAssign, ast.AnnAssign)):
                targets = [x.target]
            elif isinstance(x, ast.Delete):
                targets = list(x.targets)
            for t in targets:
                acc = _runner_acc(ctx, fi, t)
                what = 're-bound'
                if acc is None and isinstance(t, ast.Subscript):
                    acc = _runner_acc(ctx, fi, t.value)
                    what = 'entries replaced / deleted (%s)' % norm(t)
                if acc is None:
                    continue
                if isinstance(x, ast.AugAssign) and isinstance(x.op, ast.Add) and what == 're-bound':
                    continue            # += only adds
                n += 1
                ok = what == 're-bound' and isinstance(x, ast.Assign) and (fi.qualname, acc) in ACC_BINDERS
                rep.check(ok, R, '%s binds %s' % (fi.qualname, acc),
                          'the accumulator %s of the Runner is %s in %s: outcomes recorded before this '
                          'statement are dropped from the verdict, the totals and the report' % (
                              acc, what, fi.qualname), key='acc-bind:%s:%s' % (fi.qualname, acc),
                          func=fi.qualname, where=ctx.where(fi, x),
                          detail=ACC_BINDERS.get((fi.qualname, acc), ''))
            if isinstance(x, ast.Call) and isinstance(x.func, ast.Attribute) and \
                    x.func.attr in ('clear', 'pop', 'remove', '__delitem__', 'sort', 'reverse'):
                acc = _runner_acc(ctx, fi, x.func.value)
                if acc is not None and x.func.attr not in ('sort', 'reverse'):
                    n += 1
                    rep.check(False, R, '%s: %s' % (fi.qualname, norm(x)),
                              'entries are removed from the accumulator %s of the Runner (%s)' % (acc, norm(x)),
                              key='acc-remove:%s:%s' % (fi.qualname, acc), func=fi.qualname,
                              where=ctx.where(fi, x))
    rep.floor(R, n, 5, 'binding sites of the Runner accumulators')


# ---------------------------------------------------------------------------------------------
# the accumulators keep their roles on the way down to the subprocess reader

ROLE_PARAMS = ('failures', 'errors', 'skipped', 'import_errors')


def _bind_positional(callee, args, keywords=()):
    """parameter name -> argument expression for a plain positional / keyword call"""
    a = callee.node.args
    names = [x.arg for x in a.posonlyargs + a.args]
    if names and names[0] in ('self', 'cls') and callee.cls is not None:
        names = names[1:]
    out = {}
    for nm, v in zip(names, args):
        out[nm] = v
    for k in keywords:
        if k.arg:
            out[k.arg] = k.value
    required = len(names) - len(a.defaults)
    arity_ok = not any(isinstance(x, ast.Starred) for x in args) and \
        len(args) <= len(names) and all(nm in out for nm in names[:required])
    return out, arity_ok


def accumulator_roles_through_calls(ctx, rep, R):
    """failures stay failures, errors stay errors: at every hand-over of the Runner's accumulators
    (Runner.run_tests -> run_layer / resume_tests -> Thread(target=spawn_layer_in_subprocess,
    args=...) -> run_tests) the argument bound to a parameter named failures / errors / skipped is
    the caller's value of the same role, and a Thread's args tuple fits the target's signature"""
    m = ctx.model
    n = 0
    for fi in m.all_functions():
        if fi.module.name != 'runner':
            continue
        owner = fi
        while owner is not None and owner.cls is None:
            owner = owner.parent
        in_runner = owner is not None and owner.cls.qualname == 'runner.Runner'
        cps = [x.arg for x in fi.node.args.posonlyargs + fi.node.args.args]
        for c in own_calls(fi.node):
            sites = []
            r = ctx.cg.resolve_call(c, fi)
            if isinstance(r, list) and len(r) == 1 and r[0].module.name == 'runner' and \
                    r[0].name != '__init__':
                sites.append((r[0], list(c.args), list(c.keywords), c))
            if (m.resolve_dotted(fi.module, dotted(c.func)) or '') == 'threading.Thread':
                tgt, targs = kw(c, 'target'), kw(c, 'args')
                if tgt is not None and isinstance(targs, ast.Tuple) and dotted(tgt):
                    t = m.lookup(m.resolve_dotted(fi.module, dotted(tgt)))
                    if t is not None and hasattr(t, 'node') and isinstance(t.node, ast.FunctionDef):
                        sites.append((t, list(targs.elts), [], c))
            for callee, args, kws, node in sites:
                bound, arity_ok = _bind_positional(callee, args, kws)
                roles = [p_ for p_ in ROLE_PARAMS if p_ in bound]
                if not roles:
                    continue
                n += 1
                wrong = []
                for p_ in roles:
                    d = dotted(bound[p_])
                    ok = (d == p_ and p_ in cps) or (d == 'self.' + p_ and in_runner)
                    if not ok:
                        # a fresh list of the caller's own (e.g. the unused import_errors of a
                        # subprocess run) is not one of the Runner's accumulators in a wrong role
                        if d is not None and (d.split('.')[-1] in ROLE_PARAMS):
                            wrong.append('%s=%s' % (p_, d))
                is_thread = node is not None and (m.resolve_dotted(fi.module, dotted(node.func)) or '') == 'threading.Thread'
                rep.check(not wrong and (arity_ok or not is_thread), R,
                          '%s -> %s: accumulators keep their roles (%s)' % (fi.qualname, callee.name, ', '.join(roles)),
                          '%s hands %s to %s%s: what the callee records as one kind of outcome lands in '
                          'the accumulator of another kind (an error of a layer subprocess counted as '
                          'skipped leaves the verdict "passed")' % (
                              fi.qualname, ', '.join(wrong) or 'its accumulators', callee.qualname,
                              '' if arity_ok or not is_thread else ' with an args tuple that does not fit '
                              'the target\'s signature (the thread dies with a TypeError, the layer never '
                              'reports)'),
                          key='acc-roles:%s->%s' % (fi.qualname, callee.name), func=fi.qualname,
                          where=ctx.where(fi, node))
    rep.floor(R, n, 4, 'hand-overs of the accumulators')
