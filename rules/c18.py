"""C18 -- interpreter-global state changed for a run is restored afterwards (pairing rules)."""
import ast

from . import tsrules
from .common import (AnyCall, Ctx, call_name, calls_in, dotted, is_name, node_calls, nodes_calling,
                     norm, own_calls, params)

P = 'C18'

# mutator (canonical call) -> getters whose value, saved beforehand, must be what is put back
CALL_MUTATORS = {
    'gc.set_threshold': ('gc.get_threshold',),
    'gc.set_debug': ('gc.get_debug',),
    'sys.settrace': ('sys.gettrace',),
    'threading.settrace': ('threading.gettrace', 'threading._trace_hook'),
    'sys.setprofile': ('sys.getprofile',),
    'threading.setprofile': ('threading.getprofile', 'threading._profile_hook'),
    'sys.setrecursionlimit': ('sys.getrecursionlimit',),
    'sys.setswitchinterval': ('sys.getswitchinterval',),
}
# attribute stores on library modules: the previous value of the same attribute must be saved
ATTR_MUTATORS = ('traceback.format_exception', 'traceback.print_exception', 'sys.settrace',
                 'traceback.print_exc', 'traceback.format_exc', 'sys.excepthook',
                 'sys.displayhook', 'threading.excepthook')
SETUP_HOOKS = ('global_setup', 'late_setup', 'layer_setup')
TEARDOWN_HOOKS = ('early_teardown', 'global_teardown')


def run(model, rep, tier):
    ctx = Ctx(model)
    rep.assume('what cProfile.Profile.disable() restores at C level, state changed by the tests '
               'themselves and a teardown hook that itself raises are outside the claim')
    r1_teardown_in_finally(ctx, rep)
    r2_save_mutate_restore(ctx, rep)
    r3_warnings(ctx, rep)
    rep.rule('C18.R4', 'sys.stdout / sys.stderr are the original objects after every test on every '
             'result-event sequence, and only the tabulated functions ever assign them')
    tsrules.streams_restored(ctx, rep, 'C18.R4')
    from . import c13
    c13.r4_who_may_assign(ctx, rep, R='C18.R4')
    tsrules.record_units(rep, tsrules.exploration(ctx))
    r5_stray_mutators(ctx, rep)
    r6_restore_before_fallible_teardown(ctx, rep)
    rep.rule('C18.R7', 'exception exit through a per-test layer hook: a layer\'s testSetUp / '
             'testTearDown is user code called from the result callbacks; when it raises, the '
             'exception leaves the callback and the run (the drivers call startTest outside their '
             'try and stopTest as their finally).  On every abstract path the std streams are the '
             'original objects at each such call, unless the callback itself handles the exception '
             'and restores them')
    tsrules.streams_when_hook_raises(ctx, rep, 'C18.R7')
    r8_trace_api_table(ctx, rep)
    from . import robust
    robust.asserts_have_no_effects(ctx, rep, 'C18.R20', 'C18')
    rep.units['cfg'] = ctx.cfg_stats


def r1_teardown_in_finally(ctx, rep, R='C18.R1'):
    rep.rule(R, 'Runner.run: once the test phase has begun, every exit -- normal or by exception -- '
             'passes the early_teardown and the global_teardown loop over all features (reverse '
             'registration order); both hooks are called on every feature')
    fi = ctx.model.func('runner.Runner.run')

    def quiet(node):
        # only the test phase is assumed to raise here
        return 'run_tests' not in norm(node)
    from .common import inlined
    from sa.cfg import build_cfg
    runnode = inlined(ctx, fi)
    g = build_cfg(runnode, ctx.hier, AnyCall(quiet_cleanup=True, quiet=quiet), fi.module,
                  noreturn=ctx.noreturn_pred(fi), name=fi.qualname)
    rt = nodes_calling(g, lambda c: dotted(c.func) == 'self.run_tests')
    n = 0
    for hook in TEARDOWN_HOOKS:
        hs = nodes_calling(g, lambda c, hook=hook: isinstance(c.func, ast.Attribute) and
                           c.func.attr == hook)
        ok = bool(rt) and bool(hs)
        w = None
        heads = [x.id for x in g.nodes if x.kind == 'for' and any(h in g.loop_nodes(x.id) for h in hs)]
        if ok:
            # from the test phase (including its exceptional exit) to any exit of the function:
            # the loop over the features that calls the hook is passed (it may have no feature)
            ok, w = g.every_path_passes(rt, [g.exit, g.raise_exit], set(heads))
            ok = ok and bool(heads)
        n += len(hs)
        rep.check(ok, R, 'Runner.run: feature.%s() on every exit after run_tests' % hook,
                  'an exit of Runner.run after the test phase skips %s (e.g. when run_tests raises): '
                  'interpreter state changed by the features stays changed' % hook,
                  key='finally:' + hook, func=fi.qualname, where=ctx.where(fi, fi.node),
                  path=g.describe_path(g.path(rt, w, avoid=set(heads)) or []) if w is not None else None)
        # the loop covers all features, unconditionally
        for h in hs[:1]:
            st = g.node(h).ast
            loop = None
            node = st
            while getattr(node, '_parent', None) is not None and node._parent is not runnode:
                node = node._parent
                if isinstance(node, ast.For):
                    loop = node
                    break
            okl = loop is not None and norm(loop.iter) in ('reversed(self.features)',
                                                          'self.features[::-1]') and \
                not any(isinstance(x, (ast.If, ast.Break, ast.Continue, ast.Try)) for x in ast.walk(loop))
            rep.check(okl, R, '%s loop: every feature, reverse order, unconditional' % hook,
                      'the %s loop does not cover all features in reverse order' % hook,
                      key='loop:' + hook, func=fi.qualname, where=ctx.where(fi, st))
    rep.floor(R, n, 2, 'teardown call sites')
    # one test phase (how it is protected -- try/finally, except BaseException + else -- is decided
    # by the path obligations above, not by the spelling)
    rep.check(len(rt) >= 1 and len({id(g.node(x).ast) for x in rt}) == 1, R,
              'one run_tests call site in Runner.run', 'found %d run_tests call sites'
              % len({id(g.node(x).ast) for x in rt}), key='try', func=fi.qualname,
              where=ctx.where(fi, fi.node))


def _hook_methods(ctx, cls, names):
    """methods of a feature class reached by Runner through the hook *names*, including the
    helpers they call on self / on objects they created (one level)"""
    m = ctx.model
    out = []
    for nm in names:
        f = cls.methods.get(nm)
        if f is not None:
            out.append(f)
    return out


def _callees_one_level(ctx, fi):
    """FuncInfos called from *fi* via self.x.m() / self.m() where the target class is in the package"""
    m = ctx.model
    out = []
    from .common import local_assignments
    la = local_assignments(fi.node)

    def own_object(e):
        d = dotted(e) or ''
        if d.startswith('self'):
            return True
        # a local that holds an object of a package class just created, or an alias of self.<x>
        if isinstance(e, ast.Name):
            vals = [v for v in la.get(e.id, []) if isinstance(v, ast.AST)]
            return bool(vals) and all(
                (dotted(v) or '').startswith('self.') or
                (isinstance(v, ast.Call) and any(ci.name == (dotted(v.func) or '').split('.')[-1] and
                                                 ci.module is fi.module for ci in m.all_classes()))
                for v in vals)
        return False
    for c in own_calls(fi.node):
        if isinstance(c.func, ast.Attribute):
            for ci in m.all_classes():
                if ci.module is fi.module and c.func.attr in ci.methods and \
                        not c.func.attr.startswith('__') and own_object(c.func.value):
                    out.append(ci.methods[c.func.attr])
    return out


def _mutations(ctx, fi):
    """[(kind, canonical, node)] of catalogued mutations in one function"""
    m = ctx.model
    out = []
    for n in ast.walk(fi.node):
        if isinstance(n, ast.Call):
            d = m.resolve_dotted(fi.module, dotted(n.func)) if dotted(n.func) else None
            if d in CALL_MUTATORS:
                out.append(('call', d, n))
        if isinstance(n, ast.Assign):
            for t in n.targets:
                d = m.resolve_dotted(fi.module, dotted(t)) if isinstance(t, ast.Attribute) and dotted(t) else None
                if d in ATTR_MUTATORS:
                    out.append(('store', d, n))
    return out


def _saved_attrs(ctx, fi, getters, module_consts):
    """{attr or const name: getter} for ``self.x = <getter>()`` / ``self.x = <module attr>``"""
    m = ctx.model
    out = {}
    for n in ast.walk(fi.node):
        if isinstance(n, ast.Assign) and len(n.targets) == 1 and \
                isinstance(n.targets[0], ast.Attribute) and is_name(n.targets[0].value, 'self'):
            v = n.value
            d = None
            if isinstance(v, ast.Call) and dotted(v.func):
                d = m.resolve_dotted(fi.module, dotted(v.func))
                # a package helper that returns the getter's value
                r = m.lookup(d)
                if r is not None and hasattr(r, 'node'):
                    rets = [m.resolve_dotted(r.module, dotted(x.value.func if isinstance(x.value, ast.Call)
                                                              else x.value) or '')
                            for x in ast.walk(r.node) if isinstance(x, ast.Return) and x.value is not None]
                    for g in getters:
                        if g in rets:
                            d = g
            elif dotted(v):
                d = m.resolve_dotted(fi.module, dotted(v))
            if d in getters:
                out[n.targets[0].attr] = (d, n)
    return out


def r2_save_mutate_restore(ctx, rep, R='C18.R2'):
    rep.rule(R, 'save / mutate / restore: for every catalogued interpreter-global mutation done by a '
             'feature set-up hook (gc thresholds and debug flags, traceback functions, trace and '
             'profile hooks), the previous value is saved from the matching getter before the '
             'mutation, and a teardown hook that Runner.run calls puts exactly that saved value '
             'back; profiler enable/disable are rebound as a pair')
    m = ctx.model
    feats = ctx.cg.feature_classes()
    n = 0
    for cls in feats:
        setups = _hook_methods(ctx, cls, SETUP_HOOKS)
        teardowns = _hook_methods(ctx, cls, TEARDOWN_HOOKS)
        # follow helpers one level (Coverage.global_setup -> TestTrace.start)
        s_all = [(f, f) for f in setups] + [(f, h) for f in setups for h in _callees_one_level(ctx, f)]
        t_all = [(f, f) for f in teardowns] + [(f, h) for f in teardowns for h in _callees_one_level(ctx, f)]
        consts = cls.module.constants
        for hook, sf in s_all:
            for kind, canon, node in _mutations(ctx, sf):
                n += 1
                getters = CALL_MUTATORS[canon] if kind == 'call' else (canon,)
                construct = '%s (%s via %s)' % (canon, cls.qualname, sf.qualname)
                saved = _saved_attrs(ctx, sf, getters, consts)
                # a module-level capture (x = sys.settrace at import time) is NOT a save: the value
                # before the run may differ from the one at import (nested or repeated runs)
                before = {a: g for a, (g, sn) in saved.items() if sn.lineno < node.lineno}
                okb = bool(before)
                rep.check(okb, R, construct + ': previous value saved first',
                          'the previous value of %s is not saved (from %s) before it is changed in %s'
                          % (canon.split('.')[-1], '/'.join(getters), sf.qualname),
                          key='save:%s@%s' % (canon, sf.qualname), func=sf.qualname,
                          where=ctx.where(sf, node))
                # restore
                restored = False
                where_t = None
                for thook, tf in t_all:
                    for k2, c2, n2 in _mutations(ctx, tf):
                        if c2 != canon:
                            continue
                        where_t = tf
                        val = n2.args[0] if k2 == 'call' and n2.args else (n2.value if k2 == 'store' else None)
                        if isinstance(val, ast.Starred):
                            val = val.value
                        d = dotted(val) if val is not None else None
                        if d and d.startswith('self.') and d[5:] in before:
                            restored = True
                rep.check(restored, R, construct + ': restored from the saved value in a teardown hook',
                          ('%s is reset in %s, but not to the value saved before the run (a constant or '
                           'something else is put back)' % (canon, where_t.qualname)) if where_t else
                          'no teardown hook called by Runner.run undoes %s done in %s' % (canon, sf.qualname),
                          key='restore:%s@%s' % (canon, sf.qualname),
                          func=(where_t or sf).qualname, where=ctx.where(where_t or sf, (where_t or sf).node))
        # a hook that the package REPLACES (sys.settrace = <own wrapper>) and also CALLS to restore
        # the previous trace function: the restoring call must go to the real function, i.e. the
        # attribute is put back before the call (the wrapper may filter -- coverage.settrace drops
        # None, so "sys.settrace(None)" through it leaves the tracer installed)
        replaced = {canon for _h, sf in s_all for kind, canon, _n in _mutations(ctx, sf) if kind == 'store'}
        for thook, tf in t_all:
            muts = _mutations(ctx, tf)
            for kind, canon, node in muts:
                if kind != 'call' or canon not in replaced:
                    continue
                g = ctx.cfg(tf)
                cn = [x.id for x in g.nodes if x.ast is not None and any(y is node for y in ast.walk(x.ast))]
                sn = [x.id for x in g.nodes if x.ast is not None and any(
                    any(y is n2 for y in ast.walk(x.ast)) for k2, c2, n2 in muts if k2 == 'store' and c2 == canon)]
                okd = bool(cn) and bool(sn)
                if okd:
                    dom = g.dominators()
                    okd = all(any(s_ in dom[c_] for s_ in sn) for c_ in cn)
                n += 1
                rep.check(okd, R, '%s: %s(<saved>) is called after %s itself was put back' % (
                    tf.qualname, canon, canon),
                    '%s restores the previous value by calling %s while that name is still bound to the '
                    'replacement installed by the set-up hook: the call goes through the wrapper (which '
                    'may drop it, e.g. for None) and the hook of this run stays installed'
                    % (tf.qualname, canon), key='restore-through-wrapper:%s@%s' % (canon, tf.qualname),
                    func=tf.qualname, where=ctx.where(tf, node))
        # profiler style: hook methods rebound to bound methods of the same object
        for sf in setups:
            reb = {}
            for n_ in ast.walk(sf.node):
                if isinstance(n_, ast.Assign) and isinstance(n_.targets[0], ast.Attribute) and \
                        is_name(n_.targets[0].value, 'self') and n_.targets[0].attr in \
                        SETUP_HOOKS + TEARDOWN_HOOKS and isinstance(n_.value, ast.Attribute):
                    reb[n_.targets[0].attr] = n_.value
            if reb:
                n += 1
                en = [v for k, v in reb.items() if k in SETUP_HOOKS and v.attr in ('enable', 'start')]
                dis = [v for k, v in reb.items() if k in TEARDOWN_HOOKS and v.attr in ('disable', 'stop')]
                ok = len(en) == 1 and len(dis) == 1 and norm(en[0].value) == norm(dis[0].value)
                rep.check(ok, R, '%s rebinds enable/disable of the same object as set-up/teardown '
                          'hooks' % sf.qualname, 'a profiler-style hook is enabled in a set-up hook '
                          'but its disable is not bound to a teardown hook of the same feature',
                          key='rebind:' + sf.qualname, func=sf.qualname, where=ctx.where(sf, sf.node))
    rep.floor(R, n, 6, 'mutation instances in feature set-up hooks')
    # hook names are the ones Runner.run actually invokes
    from .common import inlined
    fr = m.func('runner.Runner.run')
    called = {c.func.attr for c in ast.walk(inlined(ctx, fr)) if isinstance(c, ast.Call) and
              isinstance(c.func, ast.Attribute) and is_name(c.func.value, 'feature')}
    rep.check(set(TEARDOWN_HOOKS) <= called and {'global_setup', 'late_setup'} <= called, R,
              'Runner.run invokes %s' % sorted(called), 'Runner.run no longer invokes the hooks '
              'the pairing relies on', key='hooks:invoked', func=fr.qualname, where=ctx.where(fr, fr.node))


def r3_warnings(ctx, rep, R='C18.R3'):
    rep.rule(R, 'warnings filters: every warnings.simplefilter / filterwarnings / resetwarnings of the '
             'package is lexically inside "with warnings.catch_warnings()"; Runner.run does all '
             'feature work inside self._enabled_warnings(), whose yield is inside that with-block')
    m = ctx.model
    n = 0
    for fi in m.all_functions():
        for c in own_calls(fi.node):
            d = m.resolve_dotted(fi.module, dotted(c.func)) if dotted(c.func) else None
            if d in ('warnings.simplefilter', 'warnings.filterwarnings', 'warnings.resetwarnings'):
                n += 1
                inside = False
                node = c
                while getattr(node, '_parent', None) is not None:
                    node = node._parent
                    if isinstance(node, ast.With) and any(
                            m.resolve_dotted(fi.module, dotted(it.context_expr.func) or '') ==
                            'warnings.catch_warnings' for it in node.items
                            if isinstance(it.context_expr, ast.Call)):
                        inside = True
                rep.check(inside, R, '%s: %s inside catch_warnings()' % (fi.qualname, d),
                          '%s changes the warnings filters outside a catch_warnings() block: the '
                          'change outlives the run' % fi.qualname, key='warnings:' + fi.qualname,
                          func=fi.qualname, where=ctx.where(fi, c))
    rep.floor(R, n, 2, 'warnings filter changes')
    ew = m.func('runner.Runner._enabled_warnings')
    ys = [x for x in ast.walk(ew.node) if isinstance(x, ast.Yield)]
    oky = len(ys) == 1
    if oky:
        node = ys[0]
        oky = False
        while getattr(node, '_parent', None) is not None and node._parent is not ew.node.body:
            node = node._parent
            if isinstance(node, ast.With) and 'catch_warnings' in norm(node.items[0].context_expr):
                oky = True
                break
            if node is ew.node:
                break
    deco = [dotted(d) for d in ew.node.decorator_list]
    rep.check(oky and 'contextmanager' in [x.split('.')[-1] for x in deco if x], R,
              '_enabled_warnings yields inside catch_warnings()', 'the context manager does not '
              'scope the filters', key='warnings:cm', func=ew.qualname, where=ctx.where(ew, ew.node))
    from .common import inlined
    fr = m.func('runner.Runner.run')
    frn = inlined(ctx, fr)
    hooks = [c for c in ast.walk(frn) if isinstance(c, ast.Call) and isinstance(c.func, ast.Attribute)
             and (is_name(c.func.value, 'feature') or dotted(c.func) == 'self.run_tests')]
    okw = bool(hooks)
    for c in hooks:
        node = c
        ins = False
        while getattr(node, '_parent', None) is not None and node._parent is not frn:
            node = node._parent
            if isinstance(node, ast.With) and '_enabled_warnings' in norm(node.items[0].context_expr):
                ins = True
        okw = okw and ins
    rep.check(okw, R, 'Runner.run: all feature hooks and run_tests inside self._enabled_warnings()',
              'feature work happens outside the warnings scope', key='warnings:run',
              func=fr.qualname, where=ctx.where(fr, fr.node))


def r5_stray_mutators(ctx, rep, R='C18.R5'):
    rep.rule(R, 'no stray mutators: every other catalogued mutation in the package (outside feature '
             'hooks) is paired inside its own function -- the previous value is saved in a local '
             'and put back on every path to the function\'s normal exit')
    m = ctx.model
    feat_funcs = set()
    for cls in ctx.cg.feature_classes():
        for f in cls.methods.values():
            feat_funcs.add(f.qualname)
            for h in _callees_one_level(ctx, f):
                feat_funcs.add(h.qualname)
    n = 0
    for fi in m.all_functions():
        if fi.qualname in feat_funcs:
            continue
        muts = _mutations(ctx, fi)
        if not muts:
            continue
        # wrapper that only forwards (coverage.settrace -> osettrace) is not a mutation site
        g = ctx.cfg(fi)
        by = {}
        for kind, canon, node in muts:
            by.setdefault((canon, kind), []).append((kind, node))
        for (canon, _kind), items in sorted(by.items()):
            n += 1
            getters = CALL_MUTATORS.get(canon, (canon,))
            saves = {}
            for x in ast.walk(fi.node):
                if isinstance(x, ast.Assign) and isinstance(x.targets[0], ast.Name):
                    v = x.value
                    d = m.resolve_dotted(fi.module, dotted(v.func if isinstance(v, ast.Call) else v) or '')
                    if d in getters:
                        saves[x.targets[0].id] = x
            restores = [nd for k, nd in items if (nd.args and dotted(nd.args[0]) in saves)
                        ] if items[0][0] == 'call' else [nd for k, nd in items if dotted(nd.value) in saves]
            changes = [nd for k, nd in items if nd not in restores]
            ok = bool(saves) and bool(restores) and bool(changes)
            if ok:
                cn = nodes_calling(g, lambda c: c in changes) if items[0][0] == 'call' else \
                    [x.id for x in g.nodes if x.ast in changes]
                rn = nodes_calling(g, lambda c: c in restores) if items[0][0] == 'call' else \
                    [x.id for x in g.nodes if x.ast in restores]
                okp, _ = g.every_path_passes(cn, [g.exit], set(rn))
                sv = [x.id for x in g.nodes if x.ast in saves.values()]
                dom = g.dominators()
                ok = okp and all(any(s in dom[c] for s in sv) for c in cn)
            rep.check(ok, R, '%s: %s saved, changed and restored inside the function' % (fi.qualname, canon),
                      '%s changes %s without saving the previous value and restoring it on every '
                      'path' % (fi.qualname, canon), key='stray:%s@%s' % (canon, fi.qualname),
                      func=fi.qualname, where=ctx.where(fi, items[0][1]))
    rep.floor(R, n, 1, 'mutation sites outside feature hooks')


IO_PREFIXES = ('os.', 'glob.', 'tempfile.', 'shutil.', 'pstats.', 'socket.', 'subprocess.')
# warnings.warn raises when warnings are turned into errors (-W error, warnings='error'); logging calls run handlers
IO_NAMES = ('open', 'print', 'warnings.warn', 'warnings.warn_explicit')
IO_METHODS = ('dump_stats', 'write', 'close', 'flush', 'writelines', 'read', 'unlink', 'mkdir',
              'write_results')


def _registered_features(ctx):
    """feature classes in the order Runner.configure registers them (extraction shared with C11)"""
    from .c11 import feature_order
    m = ctx.model
    fi, order = feature_order(ctx)
    out = []
    for last in order:
        r = m.lookup(m.resolve_dotted(fi.module, ctx.feature_dotted.get(last, last)))
        if r is not None and hasattr(r, 'methods'):
            out.append(r)
    return out


def _hook_body(ctx, cls, hook):
    """(kind, functions) for what Runner.run executes as cls.<hook>: the method (plus the
    helpers it calls one level down), or the bound method a set-up hook rebinds it to"""
    m = ctx.model
    for c in m.mro(cls):
        for f in c.methods.values():
            for n_ in ast.walk(f.node):
                if isinstance(n_, ast.Assign) and isinstance(n_.targets[0], ast.Attribute) and \
                        is_name(n_.targets[0].value, 'self') and n_.targets[0].attr == hook:
                    return 'rebound', n_.value
    f = m.find_method(cls, hook)
    if f is None or f.cls.qualname == 'feature.Feature':
        return 'none', None
    return 'method', [f] + _callees_one_level(ctx, f)


def _does_io(ctx, funcs):
    m = ctx.model
    for f in funcs:
        for c in own_calls(f.node):
            d = m.resolve_dotted(f.module, dotted(c.func)) if dotted(c.func) else None
            if d and (d.startswith(IO_PREFIXES) or d in IO_NAMES):
                return norm(c)[:60]
            if isinstance(c.func, ast.Attribute) and c.func.attr in IO_METHODS:
                return norm(c)[:60]
            if isinstance(c.func, ast.Attribute) and (dotted(c.func.value) or '').startswith('self.profiler'):
                return norm(c)[:60]
    return None


def r6_restore_before_fallible_teardown(ctx, rep, R='C18.R6'):
    rep.rule(R, 'restorations are not placed behind a fallible teardown step: Runner.run calls the '
             'teardown hooks in two plain loops (early_teardown, then global_teardown, features in '
             'reverse registration order), so an exception in one hook skips all later ones; every '
             'hook that restores catalogued interpreter state therefore runs before the first hook '
             'that performs I/O (file, descriptor, profiler statistics), which can fail')
    feats = _registered_features(ctx)
    rep.floor(R, len(feats), 10, 'registered features')
    seq = []
    for hook in TEARDOWN_HOOKS:
        for cls in reversed(feats):
            kind, body = _hook_body(ctx, cls, hook)
            if kind == 'none':
                continue
            if kind == 'rebound':
                restoring = isinstance(body, ast.Attribute) and body.attr in ('disable', 'stop')
                seq.append((cls, hook, restoring, None))
                continue
            restoring = any(_mutations(ctx, f) for f in body)
            seq.append((cls, hook, restoring, _does_io(ctx, body)))
    first_io = None
    n = 0
    for cls, hook, restoring, io in seq:
        if restoring:
            n += 1
            rep.check(first_io is None, R, '%s.%s restores state before any fallible teardown step'
                      % (cls.name, hook),
                      '%s.%s restores interpreter state but runs after %s.%s, which performs I/O (%s) '
                      'and can raise: the restoration would then be skipped and the run would end '
                      'with the state still changed' % ((cls.name, hook) + (first_io or ('', '', ''))),
                      key='order:%s.%s' % (cls.name, hook), func=cls.qualname + '.' + hook)
        if io and first_io is None:
            first_io = (cls.name, hook, io)
    rep.floor(R, n, 4, 'state-restoring teardown hooks')
    rep.sample('teardown order: ' + ' > '.join('%s.%s%s%s' % (c.name, h, '[restores]' if r else '',
                                                             '[io]' if io else '')
                                               for c, h, r, io in seq))


# interpreter APIs that install or read a trace / profile function, with what they touch.  Anything
# else of sys / threading whose name speaks of tracing or profiling is not tabulated: its effect on
# the CURRENT thread is unknown to the save / restore pairing of R2 (threading.settrace_all_threads,
# for instance, also replaces the trace function of the calling thread, behind the value that
# sys.settrace(old) has just put back).
TRACE_API = {
    'sys.settrace': 'current thread', 'sys.gettrace': 'read', 'sys.setprofile': 'current thread',
    'sys.getprofile': 'read', 'threading.settrace': 'threads started later',
    'threading.gettrace': 'read', 'threading._trace_hook': 'read',
    'threading.setprofile': 'threads started later', 'threading.getprofile': 'read',
    'threading._profile_hook': 'read',
}


def r8_trace_api_table(ctx, rep, R='C18.R8'):
    rep.rule(R, 'the save / restore pairing of the trace and profile functions (R2) knows every API '
             'the package uses for them: each reference to a sys / threading attribute whose name '
             'speaks of trace or profile is one of the tabulated per-thread / later-threads setters '
             'and getters; an API that reaches other running threads (…_all_threads) also overwrites '
             'the current thread\'s function behind the restored value')
    m = ctx.model
    n = 0
    for mod in m.modules.values():
        if mod.name.startswith('tests'):
            continue
        for x in ast.walk(mod.tree):
            if isinstance(x, ast.Name) and isinstance(x.ctx, ast.Load) and x.id in mod.imports:
                r = mod.imports[x.id]
            elif isinstance(x, ast.Attribute):
                d = dotted(x)
                if not d:
                    continue
                r = m.resolve_dotted(mod, d) or d
            else:
                continue
            head, _, attr = r.rpartition('.')
            if head not in ('sys', 'threading'):
                continue
            low = attr.lower()
            if 'trace' not in low.replace('traceback', '').replace('tracebacklimit', '') and 'profile' not in low:
                continue
            n += 1
            rep.check(r in TRACE_API, R, '%s: %s is a tabulated trace / profile API (%s)' % (
                mod.name, r, TRACE_API.get(r, '?')),
                '%s refers to %s, whose effect on the trace / profile function of the current thread is '
                'not what the save / restore pairing assumes (not one of %s)' % (
                    mod.name, r, sorted(TRACE_API)), key='trace-api:%s:%s' % (mod.name, r),
                func=mod.name, where='%s:%d' % (mod.path, x.lineno))
    rep.floor(R, n, 4, 'references to trace / profile APIs of sys / threading')
