"""C13 -- buffered output is attributed correctly; std streams are always restored."""
import ast

from . import tsrules
from .common import (Ctx, calls_in, dotted, is_name, kw, nodes_calling, norm, own_calls, params,
                     truth_test)

P = 'C13'
STD = ('sys.stdout', 'sys.stderr', 'sys.stdin')


def run(model, rep, tier):
    ctx = Ctx(model)
    rep.rule('C13.R1', 'after every stopTest -- whatever result events occurred, including none '
             '(KeyboardInterrupt) -- sys.stdout and sys.stderr are the original stream objects')
    tsrules.streams_restored(ctx, rep, 'C13.R1')
    rep.rule('C13.R2', 'with --buffer no sequence of result events makes a callback fail on the '
             'stream state (e.g. getvalue() on a stream that is not the capture buffer)')
    tsrules.no_escape(ctx, rep, 'C13.R2', only=lambda tr: tr.config.get('buffer'))
    rep.rule('C13.R3', 'with --buffer the text captured from sys.stdout / sys.stderr goes, '
             'uncrossed, to the stdout= / stderr= of the failure or error report of the same test; '
             'captured text of passing / skipped / expected-failure tests reaches no formatter call; '
             'the capture buffers are rewound and truncated after every capture; every formatter '
             'emits both captured strings whole')
    tsrules.attribution(ctx, rep, 'C13.R3')
    r3_formatter_side(ctx, rep)
    from . import c04
    c04.wrapper_forwards(ctx, rep, 'C13.R3')
    rep.rule('C13.R6', 'with --buffer, from startTest until the first reported failure, error or '
             'skip of a test (in particular across passing subtests) both std streams are the '
             'capture buffers, so what a passing test writes never reaches the real streams')
    tsrules.buffered_while_running(ctx, rep, 'C13.R6')
    rep.rule('C13.R4', 'without --buffer no TestResult callback assigns sys.stdout/sys.stderr; the '
             'only functions of the package that assign sys.stdout, sys.stderr or sys.stdin are the '
             'ones tabulated (capture set-up/restore, subprocess child set-up)')
    tsrules.never_without_buffer(ctx, rep, 'C13.R4')
    r4_who_may_assign(ctx, rep)
    r5_subunit_forces_buffer(ctx, rep)
    r8_capture_is_complete(ctx, rep)
    r9_buffer_never_switched_off(ctx, rep)
    rep.rule('C13.R7', 'premise of R1 in post-mortem mode, where the package drives the result itself: '
             'stopTest (which restores the streams) follows every startTest on every exit of the loop')
    tsrules.driver_brackets(ctx, rep, 'C13.R7')
    tsrules.record_units(rep, tsrules.exploration(ctx))
    from . import robust
    robust.asserts_have_no_effects(ctx, rep, 'C13.R20', 'C13')
    rep.units['cfg'] = ctx.cfg_stats


ALLOWED_ASSIGN = {
    # function -> (targets, reason)
    'runner.TestResult._setUpStdStreams': (('sys.stdout', 'sys.stderr'),
                                           'installs the capture buffers (only under options.buffer: T5)'),
    'runner.TestResult._restoreStdStreams': (('sys.stdout', 'sys.stderr'),
                                             'restores the originals'),
    'process.SubProcess.global_setup': (('sys.stderr',),
                                        'child process only (feature active iff resume_layer): '
                                        'stderr is re-pointed to stdout so the report channel stays clean'),
    'runner.Runner.configure': (('sys.stdin',), 'child process only (--resume-layer branch)'),
}


def r4_who_may_assign(ctx, rep, R='C13.R4'):
    m = ctx.model
    n = 0
    for fi in m.all_functions():
        for node in ast.walk(fi.node):
            if isinstance(node, ast.Attribute) and isinstance(node.ctx, (ast.Store, ast.Del)):
                c = m.resolve_dotted(fi.module, dotted(node))
                if c in STD:
                    owner = _owner_func(node, fi)
                    if owner is not fi:
                        continue
                    n += 1
                    al = ALLOWED_ASSIGN.get(fi.qualname)
                    rep.check(al is not None and c in al[0], R, '%s assigns %s' % (fi.qualname, c),
                              '%s is assigned in %s, which is not in the who-may-assign table'
                              % (c, fi.qualname), key='%s=@%s' % (c, fi.qualname),
                              func=fi.qualname, where=ctx.where(fi, node),
                              detail=al[1] if al else '')
            # setattr(sys, 'stdout', ...)
            if isinstance(node, ast.Call) and dotted(node.func) == 'setattr' and node.args and \
                    m.resolve_dotted(fi.module, dotted(node.args[0])) == 'sys':
                rep.bad(R, '%s: setattr(sys, ...)' % fi.qualname, 'dynamic store to a sys attribute',
                        key='setattr@' + fi.qualname, func=fi.qualname, where=ctx.where(fi, node))
    # module level
    for mod in m.modules.values():
        for st in mod.tree.body:
            for node in ast.walk(st) if not isinstance(st, (ast.FunctionDef, ast.ClassDef)) else []:
                if isinstance(node, ast.Attribute) and isinstance(node.ctx, ast.Store) and \
                        m.resolve_dotted(mod, dotted(node)) in STD:
                    rep.bad(R, '%s: module-level store to %s' % (mod.name, dotted(node)),
                            'std stream replaced at import time', key='module:' + mod.name,
                            where='%s:%s' % (mod.path, node.lineno))
    rep.floor(R, n, 5, 'std-stream store sites')
    # the child-only sites really are child-only
    fi = m.func('runner.Runner.configure')
    for node in ast.walk(fi.node):
        if isinstance(node, ast.Attribute) and isinstance(node.ctx, ast.Store) and \
                m.resolve_dotted(fi.module, dotted(node)) == 'sys.stdin':
            from .common import guard_literals
            st = node
            while not isinstance(st, ast.stmt):
                st = st._parent
            guarded = any(pos and '--resume-layer' in norm(e) and isinstance(e, ast.Compare) and
                          isinstance(e.ops[0], ast.Eq) for e, pos in guard_literals(ctx, fi, st))
            rep.check(guarded, R, 'Runner.configure: sys.stdin replaced only when re-invoked with '
                      '--resume-layer', 'sys.stdin is replaced outside the --resume-layer branch',
                      key='stdin:guard', func=fi.qualname, where=ctx.where(fi, node))
    sp = m.cls('process.SubProcess')
    init = sp.methods.get('__init__')
    act = [n for n in ast.walk(init.node) if isinstance(n, ast.Assign) and any(
        isinstance(t, ast.Attribute) and t.attr == 'active' for t in n.targets)] if init else []
    ok = len(act) == 1 and 'resume_layer' in norm(act[0].value) and \
        isinstance(act[0].value, ast.Call) and dotted(act[0].value.func) == 'bool'
    rep.check(ok, R, 'SubProcess feature is active only in a child (bool(options.resume_layer))',
              'SubProcess.active is %s' % (norm(act[0].value) if act else 'not assigned'),
              key='subprocess:active', func='process.SubProcess.__init__')


def _owner_func(node, fi):
    cur = node
    while getattr(cur, '_parent', None) is not None:
        cur = cur._parent
        if isinstance(cur, (ast.FunctionDef, ast.AsyncFunctionDef, ast.Lambda)):
            return fi if cur is fi.node else None
    return None


def r3_formatter_side(ctx, rep):
    R = 'C13.R3'
    m = ctx.model
    n = 0
    for cls in ctx.cg.formatter_classes():
        for meth in ('test_error', 'test_failure'):
            fi = m.find_method(cls, meth)
            if fi is None:
                continue
            n += 1
            construct = '%s.%s emits stdout and stderr' % (cls.name, meth)
            ok, why = _emits_both(ctx, fi, cls)
            rep.check(ok, R, construct, why, key=construct, func=fi.qualname,
                      where=ctx.where(fi, fi.node))
    rep.floor(R, n, 8, 'formatter report methods')


def _emits_both(ctx, fi, cls, depth=0):
    """both parameters stdout and stderr of *fi* reach an output sink on every path"""
    ps = params(fi)
    if 'stdout' not in ps or 'stderr' not in ps:
        return False, 'no stdout/stderr parameters'
    g = ctx.cfg(fi)
    for p in ('stdout', 'stderr'):
        sinks = []
        for nd in g.nodes:
            if nd.ast is None or nd.kind == 'handler':
                continue
            for c in calls_in(nd.ast) if nd.kind != 'with' else []:
                if _is_sink(ctx, fi, cls, c, p, depth):
                    if _only_guarded_by(c, fi.node, p):
                        sinks.append(nd.id)
            # closures capturing the parameter (subunit Content(lambda: [p.encode()]))
            for lam in [x for x in ast.walk(nd.ast) if isinstance(x, ast.Lambda)] \
                    if nd.kind == 'stmt' else []:
                if any(is_name(x, p) for x in ast.walk(lam.body)) and \
                        _only_guarded_by(lam, fi.node, p):
                    sinks.append(nd.id)
        if not sinks:
            return False, 'parameter %s never reaches a write / a helper that writes it' % p
        # every path on which p may be non-empty passes a sink: remove the edges "p is falsy"

        def edge_ok(s, d, k, p=p):
            nd = g.node(s)
            if nd.kind == 'test':
                pos, e = truth_test(nd.ast)
                if is_name(e, p) and k == ('false' if pos else 'true'):
                    return False
            return True
        ok, _ = g.every_path_passes([g.entry], [g.exit], set(sinks), include_start=True,
                                    edge_ok=edge_ok)
        if not ok:
            return False, 'a path through %s does not emit %s' % (fi.qualname, p)
    return True, ''


def _is_sink(ctx, fi, cls, c, p, depth):
    f = c.func
    if isinstance(f, ast.Attribute) and f.attr in ('write', 'writelines') and \
            any(is_name(a, p) for a in c.args):
        return True
    if dotted(f) == 'print' and any(is_name(a, p) for a in c.args):
        return True
    if isinstance(f, ast.Name) and any(is_name(a, p) for a in c.args):
        # a local alias of a bound write method:  write = sys.stdout.write; write(stdout)
        from .common import local_assignments
        vals = [v for v in local_assignments(fi.node).get(f.id, []) if isinstance(v, ast.AST)]
        if vals and all(isinstance(v, ast.Attribute) and v.attr in ('write', 'writelines') for v in vals):
            return True
    if isinstance(f, ast.Attribute) and is_name(f.value, 'self') and depth < 2:
        callee = ctx.model.find_method(cls, f.attr)
        if callee is not None:
            cps = params(callee)[1:]
            # passed to the parameter of the same name, not crossed
            for i, a in enumerate(c.args):
                if is_name(a, p):
                    if i < len(cps) and cps[i] == p:
                        return _emits_param(ctx, callee, cls, p, depth + 1)
                    return False
            for k in c.keywords:
                if is_name(k.value, p):
                    return k.arg == p and _emits_param(ctx, callee, cls, p, depth + 1)
    return False


def _emits_param(ctx, fi, cls, p, depth):
    g = ctx.cfg(fi)
    sinks = []
    for nd in g.nodes:
        if nd.ast is None or nd.kind in ('handler', 'with'):
            continue
        for c in calls_in(nd.ast):
            if _is_sink(ctx, fi, cls, c, p, depth) and _only_guarded_by(c, fi.node, p):
                sinks.append(nd.id)
        if nd.kind == 'stmt':
            for lam in [x for x in ast.walk(nd.ast) if isinstance(x, ast.Lambda)]:
                if any(is_name(x, p) for x in ast.walk(lam.body)) and \
                        _only_guarded_by(lam, fi.node, p):
                    sinks.append(nd.id)

    def edge_ok(s, d, k):
        nd = g.node(s)
        if nd.kind == 'test':
            pos, e = truth_test(nd.ast)
            if is_name(e, p) and k == ('false' if pos else 'true'):
                return False
        return True
    ok, _ = g.every_path_passes([g.entry], [g.exit], set(sinks), include_start=True, edge_ok=edge_ok)
    return bool(sinks) and ok


def _only_guarded_by(node, stop, p):
    """the enclosing conditions of *node* only test the parameter itself (truthiness, type,
    endswith...), i.e. no unrelated condition can suppress the output"""
    child = node
    cur = getattr(node, '_parent', None)
    while cur is not None and cur is not stop:
        if isinstance(cur, ast.If) and (child in cur.body or child in cur.orelse):
            names = {x.id for x in ast.walk(cur.test) if isinstance(x, ast.Name)}
            if not names <= {p, 'isinstance', 'bytes', 'str'}:
                return False
        child = cur
        cur = getattr(cur, '_parent', None)
    return True


def r5_subunit_forces_buffer(ctx, rep):
    R = 'C13.R5'
    rep.rule(R, 'get_options forces options.buffer on whenever subunit output is selected (every '
             'path that leaves the subunit branch without giving up sets options.buffer = True)')
    fi = ctx.model.func('options.get_options')
    g = ctx.cfg(fi)
    # option values read into a local first (``v1 = options.subunit``) are looked through
    from .common import expander
    expand = expander(fi.node, only=lambda v: (dotted(v) or '').startswith('options.'))
    tests = [n for n in g.nodes if n.kind == 'test' and isinstance(n.stmt, ast.If) and
             'options.subunit' in norm(expand(n.ast)) and 'subunit_v2' in norm(expand(n.ast)) and
             isinstance(n.ast, ast.BoolOp) and isinstance(n.ast.op, ast.Or)]
    sets = [n.id for n in g.nodes if n.kind == 'stmt' and isinstance(n.ast, ast.Assign) and
            any(dotted(t) == 'options.buffer' for t in n.ast.targets) and
            isinstance(n.ast.value, ast.Constant) and n.ast.value.value is True]
    fails = [n.id for n in g.nodes if n.kind == 'stmt' and isinstance(n.ast, ast.Assign) and
             any(dotted(t) == 'options.fail' for t in n.ast.targets) and
             isinstance(n.ast.value, ast.Constant) and n.ast.value.value is True]
    ok = bool(tests) and bool(sets)
    if ok:
        t = tests[0]
        start = [d for d, k in g.succ[t.id] if k == 'true']
        r = g.reach(start, avoid=set(sets) | set(fails), include_start=True)
        ok = g.exit not in r
        # and nothing switches it off again afterwards
        later = [n.id for n in g.nodes if n.kind == 'stmt' and isinstance(n.ast, ast.Assign) and
                 any(dotted(x) == 'options.buffer' for x in n.ast.targets) and n.id not in sets]
        ok = ok and not any(x in g.reach(sets) for x in later)
    rep.check(ok, R, 'get_options: options.buffer = True under subunit / subunit_v2',
              'subunit output can be selected without forcing options.buffer on',
              key='get_options:buffer', func=fi.qualname, where=ctx.where(fi, fi.node))


def r8_capture_is_complete(ctx, rep, R='C13.R8'):
    """'shown completely': the capture stream is a text layer (io.TextIOWrapper) over a bytes buffer
    and getvalue() reads the BYTES buffer; text the wrapper still holds back (no newline yet, with
    line_buffering or default buffering) is not in it and is thrown away by the truncate that
    follows.  So the wrapper must pass every write through (write_through=True), or getvalue()
    must flush first."""
    rep.rule(R, 'the capture stream hands every write through to the buffer getvalue() reads '
             '(write_through=True on the text wrapper, or a flush() in getvalue before the read)')
    m = ctx.model
    mod = m.func('runner.TestResult._restoreStdStreams').module
    classes = [n for n in ast.walk(mod.tree) if isinstance(n, ast.ClassDef) and any(
        isinstance(f, ast.FunctionDef) and f.name == 'getvalue' for f in n.body) and any(
        (dotted(b) or '').endswith('TextIOWrapper') for b in n.bases)]
    rep.floor(R, len(classes), 1, 'text-wrapper capture classes with a getvalue()')
    for cls in classes:
        gv = [f for f in cls.body if isinstance(f, ast.FunctionDef) and f.name == 'getvalue'][0]
        reads_bytes = any(isinstance(c, ast.Call) and norm(c.func).endswith('buffer.getvalue')
                          for c in ast.walk(gv))
        if not reads_bytes:
            rep.undecide(R, '%s.getvalue' % cls.name, 'getvalue() does not read self.buffer.getvalue()')
            continue
        flushes = [c for c in ast.walk(gv) if isinstance(c, ast.Call) and norm(c.func) == 'self.flush']
        through = []
        # constructor calls of the class, and super().__init__ in its own __init__
        for c in ast.walk(mod.tree):
            if isinstance(c, ast.Call) and ((isinstance(c.func, ast.Name) and c.func.id == cls.name) or
                                            (norm(c.func) == 'super().__init__' and any(
                                                c is x for f in cls.body for x in ast.walk(f)))):
                k = kw(c, 'write_through')
                through.append((c, k))
        has_init = any(isinstance(f, ast.FunctionDef) and f.name == '__init__' for f in cls.body)
        relevant = [(c, k) for c, k in through if (norm(c.func) == 'super().__init__') == has_init]
        ok = bool(flushes) or (bool(relevant) and all(
            k is not None and isinstance(k, ast.Constant) and k.value is True for c, k in relevant))
        rep.check(ok, R, '%s: writes reach the bytes buffer at once (write_through=True%s)' % (
            cls.name, ' / flush in getvalue' if flushes else ''),
            'the capture stream %s is a text wrapper that may hold text back (%s) while getvalue() reads '
            'the underlying bytes buffer without flushing: what a test wrote after its last newline is '
            'missing from the failure report and discarded' % (
                cls.name, [norm(c) for c, k in relevant] or 'no constructor call found'),
            key='write-through:' + cls.name, func='runner.' + cls.name,
            where='%s:%s' % (mod.path, cls.lineno))


def r9_buffer_never_switched_off(ctx, rep, R='C13.R9'):
    """'with --buffer' quantifies over every other option: whatever else is on the command line, the
    TestResult must see options.buffer as given.  The parser stores it; the only other store the
    property allows is forcing it ON (subunit).  A store of anything else -- False under
    --post-mortem, the value of another option -- silently turns the capture off for some
    combination of options."""
    rep.rule(R, '--buffer survives every other option: outside the parser, options.buffer is only ever '
             'stored with the constant True (forced on for subunit); nothing stores another value, '
             'deletes it, or writes it through setattr / vars() / __dict__')
    m = ctx.model
    n = 0
    for fi in m.all_functions():
        if fi.module.name.startswith('tests'):
            continue
        for x in ast.walk(fi.node):
            tgt = val = None
            if isinstance(x, ast.Assign):
                for t in x.targets:
                    for tt in (t.elts if isinstance(t, (ast.Tuple, ast.List)) else [t]):
                        if isinstance(tt, ast.Attribute) and tt.attr == 'buffer' and \
                                (dotted(tt.value) or '').split('.')[-1] in ('options', 'defaults', 'opts'):
                            tgt, val = tt, (x.value if tt is t else None)
            elif isinstance(x, (ast.AugAssign, ast.AnnAssign)) and isinstance(x.target, ast.Attribute) and \
                    x.target.attr == 'buffer' and (dotted(x.target.value) or '').split('.')[-1] in (
                        'options', 'defaults', 'opts'):
                tgt, val = x.target, None
            elif isinstance(x, ast.Delete):
                for t in x.targets:
                    if isinstance(t, ast.Attribute) and t.attr == 'buffer' and \
                            (dotted(t.value) or '').split('.')[-1] in ('options', 'defaults', 'opts'):
                        tgt, val = t, None
            elif isinstance(x, ast.Call) and dotted(x.func) in ('setattr', 'delattr') and len(x.args) >= 2 and \
                    isinstance(x.args[1], ast.Constant) and x.args[1].value == 'buffer':
                tgt, val = x, (x.args[2] if len(x.args) > 2 else None)
            elif isinstance(x, ast.Subscript) and isinstance(x.ctx, (ast.Store, ast.Del)) and \
                    isinstance(x.slice, ast.Constant) and x.slice.value == 'buffer' and (
                        'options' in norm(x.value) or 'defaults' in norm(x.value)):
                tgt, val = x, None
            if tgt is None:
                continue
            n += 1
            ok = isinstance(val, ast.Constant) and val.value is True
            rep.check(ok, R, '%s: %s is only forced on' % (fi.qualname, norm(tgt)[:40]),
                      '%s stores %s into options.buffer: for some combination of options the run is not '
                      'buffered although --buffer was given (output of passing tests shown, output of '
                      'failing tests not attributed)' % (fi.qualname, norm(val)[:40] if val is not None else
                                                         'something other than True'),
                      key='buffer-store:%s:%s' % (fi.qualname, norm(val)[:30] if val is not None else '?'),
                      func=fi.qualname, where=ctx.where(fi, tgt))
    rep.floor(R, n, 1, 'stores into options.buffer outside the parser')
