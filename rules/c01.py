"""C01 -- layers nest like a stack: set-up / tear-down discipline on all paths."""
import ast

from .common import (ANY_EXC, Ctx, T_exact, T_open, Catalogue, arg, bases_first_premises,
                     call_name, calls_in, dotted, hook_calls, is_empty_collection, is_name, kw,
                     layer_hook_oracle, membership_test, mentions, node_calls, nodes_calling,
                     norm, own_calls, params, sources_of, local_assignments, strip_reverse,
                     truth_test, head)

P = 'C01'


def run(model, rep, tier):
    ctx = Ctx(model)
    rep.assume('receivers are typed by the role table (layer hook = attribute call setUp/tearDown/'
               'testSetUp/testTearDown on a non-self, non-unittest receiver)')
    rep.assume('in path rules only the user layer hook and explicit raise statements are '
               'exception sources unless stated (catalogue of DESIGN 3.4)')
    r1_who_may_call(ctx, rep)
    r2_setup_layer(ctx, rep)
    r3_tear_down(ctx, rep)
    r4_run_layer(ctx, rep)
    r5_after_cannot_teardown(ctx, rep)
    r6_final_teardown(ctx, rep)
    rep.rule('C01.R7', 'premises of the bases-first argument: gather_layers is a pre-order walk '
             'over all bases; order_by_bases gathers, reverses once, keeps first occurrences')
    bases_first_premises(ctx, rep, 'C01.R7')
    from . import lifetime
    rep.rule('C01.R8', "each run sees only its own inputs (rules/lifetime.py): no function of the package is memoised across runs (functools.lru_cache / cache), module-level containers that functions add to are emptied at the start of a run, no mutable class attribute is shared through instances (mutated in place or handed out without being re-bound per instance), and no option with a mutable argparse default is mutated in place after parsing -- a second run in the same process (other layer objects under the same names, other outcomes, other filters) must not inherit the first run's state")
    lifetime.check(ctx, rep, 'C01.R8')
    # output.stop_set_up / stop_tear_down run between the hook and the bookkeeping: the formatter must not
    # raise there on its own data (shared with C04.R15)
    from . import c04 as _c04
    _c04.r15_integer_format_of_float(ctx, rep, 'C01.R9')
    r11_who_may_change_the_map(ctx, rep)
    from . import robust
    robust.layers_not_truth_tested(ctx, rep, 'C01.R10')
    robust.asserts_have_no_effects(ctx, rep, 'C01.R20', 'C01')
    rep.units['cfg'] = ctx.cfg_stats


# ------------------------------------------------------------------------------------------

def r1_who_may_call(ctx, rep, R='C01.R1'):
    rep.rule(R, 'layer setUp is invoked only in runner.setup_layer and layer tearDown only '
             'in runner.tear_down_unneeded (a second site bypasses the bookkeeping)')
    allowed = {'setUp': 'runner.setup_layer', 'tearDown': 'runner.tear_down_unneeded'}
    found = {'setUp': 0, 'tearDown': 0}
    for fi in ctx.model.all_functions():
        for c in hook_calls(ctx, fi, ('setUp', 'tearDown')):
            h = c.func.attr
            good = fi.qualname == allowed[h]
            if good:
                found[h] += 1
            rep.check(good, R, '%s call in %s' % (h, fi.qualname),
                      'layer %s() is called outside %s' % (h, allowed[h]),
                      key=norm(c), where=ctx.where(fi, c), func=fi.qualname)
    for h in found:
        rep.check(found[h] == 1, R, 'exactly one %s site in %s' % (h, allowed[h]),
                  'found %d call sites of layer %s() in %s' % (found[h], h, allowed[h]),
                  key='count:' + h, func=allowed[h])
    rep.floor(R, found['setUp'] + found['tearDown'], 2, 'hook call sites')


def _hook_site(ctx, fi, hook):
    cs = hook_calls(ctx, fi, (hook,))
    if len(cs) != 1 or not isinstance(cs[0].func.value, ast.Name):
        return None, None
    return cs[0], cs[0].func.value.id


def recorded_before_next_hook(ctx, rep, R):
    """a layer whose setUp returned is recorded before the next user hook is attempted: if that
    one raises, every layer that is up must be known to the final tear-down (also C16.R5)"""
    fi = ctx.model.func('runner.setup_layer')
    call, L = _hook_site(ctx, fi, 'setUp')
    if call is None:
        return
    ps = params(fi)
    g = ctx.cfg(fi, layer_hook_oracle(ctx, ('setUp',)))
    S = nodes_calling(g, lambda c: c is call)
    marks_e = [n.id for n in g.nodes if n.kind == 'stmt' and isinstance(n.ast, ast.Assign) and any(
        isinstance(t, ast.Subscript) and isinstance(t.value, ast.Name) and t.value.id in ps and
        is_name(t.slice, L) for t in n.ast.targets)]
    marks_e += nodes_calling(g, lambda c: isinstance(c.func, ast.Attribute) and
                             c.func.attr in ('setdefault', '__setitem__', 'add') and
                             isinstance(c.func.value, ast.Name) and c.func.value.id in ps and
                             c.args and is_name(c.args[0], L))
    nxt_hooks = set(S) | set(nodes_calling(g, lambda c: call_name(c) == fi.name))
    r_e = g.reach(S, avoid=set(marks_e), edge_ok=lambda s_, d_, k_: k_ != 'exc')
    hit = sorted(h for h in nxt_hooks if h in r_e)
    rep.check(not hit, R, 'a layer whose setUp returned is recorded before another layer\'s setUp '
              'is attempted', 'after %s.setUp() returned, %s can run before the layer is recorded in the '
              'bookkeeping map: if it raises, the layer that is already up is unknown to the run and is '
              'never torn down' % (L, norm(g.node(hit[0]).ast)[:60] if hit else ''),
              key='setup_layer:record-before-next', func=fi.qualname,
              where=ctx.where(fi, g.node(hit[0]).ast if hit else call),
              path=g.describe_path(g.path(S, hit[0], avoid=set(marks_e),
                                          edge_ok=lambda s_, d_, k_: k_ != 'exc') or []) if hit else None)


def r2_setup_layer(ctx, rep, R='C01.R2'):
    rep.rule(R, 'setup_layer: setUp only while the layer is not marked set up, after all its bases '
             'were set up recursively; the layer is marked on every normal path after setUp and '
             'never on a path where setUp raised; a layer whose setUp returned is recorded before any '
             'further setUp is attempted (so that the final tear-down knows every layer that is up)')
    fi = ctx.model.func('runner.setup_layer')
    call, L = _hook_site(ctx, fi, 'setUp')
    if call is None:
        rep.bad(R, 'setup_layer: setUp site', 'no unique layer.setUp() call on a plain name',
                key='setup_layer:site', func=fi.qualname, where=ctx.where(fi, fi.node))
        return
    ps = params(fi)
    g = ctx.cfg(fi, layer_hook_oracle(ctx, ('setUp',)))
    S = nodes_calling(g, lambda c: c is call)
    recorded_before_next_hook(ctx, rep, R + 'e')
    # membership tests  L (not) in M
    mts = []
    for n in g.nodes:
        if n.kind == 'test':
            mt = membership_test(n.ast)
            if mt and is_name(mt[1], L) and isinstance(mt[2], ast.Name):
                mts.append((n.id, mt[0], mt[2].id))
    maps = {m for _, _, m in mts}
    M = sorted(maps)[0] if len(maps) == 1 else None
    rep.check(L in ps and M in ps, R, 'setup_layer: layer and bookkeeping map are parameters',
              'the hook receiver %r / the map %r are not parameters of setup_layer' % (L, M),
              key='setup_layer:params', func=fi.qualname, where=ctx.where(fi, fi.node))
    if M is None:
        rep.bad(R, 'setup_layer: guard', 'no test "layer not in setup_layers" found',
                key='setup_layer:guard', func=fi.qualname, where=ctx.where(fi, call))
        return

    # (a) setUp control-dependent on "not set up yet"
    def not_good_edge(s, d, k):
        for nid, true_when_absent, _ in mts:
            if s == nid and k == ('true' if true_when_absent else 'false'):
                return False
        return True
    r = g.reach([g.entry], include_start=True, edge_ok=not_good_edge)
    rep.check(not any(s in r for s in S), R + 'a', 'setUp guarded by "layer not in setup_layers"',
              'layer.setUp() is reachable although the layer is already marked as set up',
              key=norm(call), func=fi.qualname, where=ctx.where(fi, call),
              path=g.describe_path(g.path([g.entry], S[0], include_start=True,
                                          edge_ok=not_good_edge) or []))
    # (b) bases first
    loops = [n for n in g.nodes if n.kind == 'for' and
             dotted(strip_reverse(n.ast)[0]) == L + '.__bases__' and
             isinstance(n.stmt.target, ast.Name)]
    okb = False
    why = 'no loop over %s.__bases__ calling setup_layer recursively' % L
    if loops:
        h = loops[0]
        bv = h.stmt.target.id
        rec = nodes_calling(g, lambda c: call_name(c) == fi.name and len(c.args) >= 3 and
                            is_name(c.args[1], bv) and is_name(c.args[2], M))

        def edge_ok(s, d, k):
            n = g.node(s)
            if n.kind == 'test':
                t = n.ast
                if isinstance(t, ast.Compare) and len(t.ops) == 1 and is_name(t.left, bv) and \
                        dotted(t.comparators[0]) == 'object':
                    if isinstance(t.ops[0], ast.IsNot) and k == 'false':
                        return False
                    if isinstance(t.ops[0], ast.Is) and k == 'true':
                        return False
            return True
        body = [d for d, k in g.succ[h.id] if k == 'true']
        skipped = h.id in g.reach(body, avoid=set(rec), include_start=True, edge_ok=edge_ok)
        dom = g.dominators()
        # the loop must be completed (its exhausted edge) before setUp: head dominates S and
        # S is not reachable from inside the body without leaving through the head
        before = all(h.id in dom.get(s, ()) for s in S) and \
            not any(s in g.reach(body, avoid={h.id}, include_start=True) for s in S)
        okb = bool(rec) and not skipped and before
        if not rec:
            why = 'no recursive setup_layer(options, base, setup_layers) call in the bases loop'
        elif skipped:
            why = 'a base other than object can be skipped by the bases loop'
        elif not before:
            why = 'setUp is not preceded by the complete bases loop'
    rep.check(okb, R + 'b', 'all bases are set up (recursively) before setUp', why,
              key='setup_layer:bases-loop', func=fi.qualname, where=ctx.where(fi, call))
    # (c) marking
    marks = [n.id for n in g.nodes if n.kind == 'stmt' and isinstance(n.ast, ast.Assign) and any(
        isinstance(t, ast.Subscript) and is_name(t.value, M) and is_name(t.slice, L)
        for t in n.ast.targets)]
    marks += nodes_calling(g, lambda c: isinstance(c.func, ast.Attribute) and
                           c.func.attr in ('setdefault', '__setitem__', 'add') and
                           is_name(c.func.value, M) and c.args and is_name(c.args[0], L))
    rep.check(bool(marks), R + 'c', 'setup_layer marks its own layer in its own map',
              'no store setup_layers[layer] = ... found', key='setup_layer:mark',
              func=fi.qualname, where=ctx.where(fi, call))
    if marks:
        normal = lambda s, d, k: k != 'exc'   # noqa: E731
        okn, _ = g.every_path_passes(S, [g.exit], set(marks), edge_ok=normal)
        rep.check(okn, R + 'c', 'marked on every normal path after setUp',
                  'a normal path from layer.setUp() to the function exit does not mark the layer',
                  key='mark-after-setUp', func=fi.qualname, where=ctx.where(fi, call))
        exc_succ = [d for s in S for d, k in g.succ[s] if k == 'exc']
        rexc = g.reach(exc_succ, include_start=True)
        hit = [m for m in marks if m in rexc]
        rep.check(not hit, R + 'c', 'not marked when setUp raised',
                  'the layer is marked as set up on a path where layer.setUp() raised',
                  key='mark-on-exception', func=fi.qualname, where=ctx.where(fi, call),
                  path=g.describe_path(g.path(exc_succ, hit[0], include_start=True) or [])
                  if hit else None)
        pre = [m for m in marks if any(s in g.reach([m]) for s in S)]
        rep.check(not pre, R + 'c', 'not marked before setUp ran',
                  'the layer is marked as set up on a path that reaches layer.setUp() afterwards',
                  key='mark-before-setUp', func=fi.qualname, where=ctx.where(fi, call))
    rep.floor(R, len(S) + len(marks), 2, 'setUp/mark sites')


def r3_tear_down(ctx, rep, R='C01.R3'):
    rep.rule(R, 'tear_down_unneeded: iterates reverse(order_by_bases(set-up layers not needed)); '
             'forgets the layer exactly once on every path after tearDown, exceptional ones '
             'included; NotImplementedError raises CanNotTearDown iff not optional and is not an '
             'error')
    fi = ctx.model.func('runner.tear_down_unneeded')
    call, L = _hook_site(ctx, fi, 'tearDown')
    if call is None:
        rep.bad(R, 'tear_down_unneeded: tearDown site', 'no unique layer.tearDown() call',
                key='tear_down:site', func=fi.qualname, where=ctx.where(fi, fi.node))
        return
    ps = params(fi)
    g = ctx.cfg(fi, layer_hook_oracle(ctx, ('tearDown',)))
    T = nodes_calling(g, lambda c: c is call)
    loop = [n for n in g.nodes if n.kind == 'for' and is_name(n.stmt.target, L)]
    if not loop:
        rep.bad(R, 'tear_down_unneeded: loop', 'tearDown is not called on the loop variable of a '
                'for loop', key='tear_down:loop', func=fi.qualname, where=ctx.where(fi, call))
        return
    H = loop[0]
    # (a) provenance
    prov = _provenance(fi, H.stmt)
    okp = prov is not None and prov['obb'] == 1 and prov['rev'] % 2 == 1 and \
        prov['src'] in ps and prov['excl'] in ps and prov['extra_filters'] == 0
    M = prov['src'] if prov else None
    rep.check(okp, R + 'a', 'tear-down order = reverse(order_by_bases(set-up minus needed))',
              'iterated sequence has provenance %r' % (prov,), key='tear_down:provenance',
              func=fi.qualname, where=ctx.where(fi, H.stmt))
    if M is None:
        return
    # (b) forget exactly once on every path
    dels = [n.id for n in g.nodes if n.kind == 'stmt' and isinstance(n.ast, ast.Delete) and any(
        isinstance(t, ast.Subscript) and is_name(t.value, M) and is_name(t.slice, L)
        for t in n.ast.targets)]
    dels += nodes_calling(g, lambda c: isinstance(c.func, ast.Attribute) and c.func.attr == 'pop'
                          and is_name(c.func.value, M) and c.args and is_name(c.args[0], L))
    rep.check(bool(dels), R + 'b', 'tear_down_unneeded forgets the layer', 'no del '
              'setup_layers[layer] found', key='tear_down:del', func=fi.qualname,
              where=ctx.where(fi, call))
    goals = [H.id, g.exit, g.raise_exit]
    ok1, w = g.every_path_passes(T, goals, set(dels))
    rep.check(ok1, R + 'b', 'layer forgotten on every path after tearDown (incl. exceptions)',
              'a path from layer.tearDown() leaves the iteration without del setup_layers[layer]',
              key='forget-after-tearDown', func=fi.qualname, where=ctx.where(fi, call),
              path=g.describe_path(g.path(T, w, avoid=set(dels)) or []) if not ok1 else None)
    body = [d for d, k in g.succ[H.id] if k == 'true']
    ok2, w = g.every_path_passes(body, [H.id], set(dels), include_start=True,
                                 edge_ok=lambda s, d, k: k != 'exc')
    rep.check(ok2, R + 'b', 'layer forgotten on every normal iteration (with or without tearDown)',
              'an iteration can complete without del setup_layers[layer]',
              key='forget-every-iteration', func=fi.qualname, where=ctx.where(fi, H.stmt))
    twice = [d for d in dels if any(x in g.reach([d], avoid={H.id}) for x in dels)]
    rep.check(not twice, R + 'b', 'forgotten at most once per iteration',
              'del setup_layers[layer] can execute twice in one iteration',
              key='forget-twice', func=fi.qualname, where=ctx.where(fi, call))
    # the del must not precede tearDown
    early = [d for d in dels if any(t in g.reach([d], avoid={H.id}) for t in T)]
    rep.check(not early, R + 'b', 'layer forgotten only after tearDown was attempted',
              'del setup_layers[layer] precedes layer.tearDown()', key='forget-before-tearDown',
              func=fi.qualname, where=ctx.where(fi, call))
    # (c) NotImplementedError
    nie = [n for n in g.nodes if n.kind == 'handler' and n.ast.type is not None and
           'NotImplementedError' in norm(n.ast.type) and
           any(n.id == d for t in T for d, k in g.succ[t] if k == 'exc')]
    rep.check(bool(nie), R + 'c', 'NotImplementedError from tearDown has its own handler',
              'no except NotImplementedError clause receives exceptions of layer.tearDown()',
              key='nie-handler', func=fi.qualname, where=ctx.where(fi, call))
    if nie:
        opt = optional_param(ctx) or 'optional'
        for flag, expect in ((True, False), (False, True)):
            gb = ctx.cfg(fi, layer_hook_oracle(ctx, ('tearDown',)),
                         branch_oracle=lambda t, flag=flag: _opt_value(t, opt, flag))
            hs = [n.id for n in gb.nodes if n.kind == 'handler' and n.ast is nie[0].ast]
            raises = [n.id for n in gb.nodes if n.kind == 'stmt' and isinstance(n.ast, ast.Raise)
                      and n.ast.exc is not None and 'CanNotTearDown' in norm(n.ast.exc)]
            reach = gb.reach(hs, include_start=True)
            if expect:
                okc = bool(hs) and bool(raises) and all(
                    gb.every_path_passes([h], [gb.exit, gb.raise_exit] +
                                         [x.id for x in gb.nodes if x.kind == 'for'],
                                         set(raises))[0] for h in hs)
                rep.check(okc, R + 'c', 'optional=False: NotImplementedError always raises '
                          'CanNotTearDown', 'with optional false the NotImplementedError handler '
                          'can complete without raising CanNotTearDown',
                          key='nie-raises', func=fi.qualname, where=ctx.where(fi, nie[0].ast))
            else:
                okc = bool(hs) and not any(r in reach for r in raises)
                rep.check(okc, R + 'c', 'optional=True: CanNotTearDown is never raised',
                          'CanNotTearDown can be raised although optional is true',
                          key='nie-optional', func=fi.qualname, where=ctx.where(fi, nie[0].ast))
        # not an error: no failure recording reachable from the NIE handler within the iteration
        rec = nodes_calling(g, lambda c: call_name(c) == 'handle_layer_failure' or (
            isinstance(c.func, ast.Attribute) and c.func.attr in ('append', 'extend') and
            dotted(c.func.value) == 'errors'))
        r = g.reach([nie[0].id], avoid={H.id}, include_start=True)
        rep.check(not any(x in r for x in rec), R + 'c',
                  'NotImplementedError is not recorded as an error',
                  'the NotImplementedError handler records a layer failure',
                  key='nie-not-error', func=fi.qualname, where=ctx.where(fi, nie[0].ast))
    rep.floor(R, len(T) + len(dels) + len(nie), 3, 'tearDown/del/handler sites')


def optional_param(ctx):
    """the boolean parameter of tear_down_unneeded whose truth value guards ``raise CanNotTearDown``"""
    from sa.variance import path_literals
    fi = ctx.model.func('runner.tear_down_unneeded')
    ps = params(fi)
    for n in ast.walk(fi.node):
        if isinstance(n, ast.Raise) and n.exc is not None and 'CanNotTearDown' in norm(n.exc):
            for e, pos in path_literals(n, fi.node):
                if isinstance(e, ast.Name) and e.id in ps:
                    return e.id
    return None


def _opt_value(test, name, value):
    pos, e = truth_test(test)
    if is_name(e, name):
        return value if pos else (not value)
    return None


def _provenance(fi, for_stmt):
    """Symbolically evaluate the iterated expression of *for_stmt* through the straight-line
    assignments that precede it at function top level."""
    env = {}

    def ev(e):
        e2, n = strip_reverse(e)
        if n:
            t = ev(e2)
            return None if t is None else dict(t, rev=t['rev'] + n)
        if isinstance(e, ast.Name):
            return env.get(e.id)
        if isinstance(e, ast.Call) and call_name(e) == 'order_by_bases' and len(e.args) == 1:
            t = ev(e.args[0])
            return None if t is None else dict(t, obb=t['obb'] + 1)
        if isinstance(e, ast.Call) and call_name(e) in ('list', 'tuple') and len(e.args) == 1:
            return ev(e.args[0])
        if isinstance(e, (ast.ListComp, ast.GeneratorExp)) and len(e.generators) == 1:
            gen = e.generators[0]
            if isinstance(gen.target, ast.Name) and is_name(e.elt, gen.target.id) and \
                    isinstance(gen.iter, ast.Name):
                excl, extra = None, 0
                for cond in gen.ifs:
                    mt = membership_test(cond)
                    if mt and mt[0] and is_name(mt[1], gen.target.id) and \
                            isinstance(mt[2], ast.Name) and excl is None:
                        excl = mt[2].id
                    else:
                        extra += 1
                return {'src': gen.iter.id, 'excl': excl, 'obb': 0, 'rev': 0,
                        'extra_filters': extra}
        return None
    for st in fi.node.body:
        if st is for_stmt:
            return ev(for_stmt.iter)
        if isinstance(st, ast.Assign) and len(st.targets) == 1 and \
                isinstance(st.targets[0], ast.Name):
            env[st.targets[0].id] = ev(st.value)
        elif isinstance(st, ast.Expr) and isinstance(st.value, ast.Call) and \
                isinstance(st.value.func, ast.Attribute) and \
                isinstance(st.value.func.value, ast.Name):
            nm = st.value.func.value.id
            if st.value.func.attr == 'reverse' and env.get(nm):
                env[nm] = dict(env[nm], rev=env[nm]['rev'] + 1)
            elif st.value.func.attr == 'sort' and nm in env:
                env[nm] = None
    return None


def r4_run_layer(ctx, rep, R='C01.R4'):
    rep.rule(R, 'run_layer: gather needed layers -> tear down unneeded -> set up -> run tests, in '
             'this order on every path; tests never run after a failed set-up')
    fi = ctx.model.func('runner.run_layer')

    def src(call):
        if call_name(call) == 'setup_layer':
            return ANY_EXC | {T_exact('EndRun')}
        if call_name(call) == 'tear_down_unneeded':
            return frozenset([T_exact('CanNotTearDown'), T_open('MemoryError')])
        return None
    g = ctx.cfg(fi, Catalogue(src))
    G = nodes_calling(g, lambda c: call_name(c) == 'gather_layers')
    U = nodes_calling(g, lambda c: call_name(c) == 'tear_down_unneeded')
    S = nodes_calling(g, lambda c: call_name(c) == 'setup_layer')
    X = nodes_calling(g, lambda c: call_name(c) == 'run_tests')
    ok = all(len(x) == 1 for x in (G, U, S, X))
    rep.check(ok, R, 'run_layer: one site each of gather_layers, tear_down_unneeded, setup_layer, '
              'run_tests', 'sites found: gather=%d teardown=%d setup=%d run=%d'
              % (len(G), len(U), len(S), len(X)), key='run_layer:sites', func=fi.qualname,
              where=ctx.where(fi, fi.node))
    if not ok:
        return
    dom = g.dominators()
    order_ok = G[0] in dom[U[0]] and U[0] in dom[S[0]] and S[0] in dom[X[0]]
    rep.check(order_ok, R, 'gather < tear_down_unneeded < setup_layer < run_tests (dominance)',
              'the calls are not in the required order on every path', key='run_layer:order',
              func=fi.qualname, where=ctx.where(fi, g.node(S[0]).ast))
    # data flow: needed derives from the gathered list of *this* layer
    assigns = local_assignments(fi.node)
    gcall = [c for c in node_calls(g, G[0]) if call_name(c) == 'gather_layers'][0]
    ucall = [c for c in node_calls(g, U[0]) if call_name(c) == 'tear_down_unneeded'][0]
    scall = [c for c in node_calls(g, S[0]) if call_name(c) == 'setup_layer'][0]
    ps = params(fi)
    gl, gres = dotted(arg(gcall, 0)), dotted(arg(gcall, 1))
    needed = arg(ucall, 1, 'needed')
    flow = needed is not None and gres in sources_of(needed, assigns) and gl in ps and \
        dotted(arg(scall, 1, 'layer')) == gl
    # needed must contain every gathered layer: {ly: 1 for ly in gathered} / set(gathered) / gathered
    whole = False
    if needed is not None and isinstance(needed, ast.Name):
        for v in assigns.get(needed.id, []):
            if isinstance(v, ast.AST):
                whole = whole or _covers_all(v, gres)
    elif needed is not None:
        whole = _covers_all(needed, gres)          # passed inline: set(gathered), {l: 1 for l in gathered}
    rep.check(flow and whole, R, 'needed = all layers gathered from the layer that is then set up',
              'tear_down_unneeded is not given exactly the gathered base closure of the layer '
              '(gathered=%s needed=%s)' % (gres, norm(needed) if needed is not None else None),
              key='run_layer:needed', func=fi.qualname, where=ctx.where(fi, ucall))
    map_chain(ctx, rep, R)
    exc_succ = [d for d, k in g.succ[S[0]] if k == 'exc']
    rexc = g.reach(exc_succ, include_start=True)
    rep.check(X[0] not in rexc, R, 'no test runs after a failed set-up',
              'run_tests is reachable from an exception handler of setup_layer',
              key='run-after-failed-setup', func=fi.qualname, where=ctx.where(fi, scall),
              path=g.describe_path(g.path(exc_succ, X[0], include_start=True) or []))
    # CanNotTearDown is the signal "no further test or set-up in this process": it must leave
    # run_layer (Runner.run_tests turns it into the resume); a handler on the way that completes
    # normally swallows it and the next layer is set up in a process that cannot be trusted
    tok = T_exact('CanNotTearDown')
    outs = [d for d, k in g.succ[U[0]] if k == 'exc' and tok in g.exc_toks.get((U[0], d), ())]
    swallowed = None
    for d in outs:
        if d == g.raise_exit:
            continue
        r = g.reach([d], include_start=True, edge_ok=lambda s_, d_, k_: not (
            k_ == 'exc' and d_ == g.raise_exit))
        if g.exit in r:
            swallowed = d
    rep.check(bool(outs) and swallowed is None, R,
              'CanNotTearDown raised by tear_down_unneeded leaves run_layer',
              'CanNotTearDown raised by tear_down_unneeded is caught inside run_layer by "%s" and the '
              'function completes normally: the run goes on setting up layers in a process where a '
              'layer could not be torn down' % (g.node(swallowed).text()[:60] if swallowed is not None
                                                 else '?'),
              key='run_layer:cannot-tear-down-swallowed', func=fi.qualname, where=ctx.where(fi, ucall),
              path=g.describe_path(g.path([swallowed], g.exit, include_start=True) or [])
              if swallowed is not None else None)
    rep.floor(R, 4, 4, 'call sites')


def map_chain(ctx, rep, R):
    """the map in which setup_layer records a layer is the caller's own map all the way up: a layer
    that came up is known to every later tear-down (also when a layer above it failed)"""
    fi = ctx.model.func('runner.run_layer')
    ps = params(fi)
    ucall = [c for c in own_calls(fi.node) if call_name(c) == 'tear_down_unneeded']
    scall = [c for c in own_calls(fi.node) if call_name(c) == 'setup_layer']
    same_map = len(ucall) == 1 and len(scall) == 1 and \
        dotted(arg(ucall[0], 2, 'setup_layers')) == dotted(arg(scall[0], 2, 'setup_layers')) \
        and dotted(arg(scall[0], 2, 'setup_layers')) in ps
    if same_map:
        # the parameter is not rebound before the calls (a copy would hide layers that came up)
        mp = dotted(arg(scall[0], 2, 'setup_layers'))
        same_map = mp not in local_assignments(fi.node)
    rep.check(same_map, R, 'tear-down and set-up use the same bookkeeping map',
              'tear_down_unneeded and setup_layer are given different maps (or a copy): a layer that '
              'came up before a layer above it failed is not known to the later tear-downs',
              key='run_layer:map', func=fi.qualname,
              where=ctx.where(fi, scall[0] if scall else fi.node))
    fs = ctx.model.func('runner.setup_layer')
    sp = params(fs)
    rec = [c for c in own_calls(fs.node) if call_name(c) == 'setup_layer']
    marks = [n for n in ast.walk(fs.node) if isinstance(n, ast.Assign) and any(
        isinstance(t, ast.Subscript) for t in n.targets)]
    mp = None
    for n in marks:
        for t in n.targets:
            if isinstance(t, ast.Subscript) and dotted(t.value) in sp:
                mp = dotted(t.value)
    okr = mp is not None and mp not in local_assignments(fs.node) and \
        all(dotted(arg(c, 2, 'setup_layers')) == mp for c in rec)
    rep.check(okr, R, 'setup_layer records in its own map parameter and passes it to the recursive calls',
              'setup_layer marks layers in a map that is not the one it was given',
              key='setup_layer:map', func=fs.qualname, where=ctx.where(fs, fs.node))


def _covers_all(v, gres):
    if dotted(v) == gres:
        return True
    if isinstance(v, ast.Call) and dotted(v.func) in ('set', 'frozenset', 'list', 'tuple',
                                                      'dict.fromkeys') and v.args:
        return dotted(v.args[0]) == gres
    if isinstance(v, (ast.DictComp, ast.SetComp, ast.ListComp)) and len(v.generators) == 1:
        gen = v.generators[0]
        key = v.key if isinstance(v, ast.DictComp) else v.elt
        return dotted(gen.iter) == gres and not gen.ifs and isinstance(gen.target, ast.Name) \
            and is_name(key, gen.target.id)
    return False


def _run_tests_cfg(ctx, fi, resume_layer=None):
    def src(call):
        if call_name(call) == 'run_layer':
            return frozenset([T_exact('CanNotTearDown'), T_exact('EndRun'),
                              T_open('MemoryError')])
        return None

    def branch(test):
        if resume_layer is None:
            return None
        pos, e = truth_test(test)
        if (dotted(e) or '').endswith('options.resume_layer'):
            return resume_layer if pos else (not resume_layer)
        if isinstance(e, ast.Compare) and len(e.ops) == 1 and \
                (dotted(e.left) or '').endswith('options.resume_layer') and \
                isinstance(e.comparators[0], ast.Constant) and e.comparators[0].value is None:
            v = (not resume_layer) if isinstance(e.ops[0], ast.Is) else resume_layer
            return v if pos else (not v)
        return None
    return ctx.cfg(fi, Catalogue(src), branch_oracle=branch)


def r5_after_cannot_teardown(ctx, rep, R='C01.R5'):
    rep.rule(R, 'Runner.run_tests: after CanNotTearDown (parent process) no further run_layer in '
             'this process; the unfinished layer stays queued and is handed to resume_tests; the '
             'child keeps only its own layer')
    fi = ctx.model.func('runner.Runner.run_tests')
    g = _run_tests_cfg(ctx, fi, resume_layer=False)
    RL = nodes_calling(g, lambda c: call_name(c) == 'run_layer')
    RT = nodes_calling(g, lambda c: call_name(c) == 'resume_tests')
    H = [n.id for n in g.nodes if n.kind == 'handler' and n.ast.type is not None and
         'CanNotTearDown' in norm(n.ast.type)]
    ok = len(RL) == 1 and len(RT) >= 1 and len(H) == 1
    rep.check(ok, R, 'run_layer site, CanNotTearDown handler and resume_tests site exist',
              'run_layer=%d handlers=%d resume_tests=%d' % (len(RL), len(H), len(RT)),
              key='run_tests:sites', func=fi.qualname, where=ctx.where(fi, fi.node))
    if not ok:
        return
    r = g.reach(H, include_start=True)
    rep.check(RL[0] not in r, R, 'no run_layer after CanNotTearDown in the parent',
              'run_layer is reachable again after CanNotTearDown was caught',
              key='rerun-after-cannot-teardown', func=fi.qualname,
              where=ctx.where(fi, g.node(H[0]).ast),
              path=g.describe_path(g.path(H, RL[0], include_start=True) or []))
    # queue: the local list indexed [0] for the current layer
    rtcall = [c for c in node_calls(g, RT[0]) if call_name(c) == 'resume_tests'][0]
    q = None
    for a in rtcall.args:
        if isinstance(a, ast.Name):
            for v in local_assignments(fi.node).get(a.id, []):
                if isinstance(v, ast.Call) and 'ordered_layers' in norm(v):
                    q = a.id
    rep.check(q is not None, R, 'resume_tests receives the queue built from ordered_layers()',
              'resume_tests is not given the list of remaining layers', key='resume:queue',
              func=fi.qualname, where=ctx.where(fi, rtcall))
    if q:
        from .common import removal_nodes
        pops = removal_nodes(g, q) + nodes_calling(
            g, lambda c: isinstance(c.func, ast.Attribute) and c.func.attr == 'clear' and
            is_name(c.func.value, q))
        # the only way around resume_tests is an empty queue: evaluate the guards with the queue
        # known to be non-empty and the boolean flags as set on the path
        def qatom(e):
            return True if is_name(e, q) else None
        r2 = set()
        for st in g.flag_states_at(H[0]) or [{}]:
            r2 |= g.reach_flags(H, avoid=set(RT), include_start=True, init=st, atom=qatom)
        rep.check(g.exit not in r2, R, 'resume_tests reached after CanNotTearDown',
                  'after CanNotTearDown the function can return without resume_tests although '
                  'layers remain', key='resume-skipped', func=fi.qualname,
                  where=ctx.where(fi, g.node(H[0]).ast))
        between = g.reach_flags(H, avoid=set(RT), include_start=True)
        rep.check(not any(p in between for p in pops), R,
                  'the layer that could not proceed stays queued for the subprocess',
                  'the queue is popped between the CanNotTearDown handler and resume_tests',
                  key='resume-pop', func=fi.qualname, where=ctx.where(fi, g.node(H[0]).ast))
    # child keeps only its own layer
    from .common import child_keeps_only_own_layer
    child_keeps_only_own_layer(ctx, rep, R)


def r6_final_teardown(ctx, rep, R='C01.R6'):
    rep.rule(R, 'Runner.run_tests: every path to the exit tears down the left-over layers with '
             'needed=<empty> (only an empty map may skip it), and for the arguments of that call '
             'CanNotTearDown cannot leave tear_down_unneeded, i.e. the tear-down loop visits every '
             'left-over layer')
    fi = ctx.model.func('runner.Runner.run_tests')
    g = _run_tests_cfg(ctx, fi)
    rl = [c for c in own_calls(fi.node) if call_name(c) == 'run_layer']
    # parameter names as the callee declares them today (a rename of the map is no change)
    def pname(q, i, default):
        try:
            ps_ = params(ctx.model.func(q))
            return ps_[i] if i < len(ps_) else default
        except Exception:
            return default
    p_map_rl = pname('runner.run_layer', 4, 'setup_layers')
    p_needed = pname('runner.tear_down_unneeded', 1, 'needed')
    p_map_td = pname('runner.tear_down_unneeded', 2, 'setup_layers')
    m = dotted(arg(rl[0], 4, p_map_rl)) if rl else None
    finals = []
    fcalls = []
    for n in g.nodes:
        for c in node_calls(g, n.id):
            if call_name(c) == 'tear_down_unneeded':
                needed = arg(c, 1, p_needed)
                if needed is not None and is_empty_collection(needed) and \
                        dotted(arg(c, 2, p_map_td)) == m:
                    finals.append(n.id)
                    fcalls.append(c)
    rep.check(bool(finals) and m is not None, R,
              'final tear_down_unneeded(options, <empty>, setup_layers, errors, ...)',
              'no final tear-down call with an empty needed set on the run_layer map',
              key='final-teardown:site', func=fi.qualname, where=ctx.where(fi, fi.node))
    if not finals:
        return
    # the loop of that call cannot be cut short by CanNotTearDown
    from . import c04
    from sa.escape import classes_of
    e = c04.escape_for(ctx, False, False)
    td = ctx.model.func('runner.tear_down_unneeded')
    for c in fcalls:
        v = e._spec_value(c, td) if td.qualname in e.spec else None
        toks = set()
        for val in ((True, False) if v is None else (bool(v),)):
            toks |= set(e.tokens(td.qualname, val)) if td.qualname in e.spec else set(e.tokens(td.qualname))
        esc = classes_of(toks, ctx.hier) - {'MemoryError'}
        rep.check(not esc, R, 'the final tear-down cannot be cut short (escaping: %s)'
                  % sorted(classes_of(toks, ctx.hier)),
                  '%s can leave the final tear_down_unneeded call: the layers after the first one '
                  'whose tearDown raises NotImplementedError (its bases) never get tearDown'
                  % sorted(esc), key='final-teardown:complete', func=fi.qualname,
                  where=ctx.where(fi, c))

    def edge_ok(s, d, k):
        n = g.node(s)
        if n.kind == 'test':
            pos, e_ = truth_test(n.ast)
            if is_name(e_, m) and k == ('false' if pos else 'true'):
                return False
        return True
    r = g.reach([g.entry], avoid=set(finals), include_start=True, edge_ok=edge_ok)
    rep.check(g.exit not in r, R, 'final tear-down on every path to the normal exit',
              'Runner.run_tests can return with layers still set up without the final tear-down',
              key='final-teardown:paths', func=fi.qualname,
              where=ctx.where(fi, g.node(finals[0]).ast),
              path=g.describe_path(g.path([g.entry], g.exit, avoid=set(finals), include_start=True,
                                          edge_ok=edge_ok) or []))
    rep.floor(R, len(finals), 1, 'final tear-down sites')


def r11_who_may_change_the_map(ctx, rep, R='C01.R11'):
    """The map of layers that are set up is the runner's belief about the process.  It is created once
    per run (Runner.run_tests), gains a layer only in setup_layer (after setUp returned: R2) and loses
    one only in tear_down_unneeded (after tearDown was attempted: R3).  Any other function that holds
    the map -- found by following it through resolved calls from where it is created -- only reads
    it; a removal elsewhere (the -j branch of the layer loop 'tidying' the placeholder layer, which
    in a child is the layer it has just run) makes the final tear-down skip a layer that is up."""
    rep.rule(R, 'who may change the map of set-up layers: followed from its creation in Runner.run_tests '
             'through every resolved call it is handed to, it is bound once (an empty dict), gains entries '
             'only in runner.setup_layer and loses entries only in runner.tear_down_unneeded; every other '
             'holder only reads it')
    m = ctx.model
    root = m.func('runner.Runner.run_tests')
    # the local bound to an empty dict that is handed to tear_down_unneeded
    cands = [x.targets[0].id for x in ast.walk(root.node) if isinstance(x, ast.Assign) and
             len(x.targets) == 1 and isinstance(x.targets[0], ast.Name) and
             isinstance(x.value, (ast.Dict, ast.Call)) and norm(x.value) in ('{}', 'dict()')]
    handed = set()
    for c in own_calls(root.node):
        if call_name(c) == 'tear_down_unneeded':
            handed |= {a.id for a in c.args if isinstance(a, ast.Name)}
    M0 = [x for x in cands if x in handed]
    if len(M0) != 1:
        rep.undecide(R, 'Runner.run_tests: the map of set-up layers was not identified (an empty dict handed '
                     'to tear_down_unneeded): %s' % M0, where=ctx.where(root, root.node))
        return
    holders = {root.qualname: M0[0]}
    work = [root]
    while work:
        fi = work.pop()
        nm = holders[fi.qualname]
        for c in own_calls(fi.node):
            try:
                r = ctx.cg.resolve_call(c, fi)
            except Exception:
                r = None
            if not isinstance(r, list) or len(r) != 1:
                continue
            t = r[0]
            ps = [a.arg for a in t.node.args.posonlyargs + t.node.args.args]
            for i, a in enumerate(c.args):
                if is_name(a, nm) and i < len(ps) and t.qualname not in holders:
                    holders[t.qualname] = ps[i]
                    work.append(t)
            for k in c.keywords:
                if k.arg and is_name(k.value, nm) and t.qualname not in holders:
                    holders[t.qualname] = k.arg
                    work.append(t)
    ADD_OK = ('runner.setup_layer',)
    DEL_OK = ('runner.tear_down_unneeded',)
    n = 0
    for q, nm in sorted(holders.items()):
        fi = m.func(q)
        for x in ast.walk(fi.node):
            kind = None
            if isinstance(x, ast.Delete) and any(isinstance(t, ast.Subscript) and is_name(t.value, nm) for t in x.targets):
                kind = 'del'
            elif isinstance(x, ast.Call) and isinstance(x.func, ast.Attribute) and is_name(x.func.value, nm) and \
                    x.func.attr in ('pop', 'popitem', 'clear'):
                kind = 'del'
            elif isinstance(x, ast.Call) and isinstance(x.func, ast.Attribute) and is_name(x.func.value, nm) and \
                    x.func.attr in ('update', 'setdefault', '__setitem__'):
                kind = 'add'
            elif isinstance(x, (ast.Assign, ast.AugAssign)):
                for t in (x.targets if isinstance(x, ast.Assign) else [x.target]):
                    if isinstance(t, ast.Subscript) and is_name(t.value, nm):
                        kind = 'add'
                    elif is_name(t, nm) and not (q == root.qualname and isinstance(x, ast.Assign) and
                                                 norm(x.value) in ('{}', 'dict()')):
                        kind = 'rebind'
            if kind is None:
                continue
            n += 1
            ok = (kind == 'add' and q in ADD_OK) or (kind == 'del' and q in DEL_OK)
            rep.check(ok, R, '%s: %s (%s) is allowed here' % (q, norm(x)[:50], kind),
                      '%s changes the map of set-up layers (%s: %s): only setup_layer may add and only '
                      'tear_down_unneeded may remove; a layer forgotten elsewhere is still up but is '
                      'never torn down, one added elsewhere was never set up' % (q, kind, norm(x)[:60]),
                      key='map-change:%s:%s' % (q, kind), func=q, where=ctx.where(fi, x))
    rep.floor(R, len(holders), 4, 'functions holding the map of set-up layers')
    rep.floor(R, n, 2, 'changes of the map')
