"""C10 -- layer run order: deterministic, once each, single source (structure + premises)."""
import ast

from .common import (Ctx, bases_first_premises, call_name, dotted, is_name, kw, norm, own_calls,
                     params)

P = 'C10'


def run(model, rep, tier):
    ctx = Ctx(model)
    rep.assume('not decided: that the resulting order is bases-first / unit-first for every graph '
               'and naming (an inductive fact about sorted + gather + reverse + de-duplicate); the '
               'rules check the premises that argument needs, and tie behaviour of equal sort keys '
               'is outside the claim')
    r1_input_order_sanitised(ctx, rep)
    rep.rule('C10.R2', 'once each / bases-first premises: gather_layers is a pre-order walk over all '
             'bases; order_by_bases gathers every layer into one list, reverses exactly once and '
             'keeps the first occurrence of each requested layer (seen-check keyed by the layer)')
    bases_first_premises(ctx, rep, 'C10.R2')
    from . import c03
    c03.r2_single_ordering_source(ctx, rep, R='C10.R3')
    rep.rule('C10.R5', 'each selected layer is run exactly once across the processes of a run: a '
             'child started for --resume-layer NAME keeps exactly the layer whose name equals NAME '
             '(the parent starts one child per remaining layer)')
    from .common import child_keeps_only_own_layer
    child_keeps_only_own_layer(ctx, rep, 'C10.R5')
    r4_unit_first_premises(ctx, rep)
    r6_resumed_layers_start_in_order(ctx, rep)
    from . import lifetime
    rep.rule('C10.R7', "each run sees only its own inputs (rules/lifetime.py): no function of the package is memoised across runs (functools.lru_cache / cache), module-level containers that functions add to are emptied at the start of a run, no mutable class attribute is shared through instances (mutated in place or handed out without being re-bound per instance), and no option with a mutable argparse default is mutated in place after parsing -- a second run in the same process (other layer objects under the same names, other outcomes, other filters) must not inherit the first run's state")
    lifetime.check(ctx, rep, 'C10.R7')
    from . import robust
    robust.layers_not_truth_tested(ctx, rep, 'C10.R8')
    robust.asserts_have_no_effects(ctx, rep, 'C10.R20', 'C10')
    rep.units['cfg'] = ctx.cfg_stats


def _iterations(fnode):
    """(iterated expression, node) for every for-loop / comprehension in the function"""
    out = []
    for n in ast.walk(fnode):
        if isinstance(n, ast.For):
            out.append((n.iter, n))
        elif isinstance(n, (ast.ListComp, ast.SetComp, ast.GeneratorExp, ast.DictComp)):
            for g in n.generators:
                out.append((g.iter, n))
    return out


def r1_input_order_sanitised(ctx, rep, R='C10.R1'):
    rep.rule(R, 'input order does not leak: in order_by_bases the iteration order of the argument '
             'reaches the result only through sorted(..., key=layer_sort_key); the sort key is built '
             'from layer names and base relations only (no iteration over a set, no id()/hash()); '
             'ordered_layers passes a mapping keyed by the layer objects and reads the names back by key')
    m = ctx.model
    fo = m.func('runner.order_by_bases')
    p0 = params(fo)[0]
    # first statement that touches the parameter must sanitise it
    srt = None
    for st in fo.node.body:
        if isinstance(st, ast.Assign) and isinstance(st.value, ast.Call) and \
                dotted(st.value.func) == 'sorted' and st.value.args and \
                is_name(st.value.args[0], p0) and isinstance(st.targets[0], ast.Name):
            srt = st
            break
        if any(isinstance(x, ast.Name) and x.id == p0 for x in ast.walk(st)) and \
                not (isinstance(st, ast.Expr) and isinstance(st.value, ast.Constant)):
            break
    ok = srt is not None
    if ok:
        key = kw(srt.value, 'key')
        rev = kw(srt.value, 'reverse')
        ok = key is not None and dotted(key) == 'layer_sort_key' and \
            (rev is None or isinstance(rev, ast.Constant))
    rep.check(ok, R, 'order_by_bases: %s = sorted(%s, key=layer_sort_key, ...) before any other use'
              % (srt.targets[0].id if srt else '?', p0),
              'the argument of order_by_bases is used in its incoming order (no sorted(..., '
              'key=layer_sort_key) first): the run order would depend on discovery / hash order',
              key='order_by_bases:sorted', func=fo.qualname, where=ctx.where(fo, fo.node))
    if srt is not None:
        sname = srt.targets[0].id
        leaks = []
        for it, node in _iterations(fo.node):
            if node.lineno < srt.lineno:
                leaks.append(norm(it))
            if is_name(it, p0) and sname != p0:
                leaks.append(norm(it))
        rep.check(not leaks, R, 'no iteration over the unsorted argument',
                  'order_by_bases iterates %s before/without sorting' % leaks,
                  key='order_by_bases:leak', func=fo.qualname, where=ctx.where(fo, fo.node))
        # set / dict iteration inside order_by_bases feeding the result
        hashed = []
        for n in ast.walk(fo.node):
            if isinstance(n, ast.Assign) and isinstance(n.value, (ast.Set, ast.SetComp)) or \
                    (isinstance(n, ast.Assign) and isinstance(n.value, ast.Call) and
                     dotted(n.value.func) in ('set', 'frozenset')):
                for t in n.targets:
                    if isinstance(t, ast.Name):
                        hashed.append(t.id)
        hleaks = [norm(it) for it, node in _iterations(fo.node) if dotted(it) in hashed]
        rep.check(not hleaks, R, 'no iteration over a set in order_by_bases',
                  'iteration over hash-ordered %s' % hleaks, key='order_by_bases:hash',
                  func=fo.qualname, where=ctx.where(fo, fo.node))
    fk = m.func('runner.layer_sort_key')
    sets = set()
    for n in ast.walk(fk.node):
        if isinstance(n, ast.Assign) and ((isinstance(n.value, ast.Call) and
                                           dotted(n.value.func) in ('set', 'frozenset')) or
                                          isinstance(n.value, (ast.Set, ast.SetComp))):
            for t in n.targets:
                if isinstance(t, ast.Name):
                    sets.add(t.id)
    bad = []
    for q, f2 in fk.module.functions.items():
        if f2 is fk or f2.qualname.startswith(fk.qualname + '.'):
            for it, node in _iterations(f2.node):
                if dotted(it) in sets:
                    bad.append('iteration over set %s' % dotted(it))
            for c in own_calls(f2.node):
                if dotted(c.func) in ('id', 'hash', 'repr', 'random.random', 'time.time'):
                    bad.append('%s() in the sort key' % dotted(c.func))
    rep.check(not bad, R, 'layer_sort_key uses names and base relations only',
              'the sort key depends on %s' % bad, key='sort_key:pure', func=fk.qualname,
              where=ctx.where(fk, fk.node))
    rets = [n for n in ast.walk(fk.node) if isinstance(n, ast.Return) and n.value is not None]
    okr = len(rets) == 1 and isinstance(rets[0].value, ast.Call) and \
        dotted(rets[0].value.func) == 'tuple' and 'name_from_layer' in norm(rets[0].value)
    rep.check(okr, R, 'layer_sort_key returns a tuple of layer names',
              'the sort key is %s' % [norm(r.value) for r in rets], key='sort_key:names',
              func=fk.qualname, where=ctx.where(fk, fk.node))
    fl = m.func('runner.Runner.ordered_layers')
    # the mapping layer -> name: a dict comprehension, or an empty dict filled in a loop
    mp, keyexpr = None, None
    for n in ast.walk(fl.node):
        if isinstance(n, ast.Assign) and isinstance(n.targets[0], ast.Name) and \
                isinstance(n.value, ast.DictComp) and \
                'tests_by_layer_name' in norm(n.value.generators[0].iter):
            mp, keyexpr = n.targets[0].id, n.value.key
        if isinstance(n, ast.For) and 'tests_by_layer_name' in norm(n.iter):
            for st in n.body:
                if isinstance(st, ast.Assign) and isinstance(st.targets[0], ast.Subscript) and \
                        isinstance(st.targets[0].value, ast.Name):
                    mp, keyexpr = st.targets[0].value.id, st.targets[0].slice
    oko = False
    if mp is not None:
        calls = [c for c in own_calls(fl.node) if call_name(c) == 'order_by_bases']
        oko = isinstance(keyexpr, ast.Call) and call_name(keyexpr) == 'layer_from_name' and \
            len(calls) == 1 and is_name(calls[0].args[0], mp)
        # the name yielded is read back through the mapping by the layer yielded
        ys = [n for n in ast.walk(fl.node) if isinstance(n, ast.Yield) and
              isinstance(n.value, ast.Tuple) and len(n.value.elts) == 3 and
              isinstance(n.value.elts[2], ast.Subscript)]
        if oko and len(ys) == 1:
            nm = ys[0].value.elts[0]
            src = [x for x in ast.walk(fl.node) if isinstance(x, ast.Assign) and
                   is_name(x.targets[0], dotted(nm) or '')]
            oko = (len(src) == 1 and isinstance(src[0].value, ast.Subscript) and
                   is_name(src[0].value.value, mp) and
                   norm(src[0].value.slice) == norm(ys[0].value.elts[1])) or \
                (isinstance(nm, ast.Subscript) and is_name(nm.value, mp) and
                 norm(nm.slice) == norm(ys[0].value.elts[1]))
        else:
            oko = False
    rep.check(oko, R, 'ordered_layers: order_by_bases({layer: name}) and name = mapping[layer]',
              'ordered_layers does not order the layer objects of the registered names through '
              'order_by_bases', key='ordered_layers:map', func=fl.qualname, where=ctx.where(fl, fl.node))


def r4_unit_first_premises(ctx, rep, R='C10.R4'):
    rep.rule(R, 'premises of "unit tests first": the sort key leaves out the unit-test layer (its key '
             'is the empty tuple, the minimum), the sort is descending and order_by_bases reverses '
             'the gathered list exactly once, so the minimum ends up first')
    m = ctx.model
    fk = m.func('runner.layer_sort_key')
    rets = [n for n in ast.walk(fk.node) if isinstance(n, ast.Return) and n.value is not None]
    ok = False
    if len(rets) == 1:
        for g in ast.walk(rets[0].value):
            if isinstance(g, ast.GeneratorExp) or isinstance(g, ast.ListComp):
                for c in g.generators[0].ifs:
                    if isinstance(c, ast.Compare) and isinstance(c.ops[0], (ast.NotEq, ast.IsNot)) \
                            and 'UnitTests' in norm(c.comparators[0]):
                        ok = True
    rep.check(ok, R, 'layer_sort_key excludes UnitTests from the key',
              'the unit-test layer takes part in the sort key: it is no longer guaranteed to sort '
              'before every other layer', key='unit:key', func=fk.qualname, where=ctx.where(fk, fk.node))
    fo = m.func('runner.order_by_bases')
    srt = [c for c in own_calls(fo.node) if dotted(c.func) == 'sorted']
    okd = len(srt) == 1 and kw(srt[0], 'reverse') is not None and \
        isinstance(kw(srt[0], 'reverse'), ast.Constant) and kw(srt[0], 'reverse').value is True
    rep.check(okd, R, 'order_by_bases sorts descending (reverse=True) before the single reversal',
              'the sort direction changed: with one reversal the unit layer / shared bases would '
              'come last', key='unit:descending', func=fo.qualname, where=ctx.where(fo, fo.node))
    # UnitTests has no bases of its own
    lay = m.module('layer')
    ut = lay.classes.get('UnitTests')
    okb = ut is not None and all(b in (None, 'object') for b in ut.bases)
    rep.check(okb, R, 'layer.UnitTests has no base layers', 'UnitTests derives from %s'
              % (ut.bases if ut else '?'), key='unit:bases', func='layer.UnitTests')


# ---------------------------------------------------------------------------------------------
# R6 -- layers handed to resume_tests are started in the order they were handed over

def _end_of(call):
    """which end of a list / deque the method call works on: ('put'|'take', 'head'|'tail') or None"""
    a = call.func.attr
    if a == 'append':
        return ('put', 'tail')
    if a == 'appendleft':
        return ('put', 'head')
    if a == 'insert' and call.args and norm(call.args[0]) == '0':
        return ('put', 'head')
    if a == 'popleft':
        return ('take', 'head')
    if a == 'pop':
        if not call.args or norm(call.args[0]) == '-1':
            return ('take', 'tail')
        if norm(call.args[0]) == '0':
            return ('take', 'head')
    return None


def r6_resumed_layers_start_in_order(ctx, rep, R='C10.R6'):
    rep.rule(R, 'queue discipline of resume_tests (the ordered layer list is its parameter): the '
             'per-layer subprocess threads are created in one forward pass over that parameter and '
             'started in creation order -- the container they wait in is filled at one end and '
             'drained at the OTHER (append + pop(0) / popleft, or a forward iteration).  Filling and '
             'draining at the same end starts the layers in reverse: with one process at a time a '
             'derived layer then runs before its own base layer')
    from .common import reaching_defs
    fi = ctx.model.func('runner.resume_tests')
    g = ctx.cfg(fi)
    where = ctx.where(fi, fi.node)
    P_ = 'layers' if 'layers' in params(fi) else None
    if P_ is None:
        rep.assume('C10.R6 not applied: resume_tests has no parameter named layers')
        return
    # the canonical order arrives in that parameter: it is neither re-bound nor re-ordered in place
    from .common import param_untouched
    touched = param_untouched(fi.node, P_)
    rep.check(touched is None, R, 'resume_tests uses the layers in the order given',
              'the ordered list of layers handed to resume_tests is re-bound or re-ordered (%s): the order in '
              'which the layers are started and shown depends on something else than their names and bases '
              '(number of tests, ...)' % (norm(getattr(touched, '_parent', touched))[:70] if touched is not None else ''),
              key='resume:order-given', func=fi.qualname,
              where=ctx.where(fi, touched if touched is not None else fi.node))
    # the thread containers: L.<put>(X) inside "for ... in layers" where X is / aliases a Thread(...)
    def is_thread(e, nid, depth=0):
        if isinstance(e, ast.Call) and (dotted(e.func) or '').split('.')[-1] == 'Thread':
            return True
        if isinstance(e, ast.Name) and depth < 3:
            ds = reaching_defs(g, nid, e.id)
            return bool(ds) and all(isinstance(d, ast.expr) and is_thread(d, nid, depth + 1) for d in ds)
        return False
    puts, takes, fwd = {}, {}, True
    for lp in ast.walk(fi.node):
        if not isinstance(lp, ast.For):
            continue
        it = lp.iter
        over = None
        if is_name(it, P_):
            over = 'forward'
        elif isinstance(it, ast.Call) and call_name(it) in ('enumerate', 'list', 'tuple', 'iter') and \
                it.args and is_name(it.args[0], P_):
            over = 'forward'
        elif any(is_name(x, P_) for x in ast.walk(it)):
            over = norm(it)
        if over is None:
            continue
        for nd in g.nodes:
            if nd.kind != 'stmt' or not any(x is nd.ast for x in ast.walk(lp)):
                continue
            for c in ast.walk(nd.ast):
                if isinstance(c, ast.Call) and isinstance(c.func, ast.Attribute) and \
                        isinstance(c.func.value, ast.Name) and _end_of(c) and _end_of(c)[0] == 'put' \
                        and c.args and is_thread(c.args[-1], nd.id):
                    puts.setdefault(c.func.value.id, []).append((_end_of(c)[1], c, over))
    if not puts:
        rep.assume('C10.R6 not applied: no container of per-layer threads filled in a loop over the '
                   'layers parameter of resume_tests')
        return
    n = 0
    for L, ps in sorted(puts.items()):
        for end, c, over in ps:
            rep.check(over == 'forward', R, 'threads are created in one forward pass over %s' % P_,
                      'the loop creating the threads iterates %s, not the ordered layer list as '
                      'given' % over, key='creation-order', func=fi.qualname, where=ctx.where(fi, c))
        # how are the threads taken out to be started?
        for nd in g.nodes:
            if nd.kind != 'stmt':
                continue
            for c in ast.walk(nd.ast):
                if isinstance(c, ast.Call) and isinstance(c.func, ast.Attribute) and \
                        is_name(c.func.value, L) and _end_of(c) and _end_of(c)[0] == 'take':
                    takes.setdefault(L, []).append((_end_of(c)[1], c))
        put_ends = {e for e, _c, _o in ps}
        for tend, c in takes.get(L, []):
            n += 1
            ok = len(put_ends) == 1 and tend not in put_ends
            rep.check(ok, R, '%s: filled at the %s, drained at the %s (%s)' % (
                L, '/'.join(sorted(put_ends)), tend, norm(c)),
                '%s is filled at the %s and %s takes from the %s as well: the layers are started '
                'last-first, a derived layer before the base layer it was ordered after'
                % (L, '/'.join(sorted(put_ends)), norm(c), tend), key='fifo:' + L,
                func=fi.qualname, where=ctx.where(fi, c))
        for lp in ast.walk(fi.node):
            if isinstance(lp, ast.For) and any(is_name(x, L) for x in ast.walk(lp.iter)) and \
                    any(isinstance(c, ast.Call) and isinstance(c.func, ast.Attribute) and
                        c.func.attr == 'start' for c in ast.walk(lp)):
                it = lp.iter
                if isinstance(it, ast.Call) and call_name(it) in ('list', 'tuple', 'iter') and it.args:
                    it = it.args[0]
                if is_name(it, L):
                    okf = put_ends == {'tail'}
                elif isinstance(it, ast.Call) and call_name(it) == 'reversed' and it.args and \
                        is_name(it.args[0], L):
                    okf = put_ends == {'head'}
                else:
                    continue
                n += 1
                rep.check(okf, R, 'threads started by a forward iteration over %s' % L,
                          'the threads are started iterating %s' % norm(lp.iter), key='start-iter:' + L,
                          func=fi.qualname, where=ctx.where(fi, lp))
    if not n:
        rep.assume('C10.R6 not applied: the way waiting threads are taken out and started is not of a '
                   'form this rule reads')
