"""C04 -- exceptions raised by tests and layers are contained, never abort the run."""
import ast

from sa.escape import Escape, classes_of
from . import tsrules
from .common import (Ctx, T_exact, USER_TOKENS, arg, call_name, calls_in, config_branch, dotted,
                     eval_bool, local_assignments, node_calls, nodes_calling, norm, own_calls, toks_str,
                     truth_test)

P = 'C04'
CHAIN = ['runner.setup_layer', 'runner.run_layer', 'runner.tear_down_unneeded',
         'runner.Runner.run_tests', 'debug.post_mortem', 'runner.run_tests',
         'runner.handle_layer_failure']


def run(model, rep, tier):
    ctx = Ctx(model)
    rep.assume('exception sources are catalogued (DESIGN 3.4): user layer hooks and test.debug() '
               'raise USER (any Exception subclass not named in the code), NotImplementedError, '
               'MemoryError, KeyboardInterrupt, SystemExit; explicit raise statements; result '
               'callbacks raise EndRun under post-mortem; every other call is assumed not to raise')
    r1_r2_escape(ctx, rep)
    r3_recorder(ctx, rep)
    errors_chain(ctx, rep, 'C04.R3')
    rep.rule('C04.R4', 'no exception escapes a TestResult callback because of the callback\'s own '
             'state handling, on any sequence of result events (with and without --buffer, several '
             'failures/errors per test, both unittest protocol variants)')
    tsrules.no_escape(ctx, rep, 'C04.R4')
    tsrules.record_units(rep, tsrules.exploration(ctx))
    r5_formatter_interface(ctx, rep)
    r6_summary_and_cleanup(ctx, rep)
    from . import c02
    c02.result_transfers(ctx, rep, 'C04.R6')
    r7_run_continues(ctx, rep)
    r8_optional_groups(ctx, rep)
    r10_absent_value_beliefs(ctx, rep)
    rep.rule('C04.R9', 'no callback stops the run on its own: without --stop-on-error no result '
             'event sets shouldStop (every other selected test still runs)')
    tsrules.no_stop_without_flag(ctx, rep, 'C04.R9')
    r11_totals_line(ctx, rep)
    r16_exception_values_classified_by_base(ctx, rep)
    from . import robust
    robust.argument_roles_agree(ctx, rep, 'C04.R17')
    # 'it is recorded': a layer failure recorded by the final tear-down still counts -- the verdict is
    # computed after everything that can record (shared with C02.R1)
    from . import c02 as _c02
    _c02.r1_verdict_expression(ctx, rep, R='C04.R18')
    r19_chain_walks_test_for_the_end(ctx, rep)
    r12_nullable_results(ctx, rep)
    r13_user_exceptions_not_hashed(ctx, rep)
    r14_no_user_text_as_format_string(ctx, rep)
    r15_integer_format_of_float(ctx, rep)
    from . import robust
    robust.asserts_have_no_effects(ctx, rep, 'C04.R20', 'C04')
    rep.units['cfg'] = ctx.cfg_stats


def escape_for(ctx, pm, rl):
    def src(call, fi):
        if ctx.cg.is_layer_hook_call(call) and call.func.attr in ('setUp', 'tearDown'):
            return USER_TOKENS
        if fi.qualname == 'runner.run_tests':
            d = dotted(call.func) or ''
            if d.endswith('.debug') and not call.args:
                return USER_TOKENS
            if isinstance(call.func, ast.Attribute) and call.func.attr.startswith('add') and \
                    pm and not rl:
                return [T_exact('EndRun')]
        return None
    from .c01 import optional_param
    opt = optional_param(ctx)
    return Escape(ctx, CHAIN, src, branch=config_branch({'post_mortem': pm, 'resume_layer': rl}),
                  spec={'runner.tear_down_unneeded': opt} if opt else {})


def r1_r2_escape(ctx, rep, R1='C04.R1', R2='C04.R2'):
    rep.rule(R1, 'of everything a layer setUp may raise, only MemoryError (and EndRun while '
             'post-mortem debugging) can leave run_layer as an Exception; the rest is caught and '
             'recorded')
    rep.rule(R2, 'of everything a layer tearDown may raise, only MemoryError (and '
             'CanNotTearDown when tear-down is not optional) leaves tear_down_unneeded; nothing but '
             'MemoryError leaves Runner.run_tests')
    hier = ctx.hier
    n = 0
    for pm in (False, True):
        for rl in (False, True):
            e = escape_for(ctx, pm, rl)
            cfgtxt = 'post_mortem=%d,resume_layer=%d' % (pm, rl)
            allowed = {'MemoryError'} | ({'EndRun'} if pm and not rl else set())
            # R1: run_layer
            got = classes_of(e.tokens('runner.run_layer'), hier) - {'CanNotTearDown'}
            extra = got - allowed
            fi = ctx.model.func('runner.run_layer')
            rep.check(not extra, R1, 'run_layer [%s]: escaping Exception classes %s' % (
                cfgtxt, sorted(got)), 'exceptions of a layer setUp can leave run_layer: %s '
                '(escape sets: %s)' % (sorted(extra), e.describe()),
                key='run_layer escapes %s' % sorted(extra), func=fi.qualname,
                where=ctx.where(fi, fi.node), path=_witness(e, 'runner.run_layer', extra))
            # nothing on the way swallows a setUp exception silently: with post-mortem off every
            # Exception class a setUp may raise still leaves setup_layer (run_layer's handler, which
            # is checked below, records it)
            if not pm:
                got_s = classes_of(e.tokens('runner.setup_layer'), hier)
                lost = {'Exception', 'NotImplementedError'} - got_s
                fs_ = ctx.model.func('runner.setup_layer')
                rep.check(not lost, R1, 'setup_layer [%s]: what layer.setUp() raises reaches the '
                          'recording handler in run_layer (%s)' % (cfgtxt, sorted(got_s)),
                          'an exception of class %s raised by a layer\'s setUp is swallowed inside '
                          'setup_layer: the layer counts as set up, its tests run and nothing is '
                          'recorded' % sorted(lost), key='setup_layer swallows %s' % sorted(lost),
                          func=fs_.qualname, where=ctx.where(fs_, fs_.node))
            # setup failures are recorded: the handler that swallows USER calls handle_layer_failure
            n += 1
            for opt in (False, True):
                got = classes_of(e.tokens('runner.tear_down_unneeded', opt)
                                 if 'runner.tear_down_unneeded' in e.spec else
                                 e.tokens('runner.tear_down_unneeded'), hier)
                al = {'MemoryError'} | (set() if opt else {'CanNotTearDown'})
                extra = got - al
                fi = ctx.model.func('runner.tear_down_unneeded')
                rep.check(not extra, R2, 'tear_down_unneeded(optional=%s) [%s]: escaping %s'
                          % (opt, cfgtxt, sorted(got)),
                          'exceptions of a layer tearDown can leave tear_down_unneeded: %s'
                          % sorted(extra), key='tear_down_unneeded(optional=%s) escapes %s'
                          % (opt, sorted(extra)), func=fi.qualname, where=ctx.where(fi, fi.node),
                          path=_witness(e, 'runner.tear_down_unneeded', extra, opt))
                n += 1
            got = classes_of(e.tokens('runner.Runner.run_tests'), hier)
            extra = got - {'MemoryError'}
            fi = ctx.model.func('runner.Runner.run_tests')
            rep.check(not extra, R2, 'Runner.run_tests [%s]: escaping %s' % (cfgtxt, sorted(got)),
                      'an exception of a layer hook or test aborts Runner.run_tests: %s (escape '
                      'sets: %s)' % (sorted(extra), e.describe()),
                      key='Runner.run_tests escapes %s' % sorted(extra), func=fi.qualname,
                      where=ctx.where(fi, fi.node),
                      path=_witness(e, 'runner.Runner.run_tests', extra))
            n += 1
            if not pm and not rl:
                rep.sample('escape sets [%s]: %s' % (cfgtxt, e.describe()))
    # the swallowing handlers record the failure
    for q, hook, label in (('runner.run_layer', 'setup_layer', 'SetUpLayerFailure'),
                           ('runner.tear_down_unneeded', None, 'TearDownLayerFailure')):
        fi = ctx.model.func(q)
        e = escape_for(ctx, False, False)
        g = e.cfg(q, False) if q in e.spec else e.cfg(q)
        hs = [nd for nd in g.nodes if nd.kind == 'handler' and any(
            T_exact('Exception') in g.exc_toks.get((s, nd.id), ()) for s, k in g.pred[nd.id])]
        rec = nodes_calling(g, lambda c: call_name(c) == 'handle_layer_failure')
        ok = bool(hs)
        for h in hs:
            r = g.reach([h.id], avoid=set(rec), include_start=True)
            loops = [x.id for x in g.nodes if x.kind == 'for']
            if g.exit in r or any(lp in r for lp in loops):
                ok = False
        rule = R1 if hook else R2
        rep.check(ok, rule, '%s: the handler that contains a hook exception records it '
                  '(handle_layer_failure)' % q, 'an exception of the layer hook is swallowed in %s '
                  'without handle_layer_failure' % q, key=q + ':records', func=fi.qualname,
                  where=ctx.where(fi, fi.node))
        n += 1
    rep.floor(R1, n, 10, 'escape obligations')


def _witness(e, q, extra, specval=None):
    if not extra:
        return None
    g = e.cfg(q, specval) if q in e.spec else e.cfg(q)
    for nid, toks in g.escape_sources:
        if any(c in extra for _, c in toks):
            p = g.path([g.entry], nid, include_start=True)
            if p:
                return g.describe_path(p) + ['-> raises %s out of %s' % (toks_str(toks), q)]
    return None


def r3_recorder(ctx, rep, R='C04.R3'):
    rep.rule(R, 'the failure recorder itself does not fail: it appends to errors on every path and '
             'uses a formatter method that only some formatters have only under a hasattr guard')
    fi = ctx.model.func('runner.handle_layer_failure')
    # every call in it may raise (the formatter writes to a stream, the traceback formatter walks user
    # objects): a handler in the recorder that swallows such an exception is a NORMAL exit as well
    from sa.cfg import AnyCall
    g = ctx.cfg(fi, oracle=AnyCall())
    ps = [a.arg for a in fi.node.args.args]
    app = nodes_calling(g, lambda c: isinstance(c.func, ast.Attribute) and c.func.attr == 'append'
                        and dotted(c.func.value) in ps)
    ok, _ = g.every_path_passes([g.entry], [g.exit], set(app), include_start=True)
    rep.check(ok and bool(app), R, 'handle_layer_failure appends to its errors list on every path',
              'a path through handle_layer_failure does not record the failure',
              key='handle_layer_failure:append', func=fi.qualname, where=ctx.where(fi, fi.node))


def errors_chain(ctx, rep, R):
    """The list in which a layer failure is recorded is the run's errors accumulator all the way up
    (handle_layer_failure <- tear_down_unneeded / run_layer <- Runner.run_tests: ``self.errors``):
    a record made in a list of the function's own is lost when the function is left by an exception
    (CanNotTearDown after an earlier tearDown of the same pass had failed)."""
    m = ctx.model
    rec = m.func('runner.handle_layer_failure')
    ps = [a.arg for a in rec.node.args.args]
    tgt = [dotted(c.func.value) for c in own_calls(rec.node) if isinstance(c.func, ast.Attribute)
           and c.func.attr == 'append' and dotted(c.func.value) in ps]
    if not tgt:
        return          # reported by r3_recorder
    seen = set()
    n = [0]

    def follow(callee, pname, depth=0):
        if (callee.qualname, pname) in seen or depth > 6:
            return
        seen.add((callee.qualname, pname))
        names = [a.arg for a in callee.node.args.posonlyargs + callee.node.args.args]
        off = 1 if names and names[0] in ('self', 'cls') else 0
        idx = names.index(pname) - off if pname in names else None
        for fi in m.all_functions():
            if fi.module is not callee.module:
                continue
            for c in own_calls(fi.node):
                if call_name(c) != callee.name or (isinstance(c.func, ast.Attribute) and
                                                    dotted(c.func.value) not in ('self',)):
                    continue
                if fi is callee and callee.name == fi.name and c in list(own_calls(callee.node)) \
                        and dotted(arg(c, idx, pname)) == pname:
                    continue                      # recursive call passing its own parameter
                a = arg(c, idx, pname)
                n[0] += 1
                d = dotted(a) if a is not None else None
                cps = [x.arg for x in fi.node.args.posonlyargs + fi.node.args.args]
                if d == 'self.errors':
                    rep.ok(R, '%s: %s(... %s ...) records in the run\'s errors accumulator' % (
                        fi.qualname, callee.name, d))
                elif d in cps and d not in local_assignments(fi.node):
                    rep.ok(R, '%s: %s(... %s ...) passes its own errors parameter on' % (
                        fi.qualname, callee.name, d))
                    follow(fi, d, depth + 1)
                else:
                    # a list of the function's own: fine only if the function cannot be left by an
                    # exception between the record and the hand-over of the list
                    esc = set()
                    try:
                        for pm in (False, True):
                            e = escape_for(ctx, pm, False)
                            key = fi.qualname
                            toks = set()
                            for k, v in e.summary.items():
                                if (k if isinstance(k, str) else k[0]) == key:
                                    toks |= set(v)
                            esc |= classes_of(toks, ctx.hier) - {'MemoryError'}
                    except Exception:
                        esc = {'?'}
                    if esc:
                        rep.bad(R, '%s: %s(... %s ...)' % (fi.qualname, callee.name, norm(a) if a is not None else '?'),
                                'the failure is recorded in %s, which is not the errors list handed down '
                                'from the Runner; %s can be left by %s, and then the record never reaches '
                                'the verdict' % (norm(a) if a is not None else 'nothing', fi.name, sorted(esc)),
                                key='errors-chain:%s' % fi.qualname, where=ctx.where(fi, c), func=fi.qualname)
                    else:
                        rep.undecide(R, 'errors-chain:%s' % fi.qualname, 'failures are recorded in %s and '
                                     'travel by another route than the errors parameter; not followed'
                                     % (norm(a) if a is not None else '?'))
    follow(rec, tgt[0])
    rep.floor(R, n[0], 4, 'links of the errors chain')


# ------------------------------------------------------------------------------------------

def _sig_accepts(fi, call):
    a = fi.node.args
    names = [x.arg for x in a.posonlyargs + a.args]
    if names and names[0] in ('self', 'cls'):
        names = names[1:]
    npos = len(call.args)
    if any(isinstance(x, ast.Starred) for x in call.args) or any(k.arg is None for k in call.keywords):
        return True, ''
    if npos > len(names) and a.vararg is None:
        return False, 'takes %d positional arguments, %d given' % (len(names), npos)
    allnames = set(names) | {x.arg for x in a.kwonlyargs}
    for k in call.keywords:
        if k.arg not in allnames and a.kwarg is None:
            return False, 'has no parameter %r' % k.arg
        if k.arg in names[:npos]:
            return False, 'parameter %r given twice' % k.arg
    nreq = len(names) - len(a.defaults)
    given = set(names[:npos]) | {k.arg for k in call.keywords}
    for nm in names[:nreq]:
        if nm not in given:
            return False, 'required parameter %r missing' % nm
    for kwo, d in zip(a.kwonlyargs, a.kw_defaults):
        if d is None and kwo.arg not in given:
            return False, 'required keyword %r missing' % kwo.arg
    return True, ''


def _guard_atoms(node, stop):
    """atoms (normalised text, polarity) of the if-tests enclosing *node* inside function *stop*"""
    out = []
    child = node
    cur = getattr(node, '_parent', None)
    while cur is not None and cur is not stop:
        if isinstance(cur, ast.If):
            if child in cur.body or any(child is x for x in cur.body):
                out.append((cur.test, True))
            elif any(child is x for x in cur.orelse):
                out.append((cur.test, False))
        if isinstance(cur, ast.IfExp):
            if child is cur.body:
                out.append((cur.test, True))
            elif child is cur.orelse:
                out.append((cur.test, False))
        child = cur
        cur = getattr(cur, '_parent', None)
    return out


def r5_formatter_interface(ctx, rep):
    R = 'C04.R5'
    rep.rule(R, 'every formatter method used by the runner exists, with a compatible signature, on '
             'every output formatter class (OutputFormatter, Colorful, Subunit, SubunitV2) and is '
             'forwarded completely by the XML wrapper; methods that exist on some formatters only '
             'are used under a hasattr guard or under the option that installs their owner')
    m = ctx.model
    sibs = ctx.cg.formatter_classes()
    rep.check(len(sibs) >= 4, R, 'formatter sibling classes found: %s' % [c.name for c in sibs],
              'expected the four formatter classes', key='siblings')
    wrapper = m.cls('formatter.XMLOutputFormattingWrapper')
    sites = 0
    methods = set()
    for fi in m.all_functions():
        if fi.module.name == 'formatter':
            continue
        for n in ast.walk(fi.node):
            if not (isinstance(n, ast.Attribute) and isinstance(n.ctx, ast.Load)):
                continue
            if not ctx.cg.is_formatter_receiver(n.value, fi):
                continue
            owner = n
            while getattr(owner, '_parent', None) is not None and \
                    not isinstance(owner, (ast.FunctionDef, ast.AsyncFunctionDef)):
                owner = owner._parent
            if owner is not fi.node:
                continue       # belongs to a nested function, visited on its own
            name = n.attr
            call = n._parent if isinstance(getattr(n, '_parent', None), ast.Call) and \
                n._parent.func is n else None
            sites += 1
            methods.add(name)
            missing = [c.name for c in sibs if m.find_method(c, name) is None and
                       name not in _class_attrs(m, c)]
            construct = '%s: output.%s' % (fi.qualname, name)
            if missing:
                from .common import guard_literals
                guards = guard_literals(ctx, fi, n)
                hg = any(isinstance(t, ast.Call) and dotted(t.func) == 'hasattr' and pos and
                         len(t.args) == 2 and isinstance(t.args[1], ast.Constant) and
                         t.args[1].value == name for t, pos in guards)
                corr = False
                if name in wrapper.methods:
                    # defined by the XML wrapper only: the use must be under the same option
                    # atom under which Runner.configure installs the wrapper
                    atoms_use = {norm(truth_test(t)[1]).split('.')[-1] for t, pos in guards if pos}
                    atoms_inst = _wrapper_install_atoms(ctx)
                    corr = bool(atoms_use & atoms_inst)
                rep.check(hg or corr, R, construct + ' (guarded optional method)',
                          'formatter method %r is missing on %s and the use is not guarded by '
                          'hasattr or by the option that installs its owner' % (name, missing),
                          key=construct, func=fi.qualname, where=ctx.where(fi, n))
                continue
            bad = []
            if call is not None:
                for c in sibs:
                    ok, why = _sig_accepts(m.find_method(c, name), call)
                    if not ok:
                        bad.append('%s.%s %s' % (c.name, name, why))
                if name in wrapper.methods:
                    ok, why = _sig_accepts(wrapper.methods[name], call)
                    if not ok:
                        bad.append('%s.%s %s' % (wrapper.name, name, why))
            rep.check(not bad, R, construct, 'call %s is not accepted by every formatter: %s'
                      % (norm(call) if call is not None else name, '; '.join(bad)),
                      key=construct + ':' + (norm(call) if call is not None else ''),
                      func=fi.qualname, where=ctx.where(fi, n))
    rep.floor(R, sites, 50, 'formatter use sites')
    rep.floor(R, len(methods), 26, 'distinct formatter methods')
    wrapper_forwards(ctx, rep, R)


def wrapper_forwards(ctx, rep, R):
    m = ctx.model
    wrapper = m.cls('formatter.XMLOutputFormattingWrapper')
    # the wrapper forwards every parameter of what it overrides
    base = m.cls('formatter.OutputFormatter')
    for name, wf in sorted(wrapper.methods.items()):
        bf = m.find_method(base, name)
        if bf is None or name.startswith('_'):
            continue
        wparams = [a.arg for a in wf.node.args.args][1:]
        bparams = [a.arg for a in bf.node.args.args][1:]
        fw = [c for c in own_calls(wf.node) if isinstance(c.func, ast.Attribute) and
              c.func.attr == name and (dotted(c.func.value) or '').endswith('delegate')]
        from .common import guard_literals
        full = bool(fw)
        partial_why = ''
        for c in fw:
            passed = {dotted(a) for a in c.args} | {dotted(k.value) for k in c.keywords}
            missing = [p_ for p_ in wparams if p_ not in passed]
            if missing:
                # a parameter may be left out only where it is known to be None (the delegate's
                # default): the guard of this call must say so for each omitted parameter
                lits = [(norm(e), pos) for e, pos in guard_literals(ctx, wf, c)]
                for p_ in missing:
                    if ('%s is None' % p_, True) not in lits:
                        full = False
                        partial_why = ('%s is not passed on by %s although it is not known to be None '
                                       'there (guard: %s)' % (p_, norm(c)[:50], lits))
        g = ctx.cfg(wf)
        fwn = nodes_calling(g, lambda c: c in fw)
        every, _ = g.every_path_passes([g.entry], [g.exit], set(fwn), include_start=True)
        rep.check(wparams == bparams and full and every and bool(fw), R,
                  'XML wrapper %s forwards to the delegate with all parameters on every path' % name,
                  'the wrapper override %s%s does not forward everything to the wrapped formatter: %s'
                  % (name, tuple(wparams), partial_why), key='wrapper:' + name, func=wf.qualname,
                  where=ctx.where(wf, wf.node))


def _class_attrs(m, c):
    out = set()
    for k in m.mro(c):
        out |= set(k.attrs)
    return out


def _wrapper_install_atoms(ctx):
    fi = ctx.model.func('runner.Runner.configure')
    out = set()
    for n in ast.walk(fi.node):
        if isinstance(n, ast.Call) and (dotted(n.func) or '').endswith('XMLOutputFormattingWrapper'):
            for t, pos in _guard_atoms(n, fi.node):
                if pos:
                    out.add(norm(truth_test(t)[1]).split('.')[-1])
    return out


def r6_summary_and_cleanup(ctx, rep):
    R = 'C04.R6'
    rep.rule(R, 'the per-layer summary is produced on every exception-free path of each iteration '
             'of function run_tests, and Runner.run reports after the clean-up finally')
    fi = ctx.model.func('runner.run_tests')
    g = ctx.cfg(fi)
    from .common import repeat_loop
    _rl = repeat_loop(ctx, fi, g)
    loops = [_rl] if _rl is not None else []
    summ = nodes_calling(g, lambda c: isinstance(c.func, ast.Attribute) and c.func.attr == 'summary'
                         and ctx.cg.is_formatter_receiver(c.func.value, fi))
    ok = bool(loops) and bool(summ)
    if ok:
        h = loops[0]
        body = [d for d, k in g.succ[h.id] if k == 'true']
        r = g.reach(body, avoid=set(summ), include_start=True)
        ok = h.id not in r and g.exit not in r
    rep.check(ok, R, 'run_tests: output.summary(...) on every path of an iteration',
              'an iteration of the repeat loop can complete without printing the summary',
              key='run_tests:summary', func=fi.qualname, where=ctx.where(fi, fi.node))
    fr = ctx.model.func('runner.Runner.run')
    gr = ctx.cfg(fr)
    rt = nodes_calling(gr, lambda c: dotted(c.func) == 'self.run_tests')
    reports = nodes_calling(gr, lambda c: isinstance(c.func, ast.Attribute) and c.func.attr == 'report')
    ok = bool(rt) and bool(reports)
    if ok:
        # with show_report the report loop is reached on the normal path
        r = gr.reach(rt, include_start=False, edge_ok=lambda s, d, k: k != 'exc')
        ok = any(x in r for x in reports)
    rep.check(ok, R, 'Runner.run: feature.report() reachable after run_tests',
              'the report phase is not reached after the test phase', key='Runner.run:report',
              func=fr.qualname, where=ctx.where(fr, fr.node))


def r7_run_continues(ctx, rep):
    R = 'C04.R7'
    rep.rule(R, 'after a layer whose set-up failed (run_layer returned normally) the layer loop of '
             'Runner.run_tests goes on to the next layer (sequential run, no --stop-on-error); the '
             'left-over layers are torn down afterwards')
    fi = ctx.model.func('runner.Runner.run_tests')

    def atom(e):
        s = norm(e)
        if 'stop_on_error' in s:
            return False
        if 'processes' in s and isinstance(e, ast.Compare):
            return False
        if (dotted(e) or '').split('.')[-1] in ('failures', 'errors', 'import_errors'):
            return True            # assume earlier layers did fail
        return None

    def br(t):
        return eval_bool(t, atom)
    g = ctx.cfg(fi, branch_oracle=br)
    rl = nodes_calling(g, lambda c: call_name(c) == 'run_layer')
    heads = [n.id for n in g.nodes if n.kind == 'test' and isinstance(n.stmt, ast.While)]
    ok = bool(rl) and bool(heads)
    if ok:
        r = g.reach(rl, edge_ok=lambda s, d, k: k != 'exc')
        ok = heads[0] in r and any((s, heads[0]) in g.back for s in r | set(rl))
        # and the entry that was run is removed before the loop continues (progress)
        from .common import removal_nodes, queue_name
        pops = removal_nodes(g, queue_name(fi) or 'layers_to_run', front_only=True)
        r2 = g.reach(rl, avoid=set(pops), edge_ok=lambda s, d, k: k != 'exc')
        ok = ok and heads[0] not in r2
    rep.check(ok, R, 'Runner.run_tests: loop continues with the next layer after run_layer returned',
              'the layer loop does not continue (or does not advance) after a layer completed',
              key='run_tests:continue', func=fi.qualname, where=ctx.where(fi, fi.node))
    from . import c01
    c01.r6_final_teardown(ctx, rep, R='C04.R7')
    c01.map_chain(ctx, rep, 'C04.R7')


STR_ONLY_METHODS = ('writelines', 'write', 'join')


def r8_optional_groups(ctx, rep, R='C04.R8'):
    rep.rule(R, 'failure reporting does not fail on its own data: a capture group that can be unset '
             'in a successful match of a constant regular expression (computed from the regex '
             'syntax tree) never reaches a str-only API (writelines / write / join / + str) '
             'without a None guard -- such a TypeError would escape from the result callback and '
             'abort the run')
    from sa.regexgroups import optional_groups
    from sa.variance import path_literals
    m = ctx.model
    sites = 0

    def pattern_of(fi, mv, upto):
        pat = None
        for x in ast.walk(fi.node):
            if isinstance(x, ast.Assign) and len(x.targets) == 1 and \
                    isinstance(x.targets[0], ast.Name) and x.targets[0].id == mv and \
                    isinstance(x.value, ast.Call) and x.lineno <= upto:
                d = m.resolve_dotted(fi.module, dotted(x.value.func)) or ''
                if d in ('re.match', 're.search', 're.fullmatch') and x.value.args and \
                        isinstance(x.value.args[0], ast.Constant):
                    pat = x.value.args[0].value
                elif isinstance(x.value.func, ast.Attribute) and \
                        x.value.func.attr in ('match', 'search', 'fullmatch'):
                    c = fi.module.constants.get(dotted(x.value.func.value) or '')
                    if isinstance(c, ast.Call) and c.args and isinstance(c.args[0], ast.Constant):
                        pat = c.args[0].value
        return pat

    def str_only_uses(fnode, names, after=0):
        bad = []
        for use in ast.walk(fnode):
            if isinstance(use, ast.Name) and use.id in names and \
                    isinstance(use.ctx, ast.Load) and getattr(use, 'lineno', 0) >= after:
                par = use._parent
                sink = None
                if isinstance(par, (ast.List, ast.Tuple)) and isinstance(par._parent, ast.Call) and \
                        isinstance(par._parent.func, ast.Attribute) and \
                        par._parent.func.attr in STR_ONLY_METHODS:
                    sink = par._parent.func.attr
                elif isinstance(par, ast.Call) and isinstance(par.func, ast.Attribute) and \
                        par.func.attr in ('write',) and use in par.args:
                    sink = 'write'
                elif isinstance(par, ast.BinOp) and isinstance(par.op, ast.Add):
                    sink = '+'
                if sink:
                    guarded = any((is_name_(e, use.id) and pos) or
                                  (norm(e) == '%s is None' % use.id and not pos)
                                  for e, pos in path_literals(use, fnode))
                    if not guarded:
                        bad.append((use.id, sink))
        return bad

    for fi in m.all_functions():
        for n in ast.walk(fi.node):
            # form 1:  a, b, c = m.groups()
            if isinstance(n, ast.Assign) and isinstance(n.value, ast.Call) and \
                    isinstance(n.value.func, ast.Attribute) and n.value.func.attr == 'groups' and \
                    isinstance(n.value.func.value, ast.Name) and \
                    isinstance(n.targets[0], (ast.Tuple, ast.List)):
                pat = pattern_of(fi, n.value.func.value.id, n.lineno)
                if pat is None:
                    continue
                og = optional_groups(pat)
                if og is None:
                    rep.undecide(R, '%s: %r' % (fi.qualname, pat), 'cannot parse the pattern')
                    continue
                sites += 1
                ng, opt = og
                names = [e.id if isinstance(e, ast.Name) else None for e in n.targets[0].elts]
                maybe_none = {nm for i, nm in enumerate(names, 1) if nm and i in opt}
                bad = ['%d names unpack %d groups' % (len(names), ng)] if len(names) != ng else []
                bad += ['group variable %r (optional in %r) reaches %s' % (v, pat, sk)
                        for v, sk in str_only_uses(fi.node, maybe_none, n.lineno)]
                rep.check(not bad, R, '%s: groups of %r are all set when used as str' % (fi.qualname, pat[:40]),
                          '; '.join(sorted(set(bad))), key='groups:%s:%s' % (fi.qualname, pat[:40]),
                          func=fi.qualname, where=ctx.where(fi, n))
            # form 2:  helper(x, *m.groups())
            if isinstance(n, ast.Call):
                st = [a for a in n.args if isinstance(a, ast.Starred) and isinstance(a.value, ast.Call)
                      and isinstance(a.value.func, ast.Attribute) and a.value.func.attr == 'groups'
                      and isinstance(a.value.func.value, ast.Name)]
                if not st:
                    continue
                pat = pattern_of(fi, st[0].value.func.value.id, n.lineno)
                r = ctx.cg.resolve_call(n, fi)
                if pat is None or not isinstance(r, list) or len(r) != 1:
                    continue
                og = optional_groups(pat)
                if og is None:
                    continue
                sites += 1
                ng, opt = og
                callee = r[0]
                ps = [a.arg for a in callee.node.args.args]
                if ps and ps[0] in ('self', 'cls'):
                    ps = ps[1:]
                start = n.args.index(st[0])
                bound = ps[start:start + ng]
                maybe_none = {nm for i, nm in enumerate(bound, 1) if i in opt}
                bad = ['%d parameters receive %d groups' % (len(bound), ng)] if len(bound) != ng else []
                bad += ['group parameter %r (optional in %r) reaches %s in %s' % (v, pat, sk, callee.qualname)
                        for v, sk in str_only_uses(callee.node, maybe_none)]
                rep.check(not bad, R, '%s: groups of %r passed to %s are all set when used as str'
                          % (fi.qualname, pat[:40], callee.name), '; '.join(sorted(set(bad))),
                          key='groups:%s:%s' % (fi.qualname, pat[:40]), func=fi.qualname,
                          where=ctx.where(fi, n))
    rep.floor(R, sites, 2, 'regex group unpacking sites')


def is_name_(e, name):
    return isinstance(e, ast.Name) and e.id == name


def r10_absent_value_beliefs(ctx, rep, R='C04.R10'):
    rep.rule(R, 'caller and callee agree on what "no value" means (contradiction rule): where a call '
             'site passes a falsy non-None constant (False, 0, "", ()) for a parameter whose default '
             'is None -- i.e. the caller means "absent" -- the callee must treat the parameter by '
             'truthiness; if it only tests "is None", the constant flows on as a real value (e.g. a '
             'bool used as a traceback while a layer failure is being reported)')
    m = ctx.model
    n = 0
    for fi in m.all_functions():
        for c in own_calls(fi.node):
            r = ctx.cg.resolve_call(c, fi)
            if not isinstance(r, list):
                continue
            for callee in r:
                a = callee.node.args
                names = [x.arg for x in a.posonlyargs + a.args]
                offs = 1 if names and names[0] in ('self', 'cls') and callee.cls is not None and \
                    not (isinstance(c.func, ast.Attribute) and dotted(c.func.value) in
                         (callee.cls.name,)) else 0
                defaults = dict(zip(names[len(names) - len(a.defaults):], a.defaults))
                bound = list(zip(names[offs:], c.args)) + [(k.arg, k.value) for k in c.keywords if k.arg]
                for pname, val in bound:
                    d = defaults.get(pname)
                    if not (isinstance(d, ast.Constant) and d.value is None):
                        continue
                    falsy = (isinstance(val, ast.Constant) and val.value is not None and not val.value
                             and not isinstance(val.value, (int,)) or
                             (isinstance(val, ast.Constant) and val.value is False) or
                             (isinstance(val, (ast.Tuple, ast.List, ast.Dict)) and
                              not getattr(val, 'elts', getattr(val, 'keys', None))))
                    if not falsy:
                        continue
                    n += 1
                    none_tests, truthy = 0, 0
                    for x in ast.walk(callee.node):
                        if isinstance(x, ast.Compare) and isinstance(x.left, ast.Name) and \
                                x.left.id == pname and isinstance(x.ops[0], (ast.Is, ast.IsNot)) and \
                                isinstance(x.comparators[0], ast.Constant) and \
                                x.comparators[0].value is None:
                            none_tests += 1
                        if isinstance(x, ast.BoolOp) and any(isinstance(v, ast.Name) and v.id == pname
                                                             for v in x.values[:-1]):
                            truthy += 1
                        if isinstance(x, (ast.If, ast.While, ast.IfExp)):
                            t = x.test
                            while isinstance(t, ast.UnaryOp) and isinstance(t.op, ast.Not):
                                t = t.operand
                            if isinstance(t, ast.Name) and t.id == pname:
                                truthy += 1
                    rep.check(not (none_tests and not truthy), R,
                              '%s passes %s for %s(%s=None): callee treats it by truthiness'
                              % (fi.qualname, norm(val), callee.qualname, pname),
                              '%s passes the falsy constant %s for parameter %r (default None) of %s, '
                              'but the callee only tests "%s is None": %s is then used as a real value'
                              % (fi.qualname, norm(val), pname, callee.qualname, pname, norm(val)),
                              key='absent:%s->%s:%s' % (fi.qualname, callee.qualname, pname),
                              func=callee.qualname, where=ctx.where(fi, c))
    if n:
        rep.ok(R, '%d call site(s) pass a falsy constant for a None-default parameter' % n)
    else:
        # a contradiction rule has nothing to say when no call site states the belief any more
        # (the constant may travel through a local now): not a violation, not a broken anchor
        rep.assume('%s: no call site passes a falsy non-None constant for a None-default parameter; '
                   'nothing to compare' % R)


# ---------------------------------------------------------------------------------------------
# R11 -- the run-wide totals line is produced also when a layer failed to set up

def r11_totals_line(ctx, rep, R='C04.R11'):
    rep.rule(R, 'the run-wide summary line: Statistics.report emits output.totals(...) unless tests '
             'were not run or exactly ONE layer was turned to (then the per-layer summary is the '
             'total) -- decided by evaluating the guards that dominate the totals call over '
             'layers counted in {0,1,2,3} x do_run_tests; and the count it uses is taken per layer '
             'the runner turns to, not per layer that came up: in Runner.run_tests the layer_setup '
             'hook loop lies on every path from picking the next layer to run_layer (it dominates '
             'the call), so a layer whose setUp raises is counted and a run of one healthy and one '
             'broken layer still gets its "Total:" line with the error')
    from sa.variance import UNKNOWN, eval_guard
    st = None
    for ci in ctx.model.all_classes():
        if ci.name == 'Statistics' and 'report' in ci.methods:
            st = ci
    if st is None:
        from sa.srcmodel import AnalysisError
        raise AnalysisError('anchor vanished: statistics.Statistics.report')
    fr = st.methods['report']
    g = ctx.cfg(fr)
    tot = nodes_calling(g, lambda c: isinstance(c.func, ast.Attribute) and c.func.attr == 'totals')
    rep.floor(R, len(tot), 1, 'output.totals call in Statistics.report')
    # the counter: attribute of self incremented in the layer_setup hook
    cnt = None
    ls = st.methods.get('layer_setup')
    if ls is not None:
        for n in ast.walk(ls.node):
            if isinstance(n, ast.AugAssign) and isinstance(n.op, ast.Add) and norm(n.value) == '1' and \
                    isinstance(n.target, ast.Attribute):
                cnt = norm(n.target)
            if isinstance(n, ast.Assign) and len(n.targets) == 1 and \
                    norm(n.value) == norm(n.targets[0]) + ' + 1':
                cnt = norm(n.targets[0])
    rep.check(cnt is not None, R, 'Statistics.layer_setup counts the layers (%s += 1)' % cnt,
              'Statistics.layer_setup does not count the layers the runner turns to',
              key='counter', func=st.name + '.layer_setup', where=ctx.where(fr, fr.node))
    if tot and cnt:
        from .common import expander
        lits = g.dominating_literals(tot[0], expand=expander(fr.node))
        for k in (0, 1, 2, 3):
            for do in (True, False):
                env = {cnt: k, 'self.runner.do_run_tests': do}
                vals = []
                for e, pos in lits:
                    v = eval_guard(e, env)
                    vals.append(UNKNOWN if v is UNKNOWN else (bool(v) == pos))
                if any(v is UNKNOWN for v in vals):
                    rep.assume('%s: a guard of the totals call is outside the finite domain (%s)'
                               % (R, [norm(e) for e, _p in lits]))
                    break
                printed = all(vals)
                want = do and k != 1
                rep.check(printed == want, R,
                          'totals line with %d layer(s) counted, do_run_tests=%s: %s' % (
                              k, do, 'printed' if want else 'not printed'),
                          'with %d layer(s) counted and do_run_tests=%s the totals line is %s (guards: %s)'
                          % (k, do, 'printed' if printed else 'NOT printed',
                             ' and '.join(('(%s)' if p_ else 'not (%s)') % norm(e_) for e_, p_ in lits)),
                          key='totals-guard:%d:%s' % (k, do), func=fr.qualname, where=ctx.where(fr, fr.node))
    # the hook loop dominates run_layer
    fi = ctx.model.func('runner.Runner.run_tests')
    g2 = ctx.cfg(fi)
    rl = nodes_calling(g2, lambda c: call_name(c) == 'run_layer')
    hk = nodes_calling(g2, lambda c: isinstance(c.func, ast.Attribute) and c.func.attr == 'layer_setup')
    ok = bool(rl) and bool(hk)
    if ok:
        dom = g2.dominators()
        # the loop over the features may run zero times: it is the loop head that has to dominate
        heads = [n.id for n in g2.nodes if n.kind == 'for' and any(
            any(x is g2.node(h).ast for x in ast.walk(n.stmt)) for h in hk)]
        ok = all(any(h in dom[r] for h in hk + heads) for r in rl)
        if ok:
            # and unconditionally for every feature: the hook call sits in a loop over the features
            # whose body has no guard other than the feature being active
            for h in hk:
                lits = [(e, p_) for e, p_ in g2.dominating_literals(h)
                        if not (isinstance(e, ast.Attribute) and e.attr == 'active') and
                        'layers_to_run' not in norm(e) and 'should_resume' not in norm(e)]
                if any('setup_layers' in norm(e) for e, _p in lits):
                    ok = False
    rep.check(ok, R, 'Runner.run_tests: the layer_setup hooks are called for every layer before '
              'run_layer (dominance)', 'the layer_setup hooks are not called on every path to '
              'run_layer, or only for layers that came up: a layer whose setUp raised is not counted '
              'and the run-wide totals line is suppressed as if a single layer had run',
              key='hook-before-run_layer', func=fi.qualname,
              where=ctx.where(fi, g2.node(hk[0]).ast) if hk else ctx.where(fi, fi.node))


# ---------------------------------------------------------------------------------------------
# R12 -- "there may be no value" is believed by every user of the value

def r12_nullable_results(ctx, rep, R='C04.R12'):
    rep.rule(R, 'the runner\'s own reporting code does not fail on a value that may be absent '
             '(contradiction rule, rules/nullable.py): the result of a package function that returns '
             'None on one path and a value on another, and a local that is None on one branch of an '
             'if/else and a value on the other, is subscripted / iterated / joined / used in '
             'arithmetic or a numeric %-conversion / handed to a package function that does so only '
             'where a dominating test (or assert) excludes None.  Such a use sits inside a result '
             'callback or the discovery code: the TypeError would abort the run instead of being '
             'recorded against a test')
    from . import nullable
    n = nullable.check(ctx, rep, R)
    n += nullable.check_locals(ctx, rep, R)
    rep.floor(R, n, 4, 'nullable results / locals followed to their uses')


# ---------------------------------------------------------------------------------------------
# R13 -- exception objects raised by user code are only looked at, never hashed / compared

EXC_ATTRS = ('__traceback__', '__cause__', '__context__', '__suppress_context__', 'with_traceback')


def r13_user_exceptions_not_hashed(ctx, rep, R='C04.R13'):
    rep.rule(R, 'the code that formats a failure does not hash or compare the exception object that '
             'user code raised ("every exception class derived from Exception": a class may define '
             '__eq__ without __hash__, or an __eq__ / __hash__ that raises): a name the function '
             'treats as an exception (it reads __traceback__ / __cause__ / __context__ from it), or '
             'the __cause__ / __context__ taken from one, is not added to a set, used as a dict key '
             'or tested with in / == against a collection -- identities (id(x), "is") are used instead')
    m = ctx.model
    n = 0
    for fi in m.all_functions():
        if fi.module.name.startswith('tests'):
            continue
        # names that are exceptions by the evidence of their use
        excs = set()
        for x in ast.walk(fi.node):
            if isinstance(x, ast.Attribute) and x.attr in EXC_ATTRS and isinstance(x.value, ast.Name):
                excs.add(x.value.id)
        if not excs:
            continue
        changed = True
        while changed:
            changed = False
            for x in ast.walk(fi.node):
                if isinstance(x, ast.Assign) and len(x.targets) == 1 and isinstance(x.targets[0], ast.Name) and \
                        isinstance(x.value, ast.Attribute) and x.value.attr in ('__cause__', '__context__') and \
                        isinstance(x.value.value, ast.Name) and x.value.value.id in excs and \
                        x.targets[0].id not in excs:
                    excs.add(x.targets[0].id)
                    changed = True
        n += 1
        bad = []
        for x in ast.walk(fi.node):
            if isinstance(x, ast.Call) and isinstance(x.func, ast.Attribute) and \
                    x.func.attr in ('add', 'setdefault', 'discard', 'remove', 'index', 'count') and x.args and \
                    isinstance(x.args[0], ast.Name) and x.args[0].id in excs and \
                    not (x.func.attr in ('remove', 'index', 'count') and False):
                bad.append(x)
            elif isinstance(x, ast.Compare) and isinstance(x.left, ast.Name) and x.left.id in excs and \
                    any(isinstance(o, (ast.In, ast.NotIn, ast.Eq, ast.NotEq)) for o in x.ops) and \
                    not any(isinstance(c, ast.Constant) for c in x.comparators):
                bad.append(x)
            elif isinstance(x, ast.Subscript) and isinstance(x.slice, ast.Name) and x.slice.id in excs and \
                    isinstance(x.value, ast.Name):
                bad.append(x)
            elif isinstance(x, (ast.Set, ast.Dict)):
                keys = x.elts if isinstance(x, ast.Set) else x.keys
                if any(isinstance(k, ast.Name) and k.id in excs for k in keys):
                    bad.append(x)
        rep.check(not bad, R, '%s: the exception objects %s are not hashed or compared' % (fi.qualname, sorted(excs)),
                  'the exception object raised by user code is hashed / compared by value (%s): an '
                  'exception class without __hash__ (or with a raising __eq__) makes the failure report '
                  'itself raise, and the run is aborted instead of the failure being recorded'
                  % '; '.join(norm(b)[:50] for b in bad[:3]), key='exc-hash:' + fi.qualname,
                  func=fi.qualname, where=ctx.where(fi, bad[0] if bad else fi.node))
    rep.floor(R, n, 2, 'functions that handle exception objects')


# ---------------------------------------------------------------------------------------------
# R14 -- text that comes from user code is data, never a format string

def r14_no_user_text_as_format_string(ctx, rep, R='C04.R14'):
    rep.rule(R, 'text produced by user code (a traceback, an exception message, a test name) is never '
             'interpreted as a format string: where a function uses one of its parameters as the left '
             'operand of % (or as the receiver of .format), every call site in the package passes a '
             'constant for it.  A traceback that contains "%" ("disk is 100% full", a quoted source '
             'line) would otherwise raise TypeError / ValueError inside the failure report and abort '
             'the run')
    m = ctx.model
    n = 0
    for fi in m.all_functions():
        if fi.module.name.startswith('tests'):
            continue
        a = fi.node.args
        names = [x.arg for x in a.posonlyargs + a.args]
        off = 1 if fi.cls is not None and names and names[0] in ('self', 'cls') else 0
        fmt_params = set()
        for x in ast.walk(fi.node):
            if isinstance(x, ast.BinOp) and isinstance(x.op, ast.Mod) and isinstance(x.left, ast.Name) and \
                    x.left.id in names[off:] and not any(
                        isinstance(y, ast.Name) and y.id == x.left.id and isinstance(y.ctx, ast.Store)
                        for y in ast.walk(fi.node)):
                fmt_params.add(x.left.id)
            if isinstance(x, ast.Call) and isinstance(x.func, ast.Attribute) and x.func.attr == 'format' and \
                    isinstance(x.func.value, ast.Name) and x.func.value.id in names[off:]:
                fmt_params.add(x.func.value.id)
        for p_ in sorted(fmt_params):
            n += 1
            idx = names.index(p_) - off
            bad = []
            for caller in m.all_functions():
                if caller.module.name.startswith('tests'):
                    continue
                for c in own_calls(caller.node):
                    is_site = False
                    if isinstance(c.func, ast.Attribute) and c.func.attr == fi.name and fi.cls is not None:
                        is_site = True          # by method name: every formatter sibling shares the call sites
                    elif isinstance(c.func, ast.Name) and c.func.id == fi.name and fi.cls is None:
                        is_site = True
                    if not is_site:
                        continue
                    v = c.args[idx] if idx < len(c.args) else kw(c, p_)
                    if v is None:
                        continue
                    if isinstance(v, (ast.Constant,)) or (isinstance(v, ast.Name) and v.id in caller.module.constants):
                        continue
                    if isinstance(v, ast.BinOp) and isinstance(v.op, ast.Mod):
                        continue            # already formatted by the caller: '...%s' % x is data here ... 
                    bad.append((caller, c, v))
            # a value the caller formatted itself is still text that may contain '%'
            bad += [(cl, c, v) for cl in m.all_functions() if not cl.module.name.startswith('tests')
                    for c in own_calls(cl.node)
                    if ((isinstance(c.func, ast.Attribute) and c.func.attr == fi.name and fi.cls is not None) or
                        (isinstance(c.func, ast.Name) and c.func.id == fi.name and fi.cls is None))
                    for v in [c.args[idx] if idx < len(c.args) else kw(c, p_)]
                    if isinstance(v, ast.BinOp) and isinstance(v.op, ast.Mod)]
            rep.check(not bad, R, '%s uses its parameter %s as a format string; every caller passes a constant' % (fi.qualname, p_),
                      '%s interprets its parameter %r as a format string, but %s passes %s: a "%%" in that '
                      'text (an exception message, a quoted source line of a traceback) makes the report '
                      'itself raise' % (fi.qualname, p_, bad[0][0].qualname if bad else '', norm(bad[0][2])[:50] if bad else ''),
                      key='fmt-param:%s:%s' % (fi.qualname, p_), func=fi.qualname,
                      where=ctx.where(bad[0][0], bad[0][1]) if bad else ctx.where(fi, fi.node))
    if not n:
        rep.assume('%s: no function of the package uses a parameter as a format string' % R)


# ---------------------------------------------------------------------------------------------
# R15 -- a value the function itself treats as a float is not formatted with an integer-only spec

def r15_integer_format_of_float(ctx, rep, R='C04.R15'):
    rep.rule(R, 'type contradiction in the reporting code: a name that the function formats as a float '
             '(%f / %.3f / :.3f ...), or that is produced from such a name by / or divmod(), is not '
             'formatted with an integer-only spec of an f-string / str.format (:d :x :o :b :c) -- those '
             'raise ValueError for a float ("%d" % x does not).  The formatter calls sit between a '
             'layer hook and the runner\'s bookkeeping (stop_set_up before the layer is recorded, '
             'summary before the totals): an exception there leaves a layer that is up unrecorded or '
             'aborts the run')
    import re as _re
    m = ctx.model
    n = 0
    for fi in m.all_functions():
        if fi.module.name.startswith('tests'):
            continue
        floats = set()
        int_uses = []
        for x in ast.walk(fi.node):
            # '%.3f' % name   /   '%f ... %s' % (a, b)
            if isinstance(x, ast.BinOp) and isinstance(x.op, ast.Mod) and isinstance(x.left, ast.Constant) and \
                    isinstance(x.left.value, str):
                convs = _re.findall(r'%(?:\([^)]*\))?[#0\- +]*(?:\*|\d+)?(?:\.(?:\*|\d+))?[hlL]?([a-zA-Z%])', x.left.value)
                convs = [c for c in convs if c != '%']
                args = x.right.elts if isinstance(x.right, ast.Tuple) else [x.right]
                if len(convs) == len(args):
                    for c, a in zip(convs, args):
                        if c in 'feEgG' and isinstance(a, ast.Name):
                            floats.add(a.id)
            if isinstance(x, ast.FormattedValue) and x.format_spec is not None and isinstance(x.value, ast.Name):
                spec = ''.join(v.value for v in x.format_spec.values if isinstance(v, ast.Constant) and isinstance(v.value, str))
                if spec and spec[-1] in 'feEgG%':
                    floats.add(x.value.id)
                elif spec and spec[-1] in 'dxXobc':
                    int_uses.append((x.value.id, x, spec))
            if isinstance(x, ast.Call) and isinstance(x.func, ast.Attribute) and x.func.attr == 'format' and \
                    isinstance(x.func.value, ast.Constant) and isinstance(x.func.value.value, str):
                specs = _re.findall(r'\{[^{}:]*:([^{}]*)\}', x.func.value.value)
                if len(specs) == len(x.args) and not x.keywords:
                    for sp, a in zip(specs, x.args):
                        if isinstance(a, ast.Name) and sp:
                            if sp[-1] in 'feEgG%':
                                floats.add(a.id)
                            elif sp[-1] in 'dxXobc':
                                int_uses.append((a.id, x, sp))
        if not int_uses:
            continue
        # propagate: divmod(float, _) and float / _ give floats
        changed = True
        while changed:
            changed = False
            for x in ast.walk(fi.node):
                if isinstance(x, ast.Assign) and isinstance(x.value, ast.Call) and dotted(x.value.func) == 'divmod' and \
                        x.value.args and isinstance(x.value.args[0], ast.Name) and x.value.args[0].id in floats:
                    for t in x.targets:
                        for e in (t.elts if isinstance(t, ast.Tuple) else [t]):
                            if isinstance(e, ast.Name) and e.id not in floats:
                                floats.add(e.id)
                                changed = True
                if isinstance(x, ast.Assign) and isinstance(x.value, ast.BinOp) and isinstance(x.value.op, ast.Div):
                    for t in x.targets:
                        if isinstance(t, ast.Name) and t.id not in floats:
                            floats.add(t.id)
                            changed = True
        for name, node, spec in int_uses:
            n += 1
            rep.check(name not in floats, R, '%s: %s formatted with :%s is not float-typed' % (fi.qualname, name, spec),
                      '%s formats %s with the integer-only spec :%s although the same function treats the '
                      'value as a float (it is formatted with %%f / :.3f, or comes from divmod() of such a '
                      'value): ValueError inside the formatter' % (fi.qualname, name, spec),
                      key='fmt-int-of-float:%s:%s' % (fi.qualname, name), func=fi.qualname, where=ctx.where(fi, node))
    if not n:
        rep.assume('%s: no integer-only format spec is applied to a plain name in an f-string / str.format' % R)


def r16_exception_values_classified_by_base(ctx, rep, R='C04.R16'):
    """'plus SystemExit inside tests': what a test raises is a BaseException, not necessarily an
    Exception (SystemExit, KeyboardInterrupt, GeneratorExit, asyncio.CancelledError and their
    subclasses).  Code on the reporting path that tells exception VALUES from other values
    (separator strings of a chain, None, text already formatted) by ``isinstance(v, Exception)``
    treats such an exception as "not an exception" -- the object itself ends up among the report
    lines and the join / write that follows raises inside the result callback."""
    rep.rule(R, 'an exception value is recognised as such whatever its class: no isinstance / issubclass '
             'test in the package classifies a value by the class Exception (SystemExit and '
             'KeyboardInterrupt raised by a test are BaseException only); BaseException, or a test for '
             'the OTHER alternative (str, None), is used instead')
    m = ctx.model
    n = 0
    for fi in m.all_functions():
        if fi.module.name.startswith('tests'):
            continue
        for c in ast.walk(fi.node):
            if not (isinstance(c, ast.Call) and dotted(c.func) in ('isinstance', 'issubclass') and len(c.args) == 2):
                continue
            t = c.args[1]
            names = [dotted(e) for e in (t.elts if isinstance(t, ast.Tuple) else [t])]
            if not any(x in ('Exception', 'BaseException', 'builtins.Exception') for x in names):
                continue
            n += 1
            bad = any(x in ('Exception', 'builtins.Exception') for x in names) and 'BaseException' not in names
            rep.check(not bad, R, '%s: %s' % (fi.qualname, norm(c)[:50]),
                      '%s classifies a value by %s: SystemExit / KeyboardInterrupt raised by a test (or a '
                      'layer) are not instances of Exception and take the branch meant for '
                      'non-exceptions' % (fi.qualname, norm(c)[:60]),
                      key='exc-class:%s:%s' % (fi.qualname, norm(c)[:50]), func=fi.qualname,
                      where=ctx.where(fi, c))
    rep.ok(R, '%d type tests against Exception / BaseException in the package; none classifies an '
           'exception value by Exception' % n)


# attributes that link a chain which ENDS in None (every traceback, every frame stack, every
# exception chain has a last element)
CHAIN_LINKS = ('tb_next', 'f_back', '__cause__', '__context__', '__traceback__')


def r19_chain_walks_test_for_the_end(ctx, rep, R='C04.R19'):
    from .common import is_name
    """A loop that advances along such a chain (``x = x.tb_next``) reaches None after the last
    element.  Its condition must therefore test x for None / truth BEFORE it dereferences x -- the
    traceback of an exception raised by a builtin that unittest itself calls (a failing
    ``addCleanup(os.rmdir, d)``) consists of unittest frames only, so "skip the unittest frames"
    runs off the end and the AttributeError escapes from the result callback."""
    rep.rule(R, 'no report of a failure fails on the traceback itself: a while loop that advances a name '
             'along a None-terminated chain (x = x.tb_next / f_back / __cause__ / __context__) tests that name '
             'for None (or truth) in its condition before any attribute of it is read')
    m = ctx.model
    n = 0
    for fi in m.all_functions():
        if fi.module.name.startswith('tests'):
            continue
        for w in ast.walk(fi.node):
            if not isinstance(w, ast.While):
                continue
            adv = [x for x in ast.walk(w) if isinstance(x, ast.Assign) and len(x.targets) == 1 and
                   isinstance(x.targets[0], ast.Name) and isinstance(x.value, ast.Attribute) and
                   x.value.attr in CHAIN_LINKS and is_name(x.value.value, x.targets[0].id)]
            for a in adv:
                n += 1
                x = a.targets[0].id
                # the condition, read left to right: a None / truth test of x must come before the first
                # attribute read of x
                order = []
                t = w.test
                parts = t.values if isinstance(t, ast.BoolOp) and isinstance(t.op, ast.And) else [t]
                guarded = False
                for p in parts:
                    q = p
                    while isinstance(q, ast.UnaryOp) and isinstance(q.op, ast.Not):
                        q = q.operand
                    is_test = is_name(q, x) or (isinstance(q, ast.Compare) and len(q.ops) == 1 and
                                               isinstance(q.ops[0], (ast.IsNot, ast.NotEq)) and is_name(q.left, x) and
                                               isinstance(q.comparators[0], ast.Constant) and
                                               q.comparators[0].value is None)
                    if is_test:
                        guarded = True
                        break
                    if any(isinstance(y, ast.Attribute) and is_name(y.value, x) for y in ast.walk(p)):
                        break
                # ``while True: ... if x is None: break`` before the advance is fine too
                if not guarded and isinstance(t, ast.Constant) and t.value is True:
                    for st in w.body:
                        if st is a or any(y is a for y in ast.walk(st)):
                            break
                        if isinstance(st, ast.If) and any(isinstance(y, (ast.Break, ast.Return)) for y in ast.walk(st)) \
                                and any(is_name(y, x) for y in ast.walk(st.test)):
                            guarded = True
                rep.check(guarded, R, '%s: the walk along .%s stops at None' % (fi.qualname, a.value.attr),
                          '%s advances %s = %s in a loop whose condition (%s) reads an attribute of %s without '
                          'testing it for None first: after the last element the AttributeError escapes from '
                          'the code that reports a failure' % (fi.qualname, x, norm(a.value), norm(t)[:50], x),
                          key='chain-end:%s:%s' % (fi.qualname, x), func=fi.qualname, where=ctx.where(fi, w))
    rep.ok(R, '%d loops that advance along a None-terminated chain; each tests for the end first' % n)
