#!/usr/bin/env python3
"""Apply every seeded change of /verif/seeded to /repo in turn, run the checks named in its
meta.json (caught_by) and expect a VIOLATION (exit 1) of one of the named rules; undo each."""
import json, os, subprocess, sys
HERE = os.path.dirname(os.path.dirname(os.path.abspath(__file__)))
bad = 0
for sid in sorted(os.listdir(os.path.join(HERE, 'seeded'))):
    d = os.path.join(HERE, 'seeded', sid)
    meta = json.load(open(os.path.join(d, 'meta.json')))
    if not meta.get('caught_by'):
        print('%-45s not caught, recorded as outside the model (see meta.json)' % sid)
        continue
    if subprocess.run(['git', '-C', '/repo', 'diff', '--quiet']).returncode:
        print('/repo not clean'); sys.exit(3)
    r = subprocess.run(['git', '-C', '/repo', 'apply', os.path.join(d, 'patch.diff')], capture_output=True, text=True)
    if r.returncode:
        print('%-45s PATCH DOES NOT APPLY %s' % (sid, r.stderr.strip()[:80])); bad += 1
        continue
    try:
        props = sorted({c.split('.')[0] for c in meta['caught_by']})
        res = []
        for p in props:
            o = subprocess.run(['python3-vt', os.path.join(HERE, 'check'), p], capture_output=True, text=True,
                               env=dict(os.environ, VERIF_NOWRITE='1'))
            rules = sorted({l.split()[0] for l in o.stdout.splitlines() if l.startswith('  C')})
            hit = [c for c in meta['caught_by'] if any(r_.startswith(c) for r_ in rules)]
            res.append((p, o.returncode, hit))
        ok = any(code == 1 and hit for p, code, hit in res)
        print('%-45s %s %s' % (sid, 'caught' if ok else 'MISSED', res))
        bad += not ok
    finally:
        subprocess.run(['git', '-C', '/repo', 'checkout', '--', '.'])
print('%d problem(s)' % bad)
sys.exit(1 if bad else 0)
