#!/bin/bash
# usage: tools/seed_take.sh <worktree dir> <seed id>  -- confirm demo both ways, store patch+demo, evaluate all checks
WT=$1; SID=$2
cd $WT || exit 3
git diff > /tmp/$SID.patch
timeout 300 /venv/bin/python demo.py >/tmp/$SID.with.log 2>&1; W=$?
git apply -R /tmp/$SID.patch; timeout 300 /venv/bin/python demo.py >/tmp/$SID.without.log 2>&1; WO=$?; git apply /tmp/$SID.patch
echo "demo with change: exit $W ; without: exit $WO"
D=/verif/seeded/$SID; mkdir -p $D; cp /tmp/$SID.patch $D/patch.diff; cp demo.py $D/demo.py
/verif/tools/seed_eval.sh $D/patch.diff > /tmp/$SID.eval.log 2>&1
grep -A1 -- "--- baseline" /tmp/$SID.eval.log | tail -1
echo "exits: $(grep -E '^--- C[0-9]+ exit=' /tmp/$SID.eval.log | sed 's/--- //; s/ exit=/:/' | grep -v ':0' | tr '\n' ' ')"
grep -E "^  C[0-9]+\.R|ANALYSIS-ERROR" /tmp/$SID.eval.log | cut -c1-300
rm -f /tmp/$SID.patch /tmp/$SID.with.log /tmp/$SID.without.log
