#!/bin/bash
# usage: tools/seed_take.sh <worktree dir> <seed id>  -- confirm demo both ways, store patch+demo, evaluate all checks
WT=$1; SID=$2
cd $WT || exit 3
git diff > /tmp/$SID.patch
timeout 300 /venv/bin/python demo.py >/tmp/$SID.with.log 2>&1; W=$?
git apply -R /tmp/$SID.patch; timeout 300 /venv/bin/python demo.py >/tmp/$SID.without.log 2>&1; WO=$?; git apply /tmp/$SID.patch
echo "demo with change: exit $W ; without: exit $WO"
D=/verif/seeded/$SID; mkdir -p $D; cp /tmp/$SID.patch $D/patch.diff; cp demo.py $D/demo.py
/verif/tools/seed_eval.sh $D/patch.diff 2>&1 | grep -A5 -E "baseline|exit=[12]" | grep -v '^--$' | cut -c1-240
