#!/usr/bin/env python3
"""(helper for the seeding campaign; not part of any check) create worktrees + prompts for a batch."""
import json, subprocess, sys, os, glob
props={}
for l in open('/verif/properties.jsonl'):
    p=json.loads(l); props[p['id']]=p
T=open('/verif/tools/seedprompt_template.txt').read()
RUNP=open('/verif/tools/run_pinned.py.txt').read()
used={}
for mf in glob.glob('/verif/seeded/*/meta.json'):
    m=json.load(open(mf)); used.setdefault(m['breaks_property'],[]).append(m['needs_to_manifest'].split(';')[0][:300])
os.makedirs('/tmp/seedprompts',exist_ok=True); os.makedirs('/tmp/wt',exist_ok=True)
for spec in sys.argv[1:]:
    pid, tag = spec.split(':') if ':' in spec else (spec, spec.lower())
    wt='/tmp/wt/'+tag
    subprocess.run(['git','-C','/repo','worktree','add','-q','--detach',wt,'HEAD'],check=True)
    open(wt+'/run_pinned.py','w').write(RUNP)
    p=props[pid]
    t=T.replace('{WT}',wt).replace('{ID}',pid).replace('{TITLE}',p['title']).replace('{STMT}',p['statement']).replace('{QUANT}',p['quantifier']['text']).replace('{FILES}',', '.join(p['anchors']['files']))
    if used.get(pid):
        t+='\nExtra: the following ideas were ALREADY USED by earlier changes for this property -- pick a clearly different mechanism (a different function, a different clause of the property, a different kind of slip):\n' + ''.join('  - %s\n' % u for u in used[pid])
    open('/tmp/seedprompts/%s.txt'%tag,'w').write(t)
    print(tag)
