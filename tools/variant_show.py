#!/usr/bin/env python3
"""usage: variant_show.py <variant id substring> -- apply a self-test variant in memory, print the report"""
import importlib, os, sys
HERE = os.path.dirname(os.path.dirname(os.path.abspath(__file__)))
sys.path.insert(0, HERE)
sys.dont_write_bytecode = True
from sa import report, srcmodel
from selftest import mutants
src = srcmodel.load_sources()
for m in mutants.entries() + mutants.seed_entries() + mutants.benign_entries():
    if sys.argv[1] in m[0] and (len(sys.argv) < 3 or m[1] == sys.argv[2]):
        s = dict(src)
        if m[2] in ('<patch>', '<patch+alpha>'):
            s = mutants.apply_unified_diff(src, m[3])
            if m[2] == '<patch+alpha>':
                from selftest import alpha
                s = alpha.rename_locals(alpha.flip_comparisons(alpha.guard_clauses(alpha.invert_ifs(s))))
        elif m[2] == '<alpha>':
            from selftest import alpha
            s = {'alpha': alpha.rename_locals, 'invert': alpha.invert_ifs, 'guard': alpha.guard_clauses,
                 'flip': alpha.flip_comparisons, 'all': lambda x: alpha.rename_locals(alpha.flip_comparisons(alpha.guard_clauses(alpha.invert_ifs(x))))}[m[3]](src)
        else:
            s[m[2]] = s[m[2]].replace(m[3], m[4])
        rep = report.Report(m[1], 'quick', 0, write=False)
        mod = importlib.import_module('rules.' + m[1].lower())
        err = None
        try:
            mod.run(srcmodel.Model(s), rep, 'quick')
        except Exception as e:
            import traceback; err = traceback.format_exc()
        code, lines, ev = rep.finish(err)
        print(m[0], m[1], 'exit', code)
        print('\n'.join(l[:700] for l in lines if not l.startswith('      |')))
