#!/bin/bash
# usage: tools/seed_eval.sh <patch.diff> [props...]   -- apply to /repo, run baseline + checks, undo
set -u
PATCH=$1; shift
cd /repo || exit 3
if ! git diff --quiet; then echo "/repo not clean"; exit 3; fi
git apply "$PATCH" || { echo "patch does not apply"; exit 3; }
trap 'git -C /repo checkout -- . ' EXIT
echo "--- baseline:"; timeout 600 /venv/bin/python -m pytest -ra -q -p no:cacheprovider --timeout=900 --continue-on-collection-errors 2>&1 | tail -1
cd /verif
PROPS="$@"
if [ -z "$PROPS" ]; then PROPS=$(ls rules | grep -E '^c[0-9]+\.py$' | sed 's/\.py//' | tr a-z A-Z); fi
for p in $PROPS; do
  out=$(VERIF_NOWRITE=1 python3-vt check $p 2>&1); code=$?
  echo "--- $p exit=$code"; echo "$out" | grep -E "VIOLATION|ANALYSIS-ERROR|^  C" | grep -v '^      |' | cut -c1-220 | head -8
done
