#!/usr/bin/env python3
"""Regenerate /verif/MANIFEST.json from the table below (single source for texts)."""
import json
import os

HERE = os.path.dirname(os.path.dirname(os.path.abspath(__file__)))

NOTE = ("Trusted base: CPython's ast parser; the hand-written CFG/escape/typestate engines in /verif/sa; the role "
        "table, unittest driver-protocol model and raise-source catalogue of DESIGN.md section 3 (printed in the "
        "evidence). Decides the structural clauses named in the text, not the run-time behaviour as a whole.")

# id -> (claimed text, technique, design ref) ; None = not claimed (reason)
CHECKS = {
    'C01': ("Every path of setup_layer / tear_down_unneeded / run_layer / Runner.run_tests obeys the set-up/tear-down "
            "discipline (who-may-call, guard, bases first, mark only after setUp returned, forget in every exit, order "
            "gather->tear-down->set-up->run, no run after CanNotTearDown, final optional tear-down), plus the premises "
            "of the bases-first argument for gather_layers/order_by_bases. Exhaustive over the CFG with exception edges; "
            "not decided: trace-level 'exactly', algorithmic facts beyond the stated premises.",
            "CFG path/dominance rules with exception edges + who-may-call", "4/C01"),
    'C02': ("Verdict data flow: the final verdict expression cannot be masked and is false when nothing went wrong; no "
            "lost verdict after EndRun (path-sensitive flag propagation); every bad-outcome channel (test results, layer "
            "hook exceptions, import failures, missing child layer) reaches an accumulator the verdict reads; the "
            "subprocess reader fails closed on every exceptional exit; status plumbing Runner.failed -> run_internal -> "
            "sys.exit; the report channel is separated from test output. Not decided: header look-alike lines written "
            "straight to fd 2 by tests.",
            "CFG path rules + three-valued evaluation of the verdict expression + exception-escape analysis", "4/C02"),
    'C04': ("Exception containment: interprocedural escape sets of everything a layer setUp/tearDown or a debugged test "
            "may raise (only MemoryError, and EndRun under post-mortem, leave run_layer / Runner.run_tests as Exception); "
            "typestate exploration of all TestResult callback sequences (both unittest protocol variants, all option "
            "combinations) shows no callback fails on its own state; every formatter method used exists with a compatible "
            "signature on all formatter classes; summary, continuation of the layer loop and final tear-down on all paths. "
            "Not decided: errors inside printing itself or outside the raise-source catalogue.",
            "exception-escape analysis + typestate exploration (abstract interpretation of the callbacks) + interface cross-check", "4/C04"),
    'C05': ("Per-test hooks: on every result-event sequence of both unittest protocol variants testSetUp/testTearDown are "
            "balanced, ordered (bases first / exact reverse) and complete; the layer list is order_by_bases(gathered "
            "layers of this result's layer); hooks have one call site each, filtered only by hasattr of the hook called. "
            "Not decided: a hook raising half-way through the list.",
            "typestate exploration over the unittest driver protocol + def-use provenance", "4/C05"),
    'C07': ("Wire agreement between child report writer and parent reader (header fields by role, body order, one line "
            "per entry, line-break discipline), fail-closed reader on every exceptional exit, channel separation and "
            "drain-thread ordering, done/kill/reap on every exit. Not decided: byte-level noise on fd 2, crash timing, "
            "real termination (scheduling/OS).",
            "writer/reader cross-check + CFG must-pass-through with exception edges", "4/C07"),
    'C12': ("Argument roles of summary/totals (sum-of-lengths terms), list routing, accumulator agreement of the "
            "in-process and subprocess paths, testsRun counter on every protocol word (symbolic counter in the typestate "
            "exploration), wire agreement, number/label agreement in every formatter. Not decided: equality with the "
            "ground truth of a concrete run.",
            "def-use role tables + sibling cross-check + typestate counter", "4/C12"),
    'C13': ("Std streams: on every result-event sequence (incl. none = KeyboardInterrupt) sys.stdout/sys.stderr are the "
            "original objects after stopTest; no callback fails on the stream state; captured text reaches exactly the "
            "failing test's report (uncrossed), never a passing test's; buffers rewound+truncated after every capture; "
            "every formatter emits both captured strings; no store to the std streams without --buffer and none outside "
            "the who-may-assign table; subunit forces --buffer. Not decided: fd-level writes, byte content.",
            "typestate exploration with stream-identity and capture tags + who-may-assign + def-use to sinks", "4/C13"),
    'C16': ("--stop-on-error: every callback that reports a failure/error (derived set) sets shouldStop on every protocol "
            "word; in function run_tests the check dominates each test execution and, flow-sensitively, no execution is "
            "reachable after a stop (including through the --repeat back edge and a fresh result object); the layer loop "
            "is left after recorded failures or errors; final tear-down and verdict.",
            "typestate exploration + flow-sensitive CFG reachability", "4/C16"),
}

REASON_NOT_BUILT = "static check for this property is not built yet in this round (see DESIGN.md section 4 for the planned rules)"


def main():
    props = [json.loads(l) for l in open(os.path.join(HERE, 'properties.jsonl'))]
    checks, na = [], []
    for p in props:
        pid = p['id']
        c = CHECKS.get(pid)
        if c is None or not os.path.exists(os.path.join(HERE, 'rules', pid.lower() + '.py')):
            na.append({'property_id': pid, 'reason': REASON_NOT_BUILT})
            continue
        if isinstance(c, str):
            na.append({'property_id': pid, 'reason': c})
            continue
        text, tech, ref = c
        checks.append({
            'property_id': pid,
            'quick_cmd': 'python3-vt check %s --tier quick' % pid,
            'thorough_cmd': 'python3-vt check %s --tier thorough' % pid,
            'evidence_file': '/verif/evidence/%s.json' % pid,
            'replay_cmd_template': 'python3-vt check explain {path}',
            'engine': 'sa',
            'level_claimed': {'category': 'other', 'text': text, 'design_ref': 'DESIGN.md ' + ref},
            'level_note': NOTE,
            'technique': 'static analysis: ' + tech,
        })
    man = {
        'version': 1,
        'setup_cmd': 'python3-vt -c "import ast, json, sys; sys.path.insert(0, \'.\'); import sa.cfg, sa.srcmodel, sa.report, sa.callgraph"',
        'hooks': {
            'guard': 'ZOPE_TESTRUNNER_VERIF',
            'enable': 'none needed: the checks are static and read /repo/src/zope/testrunner/*.py directly; no instrumentation was added to /repo',
            'baseline_off_cmd': 'cd /repo && /venv/bin/python -m pytest -ra -q -p no:cacheprovider --timeout=900 --continue-on-collection-errors',
            'source_commits': [],
            'add_only': True,
        },
        'engines': [{'name': 'sa', 'path': '/verif/sa', 'serves_properties': [c['property_id'] for c in checks],
                     'kind_free_text': 'custom static analyser on stdlib ast: source model, call graph with role-typed '
                                       'receivers, statement CFG with typed exception edges and finally duplication, '
                                       'exception-escape analysis, typestate exploration of TestResult callbacks, '
                                       'polarity/guard/effect/order-provenance rules'}],
        'checks': checks,
        'not_applicable': na,
        'notes': 'All checks are static (no code of /repo is imported or executed). Exit 0 ok / 1 VIOLATION / 2 ANALYSIS-ERROR. '
                 'Known findings: /verif/known_findings.json. Seeded breaking changes: /verif/seeded/.',
    }
    with open(os.path.join(HERE, 'MANIFEST.json'), 'w') as f:
        json.dump(man, f, indent=1)
    try:
        import jsonschema
        jsonschema.validate(man, json.load(open('/root/.vp/MANIFEST.schema.json')))
        print('MANIFEST.json valid: %d checks, %d not_applicable' % (len(checks), len(na)))
    except ImportError:
        print('written (jsonschema unavailable)')


if __name__ == '__main__':
    main()
