#!/usr/bin/env python3
"""Regenerate /verif/MANIFEST.json from the table below (single source for texts)."""
import json
import os

HERE = os.path.dirname(os.path.dirname(os.path.abspath(__file__)))

NOTE = ("Trusted base: CPython's ast parser; the hand-written CFG/escape/typestate engines in /verif/sa; the role "
        "table, unittest driver-protocol model and raise-source catalogue of DESIGN.md section 3 (printed in the "
        "evidence). Decides the structural clauses named in the text, not the run-time behaviour as a whole.")

# id -> (claimed text, technique, design ref) ; None = not claimed (reason)
CHECKS = {
    'C01': ("Every path of setup_layer / tear_down_unneeded / run_layer / Runner.run_tests obeys the set-up/tear-down "
            "discipline (who-may-call, guard, bases first, mark only after setUp returned, forget in every exit, order "
            "gather->tear-down->set-up->run, no run after CanNotTearDown, final optional tear-down), plus the premises "
            "of the bases-first argument for gather_layers/order_by_bases. Exhaustive over the CFG with exception edges; "
            "not decided: trace-level 'exactly', algorithmic facts beyond the stated premises.",
            "CFG path/dominance rules with exception edges + who-may-call", "4/C01"),
}

REASON_NOT_BUILT = "static check for this property is not built yet in this round (see DESIGN.md section 4 for the planned rules)"


def main():
    props = [json.loads(l) for l in open(os.path.join(HERE, 'properties.jsonl'))]
    checks, na = [], []
    for p in props:
        pid = p['id']
        c = CHECKS.get(pid)
        if c is None or not os.path.exists(os.path.join(HERE, 'rules', pid.lower() + '.py')):
            na.append({'property_id': pid, 'reason': REASON_NOT_BUILT})
            continue
        if isinstance(c, str):
            na.append({'property_id': pid, 'reason': c})
            continue
        text, tech, ref = c
        checks.append({
            'property_id': pid,
            'quick_cmd': 'python3-vt check %s --tier quick' % pid,
            'thorough_cmd': 'python3-vt check %s --tier thorough' % pid,
            'evidence_file': '/verif/evidence/%s.json' % pid,
            'replay_cmd_template': 'python3-vt check explain {path}',
            'engine': 'sa',
            'level_claimed': {'category': 'other', 'text': text, 'design_ref': 'DESIGN.md ' + ref},
            'level_note': NOTE,
            'technique': 'static analysis: ' + tech,
        })
    man = {
        'version': 1,
        'setup_cmd': 'python3-vt -c "import ast, json, sys; sys.path.insert(0, \'.\'); import sa.cfg, sa.srcmodel, sa.report, sa.callgraph"',
        'hooks': {
            'guard': 'ZOPE_TESTRUNNER_VERIF',
            'enable': 'none needed: the checks are static and read /repo/src/zope/testrunner/*.py directly; no instrumentation was added to /repo',
            'baseline_off_cmd': 'cd /repo && /venv/bin/python -m pytest -ra -q -p no:cacheprovider --timeout=900 --continue-on-collection-errors',
            'source_commits': [],
            'add_only': True,
        },
        'engines': [{'name': 'sa', 'path': '/verif/sa', 'serves_properties': [c['property_id'] for c in checks],
                     'kind_free_text': 'custom static analyser on stdlib ast: source model, call graph with role-typed '
                                       'receivers, statement CFG with typed exception edges and finally duplication, '
                                       'exception-escape analysis, typestate exploration of TestResult callbacks, '
                                       'polarity/guard/effect/order-provenance rules'}],
        'checks': checks,
        'not_applicable': na,
        'notes': 'All checks are static (no code of /repo is imported or executed). Exit 0 ok / 1 VIOLATION / 2 ANALYSIS-ERROR. '
                 'Known findings: /verif/known_findings.json. Seeded breaking changes: /verif/seeded/.',
    }
    with open(os.path.join(HERE, 'MANIFEST.json'), 'w') as f:
        json.dump(man, f, indent=1)
    try:
        import jsonschema
        jsonschema.validate(man, json.load(open('/root/.vp/MANIFEST.schema.json')))
        print('MANIFEST.json valid: %d checks, %d not_applicable' % (len(checks), len(na)))
    except ImportError:
        print('written (jsonschema unavailable)')


if __name__ == '__main__':
    main()
