#!/usr/bin/env python3
"""Regenerate /verif/MANIFEST.json from the table below (single source for texts)."""
import json
import os

HERE = os.path.dirname(os.path.dirname(os.path.abspath(__file__)))

NOTE = ("Trusted base: CPython's ast parser; the hand-written CFG/escape/typestate engines in /verif/sa; the role "
        "table, unittest driver-protocol model and raise-source catalogue of DESIGN.md section 3 (printed in the "
        "evidence). Decides the structural clauses named in the text, not the run-time behaviour as a whole.")

# id -> (claimed text, technique, design ref) ; None = not claimed (reason)
CHECKS = {
    'C01': ("Every path of setup_layer / tear_down_unneeded / run_layer / Runner.run_tests obeys the set-up/tear-down "
            "discipline (who-may-call, guard, bases first, mark only after setUp returned, forget in every exit, order "
            "gather->tear-down->set-up->run, no run after CanNotTearDown, final optional tear-down), plus the premises "
            "of the bases-first argument for gather_layers/order_by_bases. CanNotTearDown raised by tear_down_unneeded leaves run_layer (no handler on the way completes normally). Exhaustive over the CFG with exception edges; "
            "not decided: trace-level 'exactly', algorithmic facts beyond the stated premises. A layer whose setUp returned is recorded before any further setUp is attempted (path rule). Each run sees only its own inputs (shared rule, rules/lifetime.py): no function memoised across runs, module-level containers emptied at the start of a run, no mutable class attribute shared through instances, no option with a mutable argparse default mutated in place.",
            "CFG path/dominance rules with exception edges + who-may-call", "4/C01"),
    'C02': ("Verdict data flow: the final verdict expression cannot be masked and is false when nothing went wrong; no "
            "lost verdict after EndRun (path-sensitive flag propagation); every bad-outcome channel (test results, layer "
            "hook exceptions, import failures, missing child layer) reaches an accumulator the verdict reads; the "
            "subprocess reader fails closed on every exceptional exit; status plumbing Runner.failed -> run_internal -> "
            "sys.exit; the report channel is separated from test output; of everything user code may raise during discovery "
            "(import of a test module, test_suite()) only KeyboardInterrupt leaves find_suites (SystemExit becomes an "
            "import failure); the list a layer failure is recorded in is the Runner's errors accumulator all the way up the "
            "call chain. Not decided: header look-alike lines written "
            "straight to fd 2 by tests. What was recorded stays recorded: who-may-bind table of the Runner's accumulators, nothing removes entries; failures / errors / skipped keep their roles at every hand-over, including Thread(args=...) tuples. Each run sees only its own inputs (shared rule, rules/lifetime.py): no function memoised across runs, module-level containers emptied at the start of a run, no mutable class attribute shared through instances, no option with a mutable argparse default mutated in place.",
            "CFG path rules + three-valued evaluation of the verdict expression + exception-escape analysis", "4/C02"),
    'C04': ("Exception containment: interprocedural escape sets of everything a layer setUp/tearDown or a debugged test "
            "may raise (only MemoryError, and EndRun under post-mortem, leave run_layer / Runner.run_tests as Exception); "
            "typestate exploration of all TestResult callback sequences (both unittest protocol variants, all option "
            "combinations) shows no callback fails on its own state; every formatter method used exists with a compatible "
            "signature on all formatter classes; summary, continuation of the layer loop and final tear-down on all paths. "
            "The run-wide totals line is emitted unless exactly one layer was turned to (guards evaluated over the layer count), and the layer_setup hooks dominate run_layer. Not decided: errors inside printing itself or outside the raise-source catalogue. Contradiction rules on the runner's own reporting code: a value that may be None (mixed-return function, local None on one branch) reaches no use that needs a real value without a test excluding None; exception objects raised by user code are never hashed or compared by value. Where a function uses a parameter as a format string every call site passes a constant (no user text is interpreted as a format).",
            "exception-escape analysis + typestate exploration (abstract interpretation of the callbacks) + interface cross-check", "4/C04"),
    'C05': ("Per-test hooks: on every result-event sequence of both unittest protocol variants testSetUp/testTearDown are "
            "balanced, ordered (bases first / exact reverse) and complete; the layer list is order_by_bases(gathered "
            "layers of this result's layer); hooks have one call site each, filtered only by hasattr of the hook called; "
            "the post-mortem loop that drives the result itself calls stopTest after every startTest on every exit (CFG "
            "with exception edges). After every test the test object has the attributes it started with (typestate of test.__dict__ in the callbacks, or the copy/clear/update bracket of the loop of run_tests). Not decided: a hook raising half-way through the list. Each run sees only its own inputs (shared rule, rules/lifetime.py): no function memoised across runs, module-level containers emptied at the start of a run, no mutable class attribute shared through instances, no option with a mutable argparse default mutated in place.",
            "typestate exploration over the unittest driver protocol + def-use provenance", "4/C05"),
    'C07': ("Wire agreement between child report writer and parent reader (header fields by role, body order, one line "
            "per entry, line-break discipline), fail-closed reader on every exceptional exit, channel separation and "
            "drain-thread ordering, done/kill/reap on every exit; the parent waits for every child (a thread leaves the "
            "running set only when it is the one found dead; polling loop until nothing is ready or running). Not "
            "decided: byte-level noise on fd 2, crash timing, "
            "real termination (scheduling/OS). Nothing prints after the child's report: the feature whose report() closes sys.stdout comes after every feature whose report() can print in a child (guards evaluated for a child). Each run sees only its own inputs (shared rule, rules/lifetime.py): no function memoised across runs, module-level containers emptied at the start of a run, no mutable class attribute shared through instances, no option with a mutable argparse default mutated in place. A line of three integers is accepted as the header whatever the numbers are (no test on the parsed counters inside the header search loop). Helpers a refactoring moved into another module are inlined across modules before the reader is analysed.",
            "writer/reader cross-check + CFG must-pass-through with exception edges", "4/C07"),
    'C12': ("Argument roles of summary/totals (sum-of-lengths terms), list routing, accumulator agreement of the "
            "in-process and subprocess paths, testsRun counter on every protocol word (symbolic counter in the typestate "
            "exploration), wire agreement, number/label agreement in every formatter. Not decided: equality with the "
            "ground truth of a concrete run. The Runner's accumulators are bound only where they are created and keep their roles at every hand-over. Each run sees only its own inputs (shared rule, rules/lifetime.py): no function memoised across runs, module-level containers emptied at the start of a run, no mutable class attribute shared through instances, no option with a mutable argparse default mutated in place. The second component of an accumulator entry is opaque to every reader (traceback text / exc_info triple / None by producer).",
            "def-use role tables + sibling cross-check + typestate counter", "4/C12"),
    'C13': ("Std streams: on every result-event sequence (incl. none = KeyboardInterrupt) sys.stdout/sys.stderr are the "
            "original objects after stopTest; no callback fails on the stream state; captured text reaches exactly the "
            "failing test's report (uncrossed), never a passing test's; once a test has reported a failure nothing it "
            "writes later is captured and dropped; buffers rewound+truncated after every capture; "
            "every formatter emits both captured strings; no store to the std streams without --buffer and none outside "
            "the who-may-assign table; subunit forces --buffer. Not decided: fd-level writes, byte content.",
            "typestate exploration with stream-identity and capture tags + who-may-assign + def-use to sinks", "4/C13"),
    'C16': ("--stop-on-error: every callback that reports a failure/error (derived set) sets shouldStop on every protocol "
            "word; in function run_tests the check dominates each test execution and, flow-sensitively, no execution is "
            "reachable after a stop (including through the --repeat back edge and a fresh result object); the layer loop "
            "is left after recorded failures or errors; final tear-down and verdict. A layer whose setUp returned is recorded before a further setUp is attempted, so a layer set-up failure leaves no layer behind that the final tear-down does not know. The report hooks read the recorded entries without assuming a type for their second component, so the totals line and the verdict are still produced after a layer set-up failure.",
            "typestate exploration + flow-sensitive CFG reachability", "4/C16"),
    'C03': ("Selection structure: the selection state has exactly four writers (init, register, shuffle same-key, "
            "filter whole-layer removal); run loop, listing and resume_tests consume ordered_layers() in order; nothing "
            "executable is reachable from the listing in the call graph; each test loop executes its test exactly once per "
            "completed iteration inside the repeat loop; a completed layer is popped exactly once, one thread per queued "
            "layer started once, empty first layer iff -j N parent; child command line grammar agrees between writer and "
            "reader; feature order Find < Shuffle < Filter < Listing; the suite walk visits every member unconditionally; a "
            "child keeps exactly the layer whose name equals --resume-layer. The positional module/test filters reach options.module/options.test in all 20 cases of a finite domain (guard evaluation). Not decided: equality of the executed multiset with "
            "an independent computation of the selection. A layer subprocess is started in the directory fixed at start-up (def-use chain Popen(cwd=) <- ... <- Runner(cwd=), path rule at every construction of a Runner); an explicitly given --shuffle-seed is the seed used (abstract interpretation over {None, 0, non-zero}). Each run sees only its own inputs (shared rule, rules/lifetime.py): no function memoised across runs, module-level containers emptied at the start of a run, no mutable class attribute shared through instances, no option with a mutable argparse default mutated in place. The match-everything default ['.'] of options.module / options.test is stored only after the positional filters were merged.",
            "who-may-write tables + CFG once-per-iteration rules + call-graph reachability + writer/reader agreement", "4/C03"),
    'C06': ("-j N structure: the only thread start is guarded by len(running) < processes in a while loop, started "
            "threads are recorded before the bound is re-tested, threads leave only when not alive and the element removed "
            "is the one tested (no stale index), main loop runs while "
            "ready or running; child killed and reaped and result.done set on every exit; one flush statement, whole "
            "list, under result.done, cursor over results in the caller's layer order (the parameter is not re-ordered), reap "
            "before flush; deferred collectors never "
            "write to a stream and keep every non-dot line, the immediate one only for processes == 1. Not decided: "
            "outcome equality with the sequential run, real schedules, liveness. The guards of the only thread.start() site, evaluated over (running, N, queued) in 0..3 x 1..3 x 0..3: never start at the bound or with an empty queue, always start while a slot is free and a layer is queued. The result objects the flush loop tests for truth define neither __len__ nor __bool__.",
            "guard-literal and dominance rules on the CFG of resume_tests + effect classification of collector classes", "4/C06"),
    'C08': ("The predicate returned by build_filtering_func is exactly any(positives) and not any(negatives) applied to "
            "its argument (polarity +/-, order-insensitive); symbolic execution of the pattern loop shows '!' patterns go, "
            "with exactly one character removed, to the negated list and others unchanged to the positive list as "
            "re.compile(p).search; only-negated default; the pattern lists are used only through build_filtering_func; "
            "predicates are routed and used with the right polarity. Not decided: regex semantics on concrete names. Each run sees only its own inputs (shared rule, rules/lifetime.py): no function memoised across runs, module-level containers emptied at the start of a run, no mutable class attribute shared through instances, no option with a mutable argparse default mutated in place. The positional filters restrict the pattern lists (default after merge, shared with C03.R10).",
            "polarity calculus + symbolic path enumeration of the classification loop + def-use", "4/C08"),
    'C09': ("Nearest-wins data flow of level/layer through tests_from_suite; the level predicate extracted from the guard "
            "literals of every yield equals the specification on the whole finite domain of order types of (level, "
            "at_level, 0) x only_level; --all; decision tables of the -u/-f switches and of the unit-layer keep/drop "
            "logic equal the documented ones. Not decided: unittest's own suite nesting. getattr(suite, 'level' / 'layer', <inherited>) is the only definition of the level / layer of a test.",
            "guard extraction + evaluation over a finite abstract domain (no program statement executed)", "4/C09"),
    'C10': ("Determinism and once-each: the argument of order_by_bases reaches the result only through sorted(key="
            "layer_sort_key); the key is pure (names and bases, no set iteration, no id/hash); premises of the bases-first "
            "and unit-first arguments (pre-order gather over all bases, one reversal, first-occurrence de-duplication, "
            "unit layer excluded from the key, descending sort); single ordering source; a child keeps exactly its own "
            "layer (each layer once across processes). resume_tests starts the per-layer threads in creation order over the ordered layers parameter (fill one end, drain the other). NOT decided: that the order is "
            "bases-first/unit-first for every graph (induction over data), tie behaviour. Each run sees only its own inputs (shared rule, rules/lifetime.py): no function memoised across runs, module-level containers emptied at the start of a run, no mutable class attribute shared through instances, no option with a mutable argparse default mutated in place.",
            "order-provenance rules + structural premises", "4/C10"),
    'C11': ("Shuffle: the per-layer list is list(suite) modified only by mirrored swap assignments and stored back "
            "under the same key; layers visited in sorted order; local random.Random seeded from self.seed, only seed()/"
            "random() used; feature order Find < Shuffle < Filter < Listing and the shuffling hook runs no later than the "
            "filtering hook in the hook sequence of Runner.run; clock-derived seed recorded on the options "
            "and forwarded to children; seed always reported. The shuffle hook shuffles on every normal path and no option other than the shuffle options decides whether a layer is shuffled or a random number drawn (same order in listing, -j parent and children). Not decided: index arithmetic of the Fisher-Yates step, "
            "the float stream of random(). An explicitly given seed is the seed used for every integer, 0 included (abstract interpretation of get_options' assignments and Shuffle.__init__ over {None, 0, non-zero}). The seed is reported in every mode that shuffles, listing included (dominating literals of the report call; only 'not in a layer subprocess' is accepted).",
            "mutation-shape rule (swap-only) + who-may-call on the RNG + def-use of the seed", "4/C11"),
    'C14': ("Discovery structure: directory list sorted in place before every walk step is yielded and only filtered "
            "afterwards, files yielded from sorted(); de-duplication by path; a module rejected by --module can never "
            "reach import_name (CFG with the predicate fixed to false), who-may-import table; in-place pruning by "
            "identifier/IGNORE_FOLDERS/ignore_dir before the walk resumes; --package restricts the walk; prefixes "
            "sorted longest first. Prefixes are matched at a directory boundary (stored with the separator <-> startswith / cut length of the consumers); 32-case decision table of which files of a directory are recorded as test modules. Not decided: symlinks, what the regexes match on concrete names. options.ignore_dir contains the built-in version-control names whether or not --ignore_dir is given (abstract evaluation of the argparse declaration and of get_options); with --package every directory of every named package is searched (the loops are left only when exhausted). Every symlinked sub-directory is walked (only the islink test guards the recursion); the positional module filter restricts the modules imported. Every first-match loop over the search paths iterates options.prefix (longest first).",
            "order-provenance + CFG reachability under a fixed predicate value + who-may-call", "4/C14"),
    'C15': ("Stale bytecode: the only destructive file-system call reachable from discovery is the os.unlink of "
            "remove_stale_bytecode (all destructive sites of the package tabulated); nothing is walked or deleted under "
            "keepbytecode, usecompiled implies it; the unlink guard is exactly suffix in {.pyc,.pyo} and not source-"
            "beside-it; target is join(dirname, file) of the same walk step; __pycache__ pruned; no continue of the walk loop skips a directory (other than for an empty listing); loops complete. Not "
            "decided: name edge cases, case-folding file systems. The set of ignored directory names contains the built-in names for every option vector (shared with C14). Every symlinked sub-directory is walked (shared with C14.R4).",
            "effect ownership over the call graph + guard-literal analysis", "4/C15"),
    'C17': ("XML: every test-derived string reaching Element.set/.text passes a sanitiser whose regex character class "
            "(computed from the regex syntax tree) covers all code points outside XML 1.0 Char; ASCII-safe serialisation; "
            "tests == len(records), failure/error counters and children created under the same field and attached to the "
            "serialised tree, one record per "
            "outcome; wrapper overrides record once and forward. constant indexes into split results are in range for every message (R6); the report file name is an injective function of the suite name (R7). Not decided: subtest class attribution. Every outcome can be recorded: the functions that name a test for the report do not fail on an absent value (nullable-result rule); in a layer subprocess nothing in the report phase can fail before the reports are written (nothing prints after the child closed stdout). writeXMLReports is called once, from Runner.run after the test phase, and the recorded suites are never forgotten. The --xml folder is made absolute in Runner.configure before any test runs.",
            "taint-to-sink rule with a statically computed character class + def-use", "4/C17"),
    'C18': ("Global state: teardown loops on every exit after the test phase (exception edges); for each catalogued "
            "mutator in a feature set-up hook the previous value is saved from the matching getter first and restored "
            "from that saved value in a teardown hook Runner.run calls; warnings filter changes only inside "
            "catch_warnings; std streams via the typestate exploration and the who-may-assign table; stray mutators "
            "paired inside their function. a hook attribute the package replaces is put back before the restoring call through it (R2); std streams are the originals whenever a per-test layer hook is called, i.e. may raise and end the run (R7). Not decided: C-level profiler state, state changed by tests. warnings.warn counts as a fallible teardown step.",
            "save/mutate/restore pairing over resolved library calls + CFG must-pass-through", "4/C18"),
    'C19': ("Thread report: per-test snapshot freshness and same enumerator on both sides on every protocol word "
            "(typestate); the guard of the report is exactly alive(+), in-snapshot(-), any re.match ignore(-) and "
            "nothing else; list passed whole with the test that ended; the ident table of enumerate() is built afresh per call (no cache across ident re-use); enumerate covers every ident of "
            "sys._current_frames, proxy equality by ident. Not decided: thread timing, identifier reuse. Every formatter's test_threads shows the list it was given (element-preserving operations only). A Thread object is never tested for truth (membership / is None decide the DummyThread fallback).",
            "typestate exploration + guard-literal polarity", "4/C19"),
    'C20': ("Necessary conditions of Tarjan's algorithm on every path of sccs(): all reads of the neighbour map are total; "
            "unvisited/state and stacked/stack invariants; yield only under the root test made on the node returned "
            "from; default-mode drop condition; low-link discipline by must-alias data flow: dfs numbers immutable and "
            "from one counter, every low-link store is a min-update of the CURRENT parent (top of the ancestor list at "
            "that point on every path) with the returned child's low or a stacked neighbour's number, such an update is "
            "passed on every return to a parent (unless root) and for every stacked neighbour, the component is popped "
            "down to exactly the root (pop loop or index scan + slice removal); the return visit is selected by identity with a fresh sentinel scheduled below the neighbours; every set kept in the neighbour map is an object created by the graph itself "
            "(freshness over reaching definitions, no alias of a caller's set). NOT decided and not claimed: that these conditions are sufficient, i.e. that the "
            "components are exactly the SCCs for every graph (algorithm correctness over data). The graph only grows: an entry of the neighbour map is assigned only where the key is known to be absent, everything else is a union; no removal, no bulk overwrite. The node set and the neighbour map are bound in __init__ only (aliases and bound methods taken from them stay valid). The return marker of the work list is a fresh object(), never a constant that could also be a node.",
            "forward must-alias data-flow analysis over the CFG + contradiction rule on map accesses + structural invariants", "4/C20"),
}

# sentences appended to the claimed text (rules added in round 13)
COMMON = (" Holds under python -O as well: no assert statement in the functions the property is anchored in carries "
          "an effect (shared rule Rnn.R20, rules/robust.py).")
EXTRA = {
    'C01': " A layer value is never tested for truthiness (layers are user objects; rules/robust.py). The map of set-up layers, followed from its creation through every resolved call, gains entries only in setup_layer and loses entries only in tear_down_unneeded.",
    'C02': " The layer-failure recorder appends on every normal exit, also when a handler inside it swallows a reporting problem (CFG with every call fallible). The child/parent wire rule is shared (header and body agreement; the header is a WHOLE line of integers: all tokens unpacked, or a pattern anchored at the end); sys.stderr is re-pointed on every path through the child's set-up hook.",
    'C03': " walk_with_symlinks walks every symlinked sub-directory left after the caller's in-place pruning of the yielded list (no snapshot taken before the yield; shared with C14.R4). The filter predicate applies each pattern on its own (shared with C08.R1).",
    'C04': " No isinstance / issubclass test classifies an exception value by the class Exception (SystemExit is BaseException only); at every call resolved inside the package a positional argument that is a plain name equal to a parameter name of the callee is bound to that parameter (unanimous belief rule); the recorder appends on every normal exit with every call fallible. The verdict is computed after everything that can still record a layer failure (shared with C02.R1). A while loop that advances a name along a None-terminated chain (tb_next, f_back, __cause__, __context__) tests it for None before reading an attribute of it.",
    'C05': " In startTest and in the branch of addSkip that stands in for it, no formatter call and no call into the test object is reachable before self.testSetUp() (the drivers run stopTest once startTest was entered).",
    'C07': " The writer's sanitiser may be a constant regular expression (context-free pattern that matches each line-break character alone and never the empty string); a reader that splits decoded text splits at all ten str.splitlines characters. The header is a whole line of integers (all tokens unpacked, or a pattern fullmatch-ed / anchored at the end); sys.stderr is re-pointed on every path through the child's set-up hook; nothing of the report is recorded after result.done was set. A child without report is recorded once (no strict decode of its stderr after the entry while a catch-all handler appends it again).",
    'C10': " A layer value is never tested for truthiness (layers are user objects; rules/robust.py). The ordered list handed to resume_tests is neither re-bound nor re-ordered.",
    'C12': " A child keeps exactly its own layer, so nothing is counted twice across processes (shared with C10.R5); the header is a whole line of integers. A lost child is recorded once (shared with C07.R8).",
    'C06': " Nothing of a layer's report is recorded after result.done was set (the polling parent may stop waiting as soon as it sees the flag); the header is a whole line of integers. options.processes is stored by the parser only: the N of the start guard is the N the user gave.",
    'C20': " Nodes and neighbours may be one-shot iterators: no parameter of a function in digraph.py is consumed at two sites in sequence unless it was materialised first.",
    'C13': " Outside the parser options.buffer is only ever stored with the constant True: --buffer survives every other option.",
    'C14': " The directories examined for links after the yield are the yielded list as the caller left it (reaching definitions / dominators). The derivation of the examined directories from the yielded list is followed transitively.",
    'C15': " The directories examined for links after the yield are the yielded list as the caller left it (shared with C14.R4).",
    'C16': " A layer failure is recorded on every normal exit of the recorder (shared with C04.R3), so the layer loop sees it.",
    'C18': " Every reference to a trace / profile API of sys / threading is one of the tabulated per-thread / later-threads setters and getters (an ..._all_threads API also replaces the current thread's function behind the restored value).",
    'C19': " A selection from the thread enumeration kept as the per-test snapshot is reported (the snapshot is the complete enumeration).",
}

REASON_NOT_BUILT = "static check for this property is not built yet in this round (see DESIGN.md section 4 for the planned rules)"


def main():
    props = [json.loads(l) for l in open(os.path.join(HERE, 'properties.jsonl'))]
    checks, na = [], []
    for p in props:
        pid = p['id']
        c = CHECKS.get(pid)
        if c is None or not os.path.exists(os.path.join(HERE, 'rules', pid.lower() + '.py')):
            na.append({'property_id': pid, 'reason': REASON_NOT_BUILT})
            continue
        if isinstance(c, str):
            na.append({'property_id': pid, 'reason': c})
            continue
        text, tech, ref = c
        text = text + EXTRA.get(pid, '') + COMMON
        checks.append({
            'property_id': pid,
            'quick_cmd': 'python3-vt check %s --tier quick' % pid,
            'thorough_cmd': 'python3-vt check %s --tier thorough' % pid,
            'evidence_file': '/verif/evidence/%s.json' % pid,
            'replay_cmd_template': 'python3-vt check explain {path}',
            'engine': 'sa',
            'level_claimed': {'category': 'other', 'text': text, 'design_ref': 'DESIGN.md ' + ref},
            'level_note': NOTE,
            'technique': 'static analysis: ' + tech,
        })
    man = {
        'version': 1,
        'setup_cmd': 'python3-vt -c "import ast, json, sys; sys.path.insert(0, \'.\'); import sa.cfg, sa.srcmodel, sa.report, sa.callgraph"',
        'hooks': {
            'guard': 'ZOPE_TESTRUNNER_VERIF',
            'enable': 'none needed: the checks are static and read /repo/src/zope/testrunner/*.py directly; no instrumentation was added to /repo',
            'baseline_off_cmd': 'cd /repo && /venv/bin/python -m pytest -ra -q -p no:cacheprovider --timeout=900 --continue-on-collection-errors',
            'source_commits': [],
            'add_only': True,
        },
        'engines': [{'name': 'sa', 'path': '/verif/sa', 'serves_properties': [c['property_id'] for c in checks],
                     'kind_free_text': 'custom static analyser on stdlib ast: source model, call graph with role-typed '
                                       'receivers, statement CFG with typed exception edges and finally duplication, '
                                       'exception-escape analysis, typestate exploration of TestResult callbacks, '
                                       'polarity/guard/effect/order-provenance rules'}],
        'checks': checks,
        'not_applicable': na,
        'notes': 'All checks are static (no code of /repo is imported or executed). Exit 0 ok / 1 VIOLATION / 2 ANALYSIS-ERROR. '
                 'Known findings: /verif/known_findings.json. Seeded breaking changes: /verif/seeded/.',
    }
    with open(os.path.join(HERE, 'MANIFEST.json'), 'w') as f:
        json.dump(man, f, indent=1)
    try:
        import jsonschema
        jsonschema.validate(man, json.load(open('/root/.vp/MANIFEST.schema.json')))
        print('MANIFEST.json valid: %d checks, %d not_applicable' % (len(checks), len(na)))
    except ImportError:
        print('written (jsonschema unavailable)')


if __name__ == '__main__':
    main()
