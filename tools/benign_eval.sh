#!/bin/bash
# usage: tools/benign_eval.sh <patch.diff> [props...]  -- apply to /repo, run checks (no baseline), undo; prints violations
PATCH=$(readlink -f $1); shift
cd /repo || exit 3
if ! git diff --quiet; then echo "/repo not clean"; exit 3; fi
git apply "$PATCH" || { echo "patch does not apply"; exit 3; }
trap 'git -C /repo checkout -- . ' EXIT
cd /verif
PROPS="$@"
if [ -z "$PROPS" ]; then PROPS=$(ls rules | grep -E '^c[0-9]+\.py$' | sed 's/\.py//' | tr a-z A-Z); fi
for p in $PROPS; do
  out=$(VERIF_NOWRITE=1 python3-vt check $p 2>&1); code=$?
  [ $code != 0 ] && { echo "--- $p exit=$code"; echo "$out" | grep -E "ANALYSIS-ERROR|^  C" | grep -v '^      |' | cut -c1-420 | head -12; }
done
