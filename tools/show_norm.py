#!/usr/bin/env python3
"""usage: show_norm.py <patch.diff|-> <qualname> ...  -- print the T0/T0b-normalised source of functions
with the patch applied in memory ('-' = current tree)"""
import ast, os, sys
HERE = os.path.dirname(os.path.dirname(os.path.abspath(__file__)))
sys.path.insert(0, HERE)
sys.dont_write_bytecode = True
from sa import srcmodel
from selftest import mutants
src = srcmodel.load_sources()
if sys.argv[1] != '-':
    src = mutants.apply_unified_diff(src, open(sys.argv[1]).read())
    if src is None:
        sys.exit('patch does not apply')
m = srcmodel.Model(src)
for q in sys.argv[2:]:
    fi = m.func(q)
    print('#', q)
    print(ast.unparse(fi.node))
    print()
for mod in m.modules.values():
    if mod.normalised.get('left'):
        print('# left:', mod.normalised['left'])
