#!/usr/bin/env python3
"""dependency discovery: rename ONE local of ONE function at a time and list the checks that stop being
green -- i.e. the (function, local) names some rule identifies constructs by.  16 processes."""
import ast, importlib, json, os, sys
from concurrent.futures import ProcessPoolExecutor
HERE = os.path.dirname(os.path.dirname(os.path.abspath(__file__)))
sys.path.insert(0, HERE)
sys.dont_write_bytecode = True
from sa import report, srcmodel
from selftest import alpha

PROPS = ['C%02d' % i for i in range(1, 21)]


def rename_one(text, qual, name):
    tree = ast.parse(text)
    # find function by qualified path inside the module
    def find(body, parts):
        for n in body:
            if isinstance(n, (ast.FunctionDef, ast.AsyncFunctionDef, ast.ClassDef)) and n.name == parts[0]:
                if len(parts) == 1:
                    return n
                return find(n.body, parts[1:])
        return None
    fn = find(tree.body, qual.split('.'))
    if fn is None:
        return None
    for c in ast.walk(fn):
        if isinstance(c, ast.Name) and c.id == name:
            c.id = name + '_r'
        if isinstance(c, ast.ExceptHandler) and c.name == name:
            c.name = name + '_r'
    return ast.unparse(tree)


def job(a):
    mod, qual, name, src = a
    s = dict(src)
    t = rename_one(src[mod], qual, name)
    if t is None:
        return (mod, qual, name, ['?'])
    s[mod] = t
    bad = []
    try:
        model = srcmodel.Model(s)
    except Exception as e:
        return (mod, qual, name, ['model:%s' % e])
    for p in PROPS:
        rep = report.Report(p, 'quick', 0, write=False)
        m = importlib.import_module('rules.' + p.lower())
        err = None
        try:
            m.run(srcmodel.Model(s), rep, 'quick')
        except Exception as e:
            err = str(e)
        code, lines, ev = rep.finish(err)
        if code:
            bad.append('%s:%d' % (p, code))
    return (mod, qual, name, bad)


def main():
    src = srcmodel.load_sources()
    todo = []
    for mod, text in src.items():
        tree = ast.parse(text)
        def visit(body, prefix):
            for n in body:
                if isinstance(n, ast.ClassDef):
                    visit(n.body, prefix + [n.name])
                elif isinstance(n, (ast.FunctionDef, ast.AsyncFunctionDef)):
                    names, _ = alpha._bound_names(n)
                    for x in sorted(names):
                        todo.append((mod, '.'.join(prefix + [n.name]), x, src))
                    visit(n.body, prefix + [n.name])
        visit(tree.body, [])
    print(len(todo), 'single renames', flush=True)
    with ProcessPoolExecutor(14) as ex:
        for mod, qual, name, bad in ex.map(job, todo, chunksize=2):
            if bad:
                print('%s.%s :: %s -> %s' % (mod, qual, name, ' '.join(bad)), flush=True)
    print('done')


main()
