#!/usr/bin/env python3
"""usage: mkmeta.py <seed id> <property> <caught_by comma list> <needs_to_manifest> <history>"""
import json, sys, os
sid, prop, caught, needs, hist = sys.argv[1:6]
d = '/verif/seeded/' + sid
meta = {
 "id": sid, "breaks_property": prop, "needs_to_manifest": needs,
 "source": "independent sub-agent given only the property text, the ideas already used for that property, and a scratch worktree",
 "confirmed": {"demo_with_change": "exit 1", "demo_without_change": "exit 0",
               "baseline_with_change": "42 passed (pinned command, patch applied to /repo and reverted)",
               "commands": ["/verif/tools/seed_take.sh <worktree> " + sid]},
 "caught_by": [c for c in caught.split(',') if c], "history": hist}
json.dump(meta, open(os.path.join(d, 'meta.json'), 'w'), indent=1)
print('wrote', d)
