#!/usr/bin/env python3
"""print the markdown table of seeded changes from /verif/seeded/*/meta.json"""
import glob, json
print('| seed | breaks | what it needs to manifest (short) | caught by | history |')
print('|---|---|---|---|---|')
for mf in sorted(glob.glob('/verif/seeded/*/meta.json')):
    m = json.load(open(mf))
    needs = m['needs_to_manifest']
    short = needs.split(';')[-1].strip() if 'needs' in needs.split(';')[-1] else needs[:140]
    print('| %s | %s | %s | %s | %s |' % (m['id'], m['breaks_property'], short[:170].replace('|', '/'),
                                        ', '.join(m['caught_by']), m['history'][:230].replace('|', '/')))
