#!/usr/bin/env python3
"""usage: patch_eval.py [--alpha] <patch.diff> ...   -- apply each patch IN MEMORY to /repo's current
sources and run every property's quick rules on it (16 processes); prints, per patch, the properties
that are not green with the rules they report.  Nothing in /repo is touched.  (campaign helper, not a
check)"""
import importlib
import os
import sys
from concurrent.futures import ProcessPoolExecutor

HERE = os.path.dirname(os.path.dirname(os.path.abspath(__file__)))
sys.path.insert(0, HERE)
sys.dont_write_bytecode = True
os.environ['VERIF_NOWRITE'] = '1'

PROPS = ['C%02d' % i for i in range(1, 21)]


def one(job):
    patch, prop, alpha_ = job
    from sa import report, srcmodel
    from selftest import mutants
    src = srcmodel.load_sources()
    s = mutants.apply_unified_diff(src, open(patch).read())
    if s is None:
        return patch, prop, 3, ['patch does not apply']
    if alpha_:
        from selftest import alpha
        s = alpha.rename_locals(alpha.flip_comparisons(alpha.guard_clauses(alpha.invert_ifs(s))))
    rep = report.Report(prop, 'quick', 0, write=False)
    mod = importlib.import_module('rules.' + prop.lower())
    err = None
    try:
        mod.run(srcmodel.Model(s), rep, 'quick')
    except srcmodel.AnalysisError as e:
        err = '%s: %s' % (type(e).__name__, e)
    except Exception as e:
        import traceback
        err = 'internal %s: %s %s' % (type(e).__name__, e, traceback.format_exc().strip().splitlines()[-3:])
    code, lines, _ev = rep.finish(err)
    keep = [l for l in lines if l.startswith('  C') or 'ANALYSIS-ERROR' in l]
    return patch, prop, code, keep


def main():
    args = sys.argv[1:]
    alpha_ = False
    if args and args[0] == '--alpha':
        alpha_ = True
        args = args[1:]
    jobs = [(p, prop, alpha_) for p in args for prop in PROPS]
    res = {}
    with ProcessPoolExecutor(max_workers=16) as ex:
        for patch, prop, code, keep in ex.map(one, jobs):
            res.setdefault(patch, []).append((prop, code, keep))
    for patch in args:
        bad = [(p, c, k) for p, c, k in res[patch] if c != 0]
        print('=== %s: %s' % (patch, ' '.join('%s:%d' % (p, c) for p, c, _ in bad) or 'all green'))
        for p, c, k in bad:
            seen = set()
            for l in k:
                rule = l.split()[0] if l.startswith('  C') else 'ERR'
                if (rule, l[:140]) in seen:
                    continue
                seen.add((rule, l[:140]))
                print('   ' + l.strip()[:260])


if __name__ == '__main__':
    main()
