#!/usr/bin/env python3
"""run every check on the alpha-renamed package (selftest/alpha.py); prints non-green properties"""
import importlib, os, sys
HERE = os.path.dirname(os.path.dirname(os.path.abspath(__file__)))
sys.path.insert(0, HERE)
sys.dont_write_bytecode = True
from sa import report, srcmodel
from selftest import alpha
KIND = os.environ.get('TWIN', 'rename')
src = {'rename': alpha.rename_locals, 'invert': alpha.invert_ifs, 'guard': alpha.guard_clauses, 'flip': alpha.flip_comparisons}[KIND](srcmodel.load_sources())
for k, v in src.items():
    compile(v, k, 'exec')
props = sys.argv[1:] or ['C%02d' % i for i in range(1, 21)]
bad = 0
for p in props:
    rep = report.Report(p, 'quick', 0, write=False)
    mod = importlib.import_module('rules.' + p.lower())
    err = None
    try:
        mod.run(srcmodel.Model(src), rep, 'quick')
    except srcmodel.AnalysisError as e:
        err = '%s: %s' % (type(e).__name__, e)
    except Exception as e:
        import traceback
        err = 'internal %s: %s @ %s' % (type(e).__name__, e, traceback.format_exc().strip().splitlines()[-3:])
    code, lines, ev = rep.finish(err)
    if code:
        bad += 1
        print('---', p, 'exit', code)
        for l in lines:
            if (l.startswith('  C') or 'ANALYSIS' in l) and not l.startswith('      |'):
                print(l[:330])
print('%d non-green' % bad)
