#!/usr/bin/env python3
"""Freeze the table of functions / classes / module-level names the rules were written against
(anchors/functions.json).  Run ONLY when the rules have been reviewed against a new upstream tree;
sa.normalise inlines every same-module helper that is not in this table."""
import ast, json, os, sys
root = sys.argv[1] if len(sys.argv) > 1 else '/repo'
base = os.path.join(root, 'src/zope/testrunner')
out = {}
for fn in sorted(os.listdir(base)):
    if not fn.endswith('.py'):
        continue
    tree = ast.parse(open(os.path.join(base, fn)).read())
    funcs, classes, names = [], [], []
    def walk(body, prefix):
        for st in body:
            if isinstance(st, (ast.FunctionDef, ast.AsyncFunctionDef)):
                funcs.append(prefix + st.name)
                walk(st.body, prefix + st.name + '.')
            elif isinstance(st, ast.ClassDef):
                classes.append(prefix + st.name)
                walk(st.body, prefix + st.name + '.')
            elif isinstance(st, (ast.If, ast.Try, ast.With, ast.For, ast.While)):
                for fld in ('body', 'orelse', 'finalbody'):
                    walk(getattr(st, fld, []) or [], prefix)
                for h in getattr(st, 'handlers', []) or []:
                    walk(h.body, prefix)
    walk(tree.body, '')
    for st in tree.body:
        if isinstance(st, ast.Assign):
            for t in st.targets:
                if isinstance(t, ast.Name):
                    names.append(t.id)
    out[fn[:-3]] = {'functions': sorted(set(funcs)), 'classes': sorted(set(classes)), 'names': sorted(set(names))}
json.dump(out, open(os.path.join(os.path.dirname(os.path.abspath(__file__)), '..', 'anchors', 'functions.json'), 'w'), indent=0, sort_keys=True)
print(sum(len(v['functions']) for v in out.values()), 'functions in', len(out), 'modules')
