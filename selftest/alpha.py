"""Mechanical behaviour-preserving twins of the whole package (no sub-agent needed):

* ``rename_locals(sources)``  -- every local variable (not parameters, not names bound by def /
  class / import, not global / nonlocal names) of every function is consistently renamed
  (``x`` -> ``x_r``); names are how humans identify code, not what decides a property, so every
  check must stay green.  A rule that goes red here identifies constructs by their spelling.

Nothing is executed; the renamed sources are analysed like the real tree.
"""
import ast
import builtins


def _bound_names(fn):
    """names bound in the function's own scope (not in nested scopes): (locals, excluded)"""
    stored, excluded = set(), set()
    params = {a.arg for a in fn.args.posonlyargs + fn.args.args + fn.args.kwonlyargs}
    if fn.args.vararg:
        params.add(fn.args.vararg.arg)
    if fn.args.kwarg:
        params.add(fn.args.kwarg.arg)
    todo = list(fn.body)
    while todo:
        n = todo.pop()
        if isinstance(n, (ast.FunctionDef, ast.AsyncFunctionDef, ast.ClassDef)):
            excluded.add(n.name)
            continue
        if isinstance(n, ast.Lambda):
            continue
        if isinstance(n, (ast.Global, ast.Nonlocal)):
            excluded.update(n.names)
        if isinstance(n, (ast.Import, ast.ImportFrom)):
            for a in n.names:
                excluded.add((a.asname or a.name).split('.')[0])
        if isinstance(n, ast.Name) and isinstance(n.ctx, (ast.Store, ast.Del)):
            stored.add(n.id)
        if isinstance(n, ast.ExceptHandler) and n.name:
            stored.add(n.name)
        if isinstance(n, (ast.ListComp, ast.SetComp, ast.DictComp, ast.GeneratorExp)):
            # comprehension variables live in their own scope; they are renamed as well (all
            # occurrences in the function are renamed consistently, which is still sound)
            pass
        todo.extend(ast.iter_child_nodes(n))
    return stored - params - excluded, excluded | params


def rename_locals(sources, suffix='_r', only=None):
    out = {}
    for mod, text in sources.items():
        if only is not None and mod not in only:
            out[mod] = text
            continue
        tree = ast.parse(text)
        module_level = set()
        for n in ast.walk(tree):
            if isinstance(n, (ast.Global, ast.Nonlocal)):
                module_level.update(n.names)
        funcs = [n for n in ast.walk(tree) if isinstance(n, (ast.FunctionDef, ast.AsyncFunctionDef))]
        # outermost first: a nested function's occurrences are renamed with its parent's map too
        for fn in funcs:
            names, _ex = _bound_names(fn)
            names -= module_level
            names -= set(dir(builtins))
            names = {x for x in names if not x.startswith('__')}
            if not names:
                continue
            # a nested scope that takes the name as a parameter keeps it (different variable)
            def rename(node, active):
                for c in ast.iter_child_nodes(node):
                    act = active
                    if isinstance(c, (ast.FunctionDef, ast.AsyncFunctionDef, ast.Lambda)):
                        a = c.args
                        ps = {x.arg for x in a.posonlyargs + a.args + a.kwonlyargs}
                        if a.vararg:
                            ps.add(a.vararg.arg)
                        if a.kwarg:
                            ps.add(a.kwarg.arg)
                        act = active - ps
                        if isinstance(c, (ast.FunctionDef, ast.AsyncFunctionDef)):
                            own, _ = _bound_names(c)
                            # the nested function's own locals of the same name are renamed by
                            # its own pass; keep the parent's map away from them
                            act = act - own
                    if isinstance(c, ast.Name) and c.id in act:
                        c.id = c.id + suffix
                    if isinstance(c, ast.ExceptHandler) and c.name in act:
                        c.name = c.name + suffix
                    rename(c, act)
            rename(fn, names)
        out[mod] = ast.unparse(tree)
    return out


def invert_ifs(sources, only=None):
    """every ``if c: A else: B`` becomes ``if not c: B else: A`` (statements only; elif chains are
    nested ifs in the else branch and are inverted level by level)"""
    out = {}

    class T(ast.NodeTransformer):
        def visit_If(self, node):
            self.generic_visit(node)
            if node.orelse:
                t = node.test
                if isinstance(t, ast.UnaryOp) and isinstance(t.op, ast.Not):
                    nt = t.operand
                else:
                    nt = ast.UnaryOp(op=ast.Not(), operand=t)
                return ast.copy_location(ast.If(test=nt, body=node.orelse, orelse=node.body), node)
            return node
    for mod, text in sources.items():
        if only is not None and mod not in only:
            out[mod] = text
            continue
        tree = T().visit(ast.parse(text))
        ast.fix_missing_locations(tree)
        out[mod] = ast.unparse(tree)
    return out


def guard_clauses(sources, only=None):
    """``if c: <body>`` as the LAST statement of a loop body becomes ``if not c: continue`` + body;
    as the last statement of a function body ``if not c: return`` + body (no else branch)"""
    out = {}

    def rewrite(body, exit_stmt):
        if body and isinstance(body[-1], ast.If) and not body[-1].orelse and len(body[-1].body) > 1:
            i = body[-1]
            t = i.test
            nt = t.operand if isinstance(t, ast.UnaryOp) and isinstance(t.op, ast.Not) else \
                ast.UnaryOp(op=ast.Not(), operand=t)
            guard = ast.copy_location(ast.If(test=nt, body=[exit_stmt()], orelse=[]), i)
            return body[:-1] + [guard] + i.body
        return body

    class T(ast.NodeTransformer):
        def visit_For(self, node):
            self.generic_visit(node)
            node.body = rewrite(node.body, ast.Continue)
            return node
        visit_While = visit_For

        def visit_FunctionDef(self, node):
            self.generic_visit(node)
            if not any(isinstance(n, (ast.Yield, ast.YieldFrom)) for n in ast.walk(node)):
                node.body = rewrite(node.body, lambda: ast.Return(value=None))
            return node
    for mod, text in sources.items():
        if only is not None and mod not in only:
            out[mod] = text
            continue
        tree = T().visit(ast.parse(text))
        ast.fix_missing_locations(tree)
        out[mod] = ast.unparse(tree)
    return out


def flip_comparisons(sources, only=None):
    """``a < b`` -> ``b > a``, ``a == b`` -> ``b == a`` ... for single comparisons whose operands have
    no calls (no evaluation-order effect); ``is`` / ``in`` are left alone"""
    flip = {ast.Lt: ast.Gt, ast.Gt: ast.Lt, ast.LtE: ast.GtE, ast.GtE: ast.LtE, ast.Eq: ast.Eq,
            ast.NotEq: ast.NotEq}

    def simple(e):
        return not any(isinstance(x, (ast.Call, ast.Await, ast.Yield, ast.NamedExpr)) for x in ast.walk(e))

    class T(ast.NodeTransformer):
        def visit_Compare(self, node):
            self.generic_visit(node)
            if len(node.ops) == 1 and type(node.ops[0]) in flip and simple(node.left) and \
                    simple(node.comparators[0]):
                return ast.copy_location(ast.Compare(left=node.comparators[0],
                                                     ops=[flip[type(node.ops[0])]()],
                                                     comparators=[node.left]), node)
            return node
    out = {}
    for mod, text in sources.items():
        if only is not None and mod not in only:
            out[mod] = text
            continue
        tree = T().visit(ast.parse(text))
        ast.fix_missing_locations(tree)
        out[mod] = ast.unparse(tree)
    return out
