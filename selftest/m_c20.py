MUTANTS = [
    ('c20-index-neighbors', 'C20', 'digraph', "                            if n not in self._neighbors.get(n, ()):", "                            if n not in self._neighbors[n]:", 'C20.R1'),
    ('c20-index-neighbors-extend', 'C20', 'digraph', "                    visits.extend(self._neighbors.get(node, ()))", "                    visits.extend(self._neighbors[node])", 'C20.R1,C20.R2'),
    ('c20-state-late', 'C20', 'digraph', "                    unvisited.remove(node)\n                    nstate = state[node] = _TarjanState(dfs)\n                    ancestors.append(node)", "                    unvisited.remove(node)\n                    ancestors.append(node)\n                    nstate = state[node] = _TarjanState(dfs)", 'C20.R2'),
    ('c20-stacked-not-set', 'C20', 'digraph', "                    stack.append(node)\n                    nstate.stacked = True\n", "                    stack.append(node)\n", 'C20.R2'),
    ('c20-stacked-not-cleared', 'C20', 'digraph', "                            n = stack.pop()\n                            state[n].stacked = False\n", "                            n = stack.pop()\n", 'C20.R2'),
    ('c20-yield-non-root', 'C20', 'digraph', "                    if nstate.low == nstate.dfs:", "                    if nstate.low <= nstate.dfs:", 'C20.R2'),
    ('c20-consumes-nodes', 'C20', 'digraph', "        unvisited = self._nodes.copy()", "        unvisited = self._nodes", 'C20.R2'),
    ('c20-first-neighbor-only', 'C20', 'digraph', "                    visits.extend(self._neighbors.get(node, ()))", "                    visits.extend(list(self._neighbors.get(node, ()))[:1])", 'C20.R2'),
    ('c20-drop-selfloop', 'C20', 'digraph', "                            if n not in self._neighbors.get(n, ()):\n                                continue  # tivial -- ignore", "                            continue  # tivial -- ignore", 'C20.R3'),
    ('c20-drop-pairs', 'C20', 'digraph', "                        if len(scc) == 1 and not trivial:", "                        if len(scc) <= 2 and not trivial:", 'C20.R3'),
    ('c20-trivial-default-true', 'C20', 'digraph', "    def sccs(self, trivial=False):", "    def sccs(self, trivial=True):", 'C20.R3'),
    ('c20-twin-membership-guard', 'C20', 'digraph', "                            if n not in self._neighbors.get(n, ()):", "                            if n not in self._neighbors or n not in self._neighbors[n]:", 'skip'),
]
MUTANTS = [m for m in MUTANTS if m[5] != 'skip']
