"""Self-test of the checkers: in-memory variants of /repo's *current* sources.

Each entry: (id, property, module, old text, new text, expected) where expected is
  'ok'            -- a behaviour-preserving twin: the check must stay green (exit 0)
  'Cxx.Rn[,...]'  -- a breaking variant: the check must report a VIOLATION of (one of) these
                     rules and nothing may be undecided.
old/new are exact source fragments; a fragment that no longer occurs means the source changed
and the entry is skipped (counted).  Nothing is written to disk and nothing is executed: the
variant is parsed and analysed like the real tree.
"""
import importlib
import os
import sys
from concurrent.futures import ProcessPoolExecutor

HERE = os.path.dirname(os.path.dirname(os.path.abspath(__file__)))
if HERE not in sys.path:
    sys.path.insert(0, HERE)

from sa import report, srcmodel  # noqa: E402


def entries():
    out = []
    d = os.path.join(HERE, 'selftest')
    for fn in sorted(os.listdir(d)):
        if fn.startswith('m_') and fn.endswith('.py'):
            mod = importlib.import_module('selftest.' + fn[:-3])
            out.extend(mod.MUTANTS)
    return out


def apply_unified_diff(sources, patch_text):
    """apply a git unified diff to the in-memory sources ({module: text}); returns the new mapping or
    None if a hunk does not apply (the sources changed)"""
    import re
    out = dict(sources)
    cur = None
    hunks = {}
    for line in patch_text.splitlines():
        if line.startswith('+++ '):
            m = re.match(r'\+\+\+ b/src/zope/testrunner/(\w+)\.py', line)
            cur = m.group(1) if m else None
            if cur is not None:
                hunks.setdefault(cur, [])
        elif line.startswith('@@') and cur is not None:
            hunks[cur].append([])
        elif cur is not None and hunks.get(cur) and (line[:1] in (' ', '+', '-') or line == '') and \
                not line.startswith('--- ') and not line.startswith('diff '):
            hunks[cur][-1].append(line if line else ' ')
        elif line.startswith('diff '):
            cur = None
    for mod, hs in hunks.items():
        if mod not in out:
            return None
        lines = out[mod].split('\n')
        for h in hs:
            before = [x[1:] for x in h if x[0] in (' ', '-')]
            after = [x[1:] for x in h if x[0] in (' ', '+')]
            pos = None
            for i in range(len(lines) - len(before) + 1):
                if lines[i:i + len(before)] == before:
                    pos = i
                    break
            if pos is None:
                return None
            lines[pos:pos + len(before)] = after
        out[mod] = '\n'.join(lines)
    return out


def seed_entries():
    """the independently written breaking changes of /verif/seeded as variants"""
    import json
    out = []
    d = os.path.join(HERE, 'seeded')
    if not os.path.isdir(d):
        return out
    for sid in sorted(os.listdir(d)):
        try:
            meta = json.load(open(os.path.join(d, sid, 'meta.json')))
            patch = open(os.path.join(d, sid, 'patch.diff')).read()
        except OSError:
            continue
        by_prop = {}
        for c in meta.get('caught_by', []):
            by_prop.setdefault(c.split('.')[0], []).append(c)
        for prop, rules in sorted(by_prop.items()):
            out.append(('seed-' + sid, prop, '<patch>', patch, '', ','.join(rules)))
            # the same change followed by the mechanical twins (every if/else inverted, trailing ifs
            # turned into guard clauses, every local renamed): what a rule catches must not depend on
            # spelling or branch polarity
            out.append(('seedalpha-' + sid, prop, '<patch+alpha>', patch, '', ','.join(rules)))
    return out


def benign_entries():
    """behaviour-preserving refactorings written by independent sub-agents (/verif/benign): every
    property must stay green on each of them"""
    out = []
    d = os.path.join(HERE, 'benign')
    if not os.path.isdir(d):
        return out
    props = sorted(fn[:-3].upper() for fn in os.listdir(os.path.join(HERE, 'rules'))
                   if fn.startswith('c') and fn[1:3].isdigit() and fn.endswith('.py'))
    for bid in sorted(os.listdir(d)):
        try:
            patch = open(os.path.join(d, bid, 'patch.diff')).read()
        except OSError:
            continue
        for prop in props:
            out.append(('benign-' + bid, prop, '<patch>', patch, '', 'ok'))
    for prop in props:
        # mechanical twin: every local variable of every function renamed (selftest/alpha.py)
        out.append(('benign-alpha', prop, '<alpha>', 'alpha', '', 'ok'))
        # every if/else inverted; trailing ifs turned into guard clauses; all three together
        out.append(('benign-invert', prop, '<alpha>', 'invert', '', 'ok'))
        out.append(('benign-guard', prop, '<alpha>', 'guard', '', 'ok'))
        out.append(('benign-flip', prop, '<alpha>', 'flip', '', 'ok'))
        out.append(('benign-all-mechanical', prop, '<alpha>', 'all', '', 'ok'))
    return out


def run_variant(args):
    ident, prop, module, old, new, expected, sources = args
    if module in ('<patch>', '<patch+alpha>'):
        sources = apply_unified_diff(sources, old)
        if sources is None:
            return ident, 'skipped', 'patch does not apply to the current sources'
        if module == '<patch+alpha>':
            from selftest import alpha
            sources = alpha.rename_locals(alpha.flip_comparisons(alpha.guard_clauses(alpha.invert_ifs(sources))))
    elif module == '<alpha>':
        from selftest import alpha
        sources = {'alpha': alpha.rename_locals, 'invert': alpha.invert_ifs, 'guard': alpha.guard_clauses,
                   'flip': alpha.flip_comparisons,
                   'all': lambda x: alpha.rename_locals(alpha.flip_comparisons(
                       alpha.guard_clauses(alpha.invert_ifs(x))))}[old](sources)
    else:
        src = sources[module]
        if src.count(old) < 1:
            return ident, 'skipped', 'fragment not found in %s' % module
        sources = dict(sources)
        sources[module] = src.replace(old, new) if ident.startswith('all-') else src.replace(old, new, 1)
    rep = report.Report(prop, 'selftest', 0, write=False)
    err = None
    try:
        mod = importlib.import_module('rules.' + prop.lower())
        model = srcmodel.Model(sources)
        mod.run(model, rep, 'quick')
    except srcmodel.AnalysisError as e:
        err = '%s: %s' % (type(e).__name__, e)
    except Exception as e:
        import traceback
        err = 'internal %s: %s %s' % (type(e).__name__, e, traceback.format_exc().splitlines()[-4:])
    code, lines, ev = rep.finish(err)
    viol = sorted({o['rule'] for o in rep.obligations if o['verdict'] == 'violated'})
    if expected == 'ok':
        if code == 0:
            return ident, 'pass', ''
        return ident, 'fail', 'benign twin not green: exit %d %s %s' % (code, viol, [l for l in lines if 'ANALYSIS' in l][:2])
    want = set(expected.split(','))
    if code == 1 and (want & {v for v in viol} or want & {v.rstrip('abcdefgh') for v in viol}):
        return ident, 'pass', ','.join(viol)
    return ident, 'fail', 'expected %s, got exit %d violated=%s %s' % (
        expected, code, viol, [l for l in lines if 'ANALYSIS' in l][:2])


def run_for(prop=None, jobs=None, only=None):
    sources = srcmodel.load_sources()
    todo = [e for e in entries() + seed_entries() + benign_entries()
            if (prop is None or e[1] == prop) and (only is None or only in e[0])]
    args = [e + (sources,) for e in todo]
    jobs = jobs or min(16, max(1, len(args)))
    res = []
    if not args:
        return res
    if jobs == 1:
        res = [run_variant(a) for a in args]
    else:
        with ProcessPoolExecutor(jobs) as ex:
            res = list(ex.map(run_variant, args, chunksize=1))
    return res


def summary(res):
    return {'variants': len(res), 'passed': sum(1 for r in res if r[1] == 'pass'),
            'skipped': sum(1 for r in res if r[1] == 'skipped'),
            'failed': ['%s: %s' % (r[0], r[2]) for r in res if r[1] == 'fail']}


def main(argv):
    prop = argv[0].upper() if argv and argv[0].upper().startswith('C') else None
    only = argv[1] if len(argv) > 1 else None
    res = run_for(prop, only=only)
    for r in res:
        print('%-8s %-40s %s' % (r[1], r[0], r[2]))
    s = summary(res)
    print('%d variants, %d passed, %d skipped, %d failed' % (
        s['variants'], s['passed'], s['skipped'], len(s['failed'])))
    return 2 if s['failed'] else 0


if __name__ == '__main__':
    sys.exit(main(sys.argv[1:]))
