"""T8 -- catalogue of effectful library calls, resolved through import aliases."""
import ast

from .srcmodel import dotted

DESTRUCTIVE = {
    'os.unlink', 'os.remove', 'os.rmdir', 'os.removedirs', 'os.rename', 'os.renames', 'os.replace',
    'os.truncate', 'os.ftruncate', 'shutil.rmtree', 'shutil.move', 'shutil.copy', 'shutil.copyfile',
    'shutil.copy2', 'shutil.copytree', 'tempfile.mkstemp', 'tempfile.mkdtemp', 'os.mkdir',
    'os.makedirs', 'os.chmod', 'os.chown', 'os.symlink', 'os.link', 'os.utime',
}
PATH_METHODS = {'unlink', 'rmdir', 'rename', 'replace', 'write_text', 'write_bytes', 'mkdir', 'touch',
                'chmod', 'symlink_to', 'hardlink_to'}
IMPORTERS = {'__import__', 'importlib.import_module', 'importlib.__import__', 'imp.load_module',
             'runpy.run_module', 'runpy.run_path'}


def destructive_sites(model):
    """[(FuncInfo or None, module, call node, canonical name)] of destructive file-system calls
    in non-test package code (calls are matched by resolved module function, so set.remove,
    str.replace or BytesIO.truncate are not confused with them)"""
    out = []
    for fi in model.all_functions():
        for n in ast.walk(fi.node):
            if isinstance(n, ast.Call) and _owner(n) is fi.node:
                c = classify(model, fi.module, n)
                if c:
                    out.append((fi, fi.module, n, c))
    return out


def _owner(node):
    cur = node
    while getattr(cur, '_parent', None) is not None:
        cur = cur._parent
        if isinstance(cur, (ast.FunctionDef, ast.AsyncFunctionDef, ast.Lambda)):
            return cur
    return None


def classify(model, module, call):
    d = dotted(call.func)
    canon = model.resolve_dotted(module, d) if d else None
    if canon in DESTRUCTIVE:
        return canon
    if canon in ('open', 'io.open', 'codecs.open') or (d == 'open'):
        mode = None
        if len(call.args) > 1:
            mode = call.args[1]
        for k in call.keywords:
            if k.arg == 'mode':
                mode = k.value
        if mode is None:
            return None
        if isinstance(mode, ast.Constant) and isinstance(mode.value, str):
            return 'open(mode=%r)' % mode.value if set(mode.value) & set('wax+') else None
        return 'open(mode=?)'
    if isinstance(call.func, ast.Attribute) and call.func.attr in PATH_METHODS:
        # a pathlib.Path method: receiver built from Path(...) or ``/``; accept by name of the
        # receiver expression only when it is not an obviously different type
        recv = call.func.value
        if isinstance(recv, ast.BinOp) and isinstance(recv.op, ast.Div):
            return 'Path.' + call.func.attr
        if isinstance(recv, ast.Call) and (dotted(recv.func) or '').endswith('Path'):
            return 'Path.' + call.func.attr
        if isinstance(recv, ast.Name) and call.func.attr in ('mkdir', 'unlink', 'rmdir', 'write_text',
                                                             'write_bytes', 'touch'):
            return 'Path.' + call.func.attr
        if isinstance(recv, ast.Attribute) and call.func.attr in ('mkdir', 'unlink', 'rmdir',
                                                                  'write_text', 'write_bytes'):
            return 'Path.' + call.func.attr
    if isinstance(call.func, ast.Attribute) and call.func.attr == 'write_results':
        return 'trace.CoverageResults.write_results'
    return None


def import_sites(model):
    out = []
    for fi in model.all_functions():
        for n in ast.walk(fi.node):
            if isinstance(n, ast.Call) and _owner(n) is fi.node:
                d = dotted(n.func)
                canon = model.resolve_dotted(fi.module, d) if d else None
                if canon in IMPORTERS or d in IMPORTERS:
                    out.append((fi, n, canon or d))
                elif canon and canon.endswith('.find.import_name'):
                    out.append((fi, n, 'import_name'))
    return out
